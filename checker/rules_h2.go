package main

// rules_h2.go: rules written from the second bug-hunt wave (hunt/h2, DESIGN §5.2a): ID.DUPNAME (C11/finding3),
// SCHEMA.EXTPARENT (C03/finding3), SCHEMA.LEAFSTMT (C03/finding2, recorded finding).

import (
	"fmt"
	"go/token"
	"go/types"
	"regexp"
	"sort"
	"strings"

	"golang.org/x/tools/go/ssa"
)

func init() {
	register(&Rule{Name: "ID.DUPNAME", Props: []string{"C11"}, Floor: 2,
		Doc: "an identity is filed only after its name was looked up in a table that spans the module and all its submodules; a name that is taken is reported, not overwritten",
		Run: ruleIDDupName})
	register(&Rule{Name: "SCHEMA.EXTPARENT", Props: []string{"C03"}, Floor: 2,
		Doc: "a prefixed substatement filed in an extension list records the node it was filed under, and ParentNode of a statement returns that record",
		Run: ruleSchemaExtParent})
	register(&Rule{Name: "SCHEMA.LEAFSTMT", Props: []string{"C03"}, Floor: 1,
		Doc: "the node type shared by the argument-only statements has no substatement slot that RFC 7950 denies to one of the keywords built with it",
		Run: ruleSchemaLeafStmt})
}

// ---------------------------------------------------------------- ID.DUPNAME

func ruleIDDupName(c *Ctx) []Obligation {
	const R = "ID.DUPNAME"
	fn := c.Fn("yang.(*Modules).resolveIdentities")
	dictT := c.Named("yang", "identityDictionary")
	idT := c.Named("yang", "Identity")
	if fn == nil || dictT == nil || idT == nil {
		return []Obligation{undecided(R, "identity filing", "-", "resolveIdentities / identityDictionary / Identity not found")}
	}
	fDict, fName := FieldVar(dictT, "dict"), FieldVar(idT, "Name")
	if fDict == nil || fName == nil {
		return []Obligation{undecided(R, "identity filing", "-", "identityDictionary.dict / Identity.Name not found")}
	}
	ups := c.mapUpdatesOnFieldDeep(fn, fDict)
	if len(ups) == 0 {
		return []Obligation{undecided(R, "identity filing", c.Pos(fn.Pos()), "no insertion into the identity dictionary found")}
	}
	sort.Slice(ups, func(i, j int) bool { return ups[i].Pos() < ups[j].Pos() })
	var obs []Obligation
	for n, mu := range ups {
		suffix := ""
		if len(ups) > 1 {
			suffix = fmt.Sprintf(" #%d", n+1)
		}
		con := "resolveIdentities: an identity is filed only when its name is not yet taken in its module" + suffix
		con2 := "resolveIdentities: the table of taken names spans a module and all its submodules, and nothing else" + suffix
		// a lookup whose key is the identity's name (or the key it is filed under) on every path to the filing, and
		// a test of its outcome one branch of which skips the filing (until the next lookup) and makes an error
		var lks []*ssa.Lookup
		c.eachInstrDeep(fn, func(in ssa.Instruction) {
			lk, isL := in.(*ssa.Lookup)
			if !isL {
				return
			}
			if _, isMap := lk.X.Type().Underlying().(*types.Map); !isMap {
				return
			}
			byName := lk.Index == mu.Key
			operandClosure(lk.Index, func(y ssa.Value) {
				if _, f, _ := loadedField(y); f == fName {
					byName = true
				}
			})
			if byName {
				lks = append(lks, lk)
			}
		})
		var table ssa.Value
		var testAt *ssa.If
		silent := false
		for _, lk := range lks {
			// the filing as seen from the function that holds the lookup
			sites := liftAll(mu, lk.Parent(), 0)
			if len(sites) == 0 || testAt != nil {
				continue
			}
			okAll := true
			for _, site := range sites {
				if !dominates(lk, site) {
					okAll = false
				}
			}
			if !okAll {
				continue
			}
			avoid := map[*ssa.BasicBlock]bool{lk.Block(): true}
			for _, b := range lk.Parent().Blocks {
				ifi, isIf := b.Instrs[len(b.Instrs)-1].(*ssa.If)
				if !isIf || testAt != nil {
					continue
				}
				fromLk := false
				operandClosureDeep(ifi.Cond, func(x ssa.Value) {
					if x == ssa.Value(lk) {
						fromLk = true
					}
				})
				if !fromLk || !(b == lk.Block() || blockReaches(lk.Block(), b, nil)) {
					continue
				}
				for _, s := range b.Succs {
					skips := true
					for _, site := range sites {
						if s == site.Block() || blockReaches(s, site.Block(), avoid) {
							skips = false
						}
					}
					if !skips {
						continue
					}
					// the skipping branch is the one where the name is taken by another: a comparison of what was found
					// with nil, or with the identity at hand, must come out "found" and "another" there
					if bo, isBO := ifi.Cond.(*ssa.BinOp); isBO && (bo.Op == token.EQL || bo.Op == token.NEQ) {
						if _, isPtr := bo.X.Type().Underlying().(*types.Pointer); isPtr {
							onEqual := (bo.Op == token.EQL) == (s == b.Succs[0])
							if onEqual {
								continue
							}
						}
					}
					// an error value is made on the skipping branch
					made := false
					seen := map[*ssa.BasicBlock]bool{}
					stack := []*ssa.BasicBlock{s}
					for len(stack) > 0 && !made {
						x := stack[len(stack)-1]
						stack = stack[:len(stack)-1]
						if seen[x] || avoid[x] {
							continue
						}
						seen[x] = true
						for _, in := range x.Instrs {
							if v, isV := in.(ssa.Value); isV && isErrorType(v.Type()) {
								switch in.(type) {
								case *ssa.Call, *ssa.MakeInterface:
									made = true
								}
							}
						}
						stack = append(stack, x.Succs...)
					}
					if made {
						testAt, table = ifi, lk.X
					} else {
						silent = true
					}
				}
			}
		}
		// a table of its own must also be filled: the name is entered where the identity is filed
		if testAt != nil {
			if _, f, _ := loadedField(table); f != fDict {
				filled := false
				c.eachInstrDeep(fn, func(in ssa.Instruction) {
					mu2, isMU := in.(*ssa.MapUpdate)
					if !isMU || filled {
						return
					}
					same := false
					operandClosure(mu2.Map, func(x ssa.Value) {
						operandClosure(table, func(y ssa.Value) {
							if _, isMk := x.(*ssa.MakeMap); isMk && x == y {
								same = true
							}
						})
					})
					if !same {
						return
					}
					byName := false
					operandClosure(mu2.Key, func(y ssa.Value) {
						if _, f2, _ := loadedField(y); f2 == fName {
							byName = true
						}
					})
					if byName {
						filled = true
					}
				})
				if !filled {
					obs = append(obs, bad(R, con, c.InstrPos(mu), "the table of taken names is looked up but never filled: no name is ever found taken, and a second identity of the same name replaces the first as before"))
					continue
				}
			}
		}
		switch {
		case testAt != nil:
			obs = append(obs, ok(R, con, c.InstrPos(mu), "a lookup by the identity's name precedes the filing, and the branch of "+c.InstrPos(testAt)+" that skips the filing makes an error"))
		case silent:
			obs = append(obs, bad(R, con, c.InstrPos(mu), "the branch that finds the name taken makes no error: the duplicate is dropped silently"))
			continue
		default:
			obs = append(obs, bad(R, con, c.InstrPos(mu), "the insertion is not under a test of a lookup by the identity's name: a second identity of the same name in the module or one of its submodules silently takes the place of the first, whose derivations vanish from every list (and whose undefined base or cycle goes unreported)"))
			continue
		}
		// the table: the dictionary itself (reset per run, STATE.RESET), or a map made once per module visit —
		// before every filing site of that module, inside the loop over the modules
		if _, f, _ := loadedField(table); f == fDict {
			obs = append(obs, ok(R, con2, c.InstrPos(mu), "the lookup is on the dictionary itself"))
			continue
		}
		var mks []*ssa.MakeMap
		operandClosure(table, func(x ssa.Value) {
			if m, isM := x.(*ssa.MakeMap); isM {
				mks = append(mks, m)
			}
		})
		if len(mks) == 0 {
			obs = append(obs, undecided(R, con2, c.InstrPos(mu), "cannot tell where the table of taken names is made"))
			continue
		}
		sort.Slice(mks, func(i, j int) bool { return mks[i].Pos() < mks[j].Pos() })
		verdict := ok(R, con2, c.InstrPos(mks[0]), "made inside the loop over the modules, before all filing sites")
		for _, mk := range mks {
			sites := liftAll(mu, mk.Parent(), 0)
			if len(sites) == 0 {
				verdict = undecided(R, con2, c.InstrPos(mk), "the table is made in a function the filing is not inlined into")
				break
			}
			if loopHeaderOf(mk.Block()) == nil {
				verdict = bad(R, con2, c.InstrPos(mk), "the table is made once for all modules: two loaded revisions of one module, or two modules that define the same identity name, are reported as duplicates of each other")
				break
			}
			all := true
			for _, s := range sites {
				if !dominates(mk, s) {
					all = false
				}
			}
			if !all {
				verdict = bad(R, con2, c.InstrPos(mk), "the table is made anew between two filing sites of one module (per submodule, say): the same name in the module and in a submodule is not noticed")
				break
			}
		}
		obs = append(obs, verdict)
	}
	return obs
}

// ---------------------------------------------------------------- SCHEMA.EXTPARENT

func ruleSchemaExtParent(c *Ctx) []Obligation {
	const R = "SCHEMA.EXTPARENT"
	stT := c.Named("yang", "Statement")
	it := c.Fn("yang.initTypes")
	pn := c.Fn("yang.(*Statement).ParentNode")
	con1 := "(*Statement).ParentNode returns the node recorded in the statement"
	con2 := "the extension filer records the enclosing node in the statement it files"
	if stT == nil || it == nil || pn == nil {
		return []Obligation{undecided(R, con1, "-", "Statement / initTypes / (*Statement).ParentNode not found")}
	}
	var obs []Obligation
	// (1) the field ParentNode returns
	var link *types.Var
	constNil := true
	eachInstr(pn, func(in ssa.Instruction) {
		r, isR := in.(*ssa.Return)
		if !isR || len(r.Results) != 1 {
			return
		}
		v := resolveSpill(r.Results[0], r)
		if isNilConst(v) {
			return
		}
		constNil = false
		operandClosure(v, func(x ssa.Value) {
			if _, f, base := loadedField(x); f != nil && link == nil && base != nil && isParamN(pn, rootOf(base), 0) {
				link = f
			}
		})
	})
	switch {
	case link != nil:
		obs = append(obs, ok(R, con1, c.Pos(pn.Pos()), "returns Statement."+recordedFieldName(link)))
	case constNil:
		obs = append(obs, bad(R, con1, c.Pos(pn.Pos()), "ParentNode is the constant nil: a prefixed substatement kept in an extension list has no link to its enclosing node — NodePath, RootNode and FindModuleByPrefix cannot be used on it, the prefix of its own keyword cannot be resolved from it"))
		return obs
	default:
		obs = append(obs, undecided(R, con1, c.Pos(pn.Pos()), "ParentNode returns something that is not a field of the statement"))
		return obs
	}
	// (2) the filer: the closure of initTypes that appends its statement parameter to a field through reflection
	found := false
	for _, cl := range it.AnonFuncs {
		if len(cl.Params) < 2 || namedOf(cl.Params[0].Type()) != stT {
			continue
		}
		// the filer appends the statement itself; the builders of list-valued slots append the node built from it
		appends, builds := false, false
		eachInstr(cl, func(in ssa.Instruction) {
			if call, isC := in.(*ssa.Call); isC {
				if cal := call.Call.StaticCallee(); cal != nil && cal.Name() == "Append" && cal.Pkg != nil && cal.Pkg.Pkg.Path() == "reflect" {
					appends = true
				}
				if cal := call.Call.StaticCallee(); cal != nil && cal == c.Fn("yang.build") {
					builds = true
				}
			}
		})
		if !appends || builds {
			continue
		}
		found = true
		var st *ssa.Store
		for _, s := range storesToField(cl, link) {
			if _, _, base := fieldOf(s.Addr); base != nil && rootOf(base) == ssa.Value(cl.Params[0]) {
				st = s
			}
		}
		if st == nil {
			obs = append(obs, bad(R, con2, c.Pos(cl.Pos()), "the statement is appended to the extension list without Statement."+recordedFieldName(link)+" being set: ParentNode of an extension statement stays nil"))
			continue
		}
		fromNode := false
		operandClosure(st.Val, func(x ssa.Value) {
			if x == ssa.Value(cl.Params[1]) {
				fromNode = true
			}
		})
		// not on the branch where a comma-ok assertion of the node failed (there the value is nil)
		for _, g := range guardsAt(st.Block()) {
			if ex, isE := g.Cond.(*ssa.Extract); isE && ex.Index == 1 && !g.Branch {
				if _, isTA := ex.Tuple.(*ssa.TypeAssert); isTA {
					fromNode = false
				}
			}
		}
		if fromNode {
			obs = append(obs, ok(R, con2, c.InstrPos(st), "set from the node under construction (the filer's second parameter)"))
		} else {
			obs = append(obs, bad(R, con2, c.InstrPos(st), "the recorded value does not come from the node under construction (the builder's parent argument is the enclosing node's own parent: the link would skip a level)"))
		}
	}
	if !found {
		obs = append(obs, undecided(R, con2, c.Pos(it.Pos()), "no closure of initTypes appends a statement to a list through reflection"))
	}
	return obs
}

// ---------------------------------------------------------------- SCHEMA.LEAFSTMT

// RFC 7950: of the statements goyang builds as a bare Value, only these take substatements at all.
var specLeafStmtSubs = map[string][]string{
	"when": {"description", "reference"},
}

func ruleSchemaLeafStmt(c *Ctx) []Obligation {
	const R = "SCHEMA.LEAFSTMT"
	s := c.Schema()
	valT := c.Named("yang", "Value")
	if valT == nil || s.Types[valT] == nil {
		return []Obligation{undecided(R, "Value", "-", "yang.Value not found in the schema")}
	}
	nt := s.Types[valT]
	kws := append([]string(nil), nt.Keywords...)
	sort.Strings(kws)
	var obs []Obligation
	for _, f := range nt.Fields {
		switch f.Keyword {
		case "Name", "Statement", "Parent", "Ext":
			continue
		}
		con := fmt.Sprintf("Value: substatement %q is allowed by RFC 7950 under every keyword built as a Value", f.Keyword)
		var deny []string
		for _, kw := range kws {
			allowed := false
			for _, a := range specLeafStmtSubs[kw] {
				if a == f.Keyword {
					allowed = true
				}
			}
			if !allowed {
				deny = append(deny, kw)
			}
		}
		if len(deny) == 0 {
			obs = append(obs, ok(R, con, c.Pos(f.Var.Pos()), fmt.Sprintf("%d keyword(s)", len(kws))))
		} else {
			obs = append(obs, bad(R, con, c.Pos(f.Var.Pos()), fmt.Sprintf("the slot is shared by all %d keywords built as a Value, and RFC 7950 gives %d of them no such substatement (%s): `prefix m { %s \"d\"; }` is accepted, recursively, where any other keyword is refused as unknown", len(kws), len(deny), strings.Join(deny, ", "), f.Keyword)))
		}
	}
	if len(obs) == 0 {
		o := ok(R, "Value: no substatement slots", c.Pos(valT.Obj().Pos()), "the shared type has no slot besides name, statement, parent and extensions")
		obs = append(obs, o)
	}
	return obs
}

// operandClosureDeep: operandClosure that also enters the returned values of private helpers (inline.go).
func operandClosureDeep(v ssa.Value, visit func(ssa.Value)) {
	seenCall := map[*ssa.Call]bool{}
	var outer func(ssa.Value)
	outer = func(v ssa.Value) {
		operandClosure(v, func(x ssa.Value) {
			visit(x)
			call, isC := x.(*ssa.Call)
			if !isC || seenCall[call] {
				return
			}
			seenCall[call] = true
			cal := call.Call.StaticCallee()
			if cal == nil || exactHelper(cal) == nil {
				return
			}
			for _, b := range cal.Blocks {
				if r, isR := b.Instrs[len(b.Instrs)-1].(*ssa.Return); isR && b != cal.Recover {
					for _, res := range r.Results {
						outer(resolveSpill(res, r))
					}
				}
			}
		})
	}
	outer(v)
}

// ---------------------------------------------------------------- NUM.ERRVALUE (seeded C15-w10-1)

func init() {
	register(&Rule{Name: "NUM.ERRVALUE", Props: []string{"C15", "C14", "C10"}, Floor: 4,
		Doc: "the number a parser or conversion hands back together with an error is never used: every use of the value lies on the branch where the error was found nil, or passes value and error on together",
		Run: ruleNumErrValue})
}

func ruleNumErrValue(c *Ctx) []Obligation {
	const R = "NUM.ERRVALUE"
	numT := c.Named("yang", "Number")
	if numT == nil {
		return []Obligation{undecided(R, "Number", "-", "yang.Number not found")}
	}
	// the producers: repo functions of pkg/yang whose results are (number-like, error)
	isNumLike := func(t types.Type) bool {
		if namedOf(t) == numT {
			return true
		}
		if b, ok := t.Underlying().(*types.Basic); ok && b.Info()&types.IsInteger != 0 {
			return true
		}
		return false
	}
	producer := func(fn *ssa.Function) bool {
		if fn == nil || !c.isRepoFn(fn) || fn.Pkg == nil || shortPkg(fn.Pkg.Pkg.Path()) != "yang" {
			return false
		}
		res := fn.Signature.Results()
		if res.Len() != 2 || !isErrorType(res.At(1).Type()) || !isNumLike(res.At(0).Type()) {
			return false
		}
		// number-like in and out: a parser (string → Number) or a conversion (Number → int64)
		if namedOf(res.At(0).Type()) == numT {
			return true
		}
		return fn.Signature.Recv() != nil && namedOf(fn.Signature.Recv().Type()) == numT
	}
	var obs []Obligation
	for _, fn := range c.Funcs {
		if !c.isRepoFn(fn) {
			continue
		}
		seen := map[string]int{}
		eachInstr(fn, func(in ssa.Instruction) {
			call, isC := in.(*ssa.Call)
			if !isC {
				return
			}
			cal := call.Call.StaticCallee()
			if !producer(cal) {
				return
			}
			var val, errv *ssa.Extract
			for _, r := range refsOf(call) {
				if ex, isE := r.(*ssa.Extract); isE {
					if ex.Index == 0 {
						val = ex
					} else {
						errv = ex
					}
				}
			}
			base := fmt.Sprintf("%s: the value of %s is used only where its error is nil", c.FnName(c.inlineRoot(fn)), c.FnName(cal))
			seen[base]++
			con := base
			if seen[base] > 1 {
				con = fmt.Sprintf("%s #%d", base, seen[base])
			}
			pos := c.InstrPos(call)
			if val == nil {
				o := ok(R, con, pos, "the value is not used (or value and error are handed on as a pair)")
				o.Trivial = true
				obs = append(obs, o)
				return
			}
			if errv == nil {
				obs = append(obs, bad(R, con, pos, "the error result is never looked at, the value is used"))
				return
			}
			errNil := func(b *ssa.BasicBlock) bool {
				for _, g := range guardsAtDeep(b) {
					x, isEq, isT := nilTest(g.Cond)
					if !isT || isEq != g.Branch {
						continue
					}
					if x == ssa.Value(errv) {
						return true
					}
					// the error joined with that of the other converter (`if decimal { n, err = A() } else { n, err
					// = B() }`): the joined error is nil only if the one that was taken is
					if phi, isP := x.(*ssa.Phi); isP && isErrorType(phi.Type()) {
						for _, e := range phi.Edges {
							if e == ssa.Value(errv) {
								return true
							}
						}
					}
				}
				return false
			}
			var offending ssa.Instruction
			var walk func(v ssa.Value, depth int)
			visited := map[ssa.Value]bool{}
			walk = func(v ssa.Value, depth int) {
				if visited[v] || depth > 6 {
					return
				}
				visited[v] = true
				for _, r := range refsOf(v) {
					switch u := r.(type) {
					case *ssa.Return:
						// handed on together with the error
						pair := false
						for _, res := range u.Results {
							if resolveSpill(res, u) == ssa.Value(errv) || res == ssa.Value(errv) {
								pair = true
							}
							// … or joined with the error of the other converter (`if decimal { n, err = A() } else
							// { n, err = B() }; …; return n, err`): the error result is a phi one of whose edges it is
							if phi, isP := resolveSpill(res, u).(*ssa.Phi); isP && isErrorType(phi.Type()) {
								for _, e := range phi.Edges {
									if e == ssa.Value(errv) {
										pair = true
									}
								}
							}
						}
						if pair || errNil(u.Block()) {
							continue
						}
						if offending == nil {
							offending = u
						}
					case *ssa.Phi:
						// merged with other values: fine if it arrives only from where the error is nil
						safe := true
						for i, e := range u.Edges {
							if e != v || i >= len(u.Block().Preds) {
								continue
							}
							pred := u.Block().Preds[i]
							edgeOK := errNil(pred)
							if ifi, isIf := pred.Instrs[len(pred.Instrs)-1].(*ssa.If); isIf && !edgeOK {
								// the edge itself is the branch of the test
								if x, isEq, isT := nilTest(ifi.Cond); isT && x == ssa.Value(errv) {
									for k, sc := range pred.Succs {
										if sc == u.Block() && (k == 0) == isEq {
											edgeOK = true
										}
									}
								}
							}
							if !edgeOK {
								safe = false
							}
						}
						if !safe {
							walk(u, depth+1)
						}
					case *ssa.Store:
						// kept in a variable: its loads are uses
						if al, isA := u.Addr.(*ssa.Alloc); isA && u.Val == v {
							for _, rr := range *al.Referrers() {
								if ld, isL := rr.(*ssa.UnOp); isL && ld.X == ssa.Value(al) {
									walk(ld, depth+1)
								}
							}
							continue
						}
						if !errNil(u.Block()) && offending == nil {
							offending = u
						}
					case *ssa.DebugRef:
					default:
						if !errNil(r.Block()) && offending == nil {
							offending = r
						}
					}
				}
			}
			walk(val, 0)
			if offending == nil {
				obs = append(obs, ok(R, con, pos, "every use is on the branch where the error is nil, or hands value and error on together"))
			} else {
				obs = append(obs, bad(R, con, c.InstrPos(offending), "the value is used on a path where the error may be non-nil: what a failed parse or conversion leaves in the value (zero, a saturated magnitude) is taken for the number that was written"))
			}
		})
	}
	return obs
}

// ---------------------------------------------------------------- ERR.MERGEKEEP (hunt/h3/C01/finding1, the other direction)

func init() {
	register(&Rule{Name: "ERR.MERGEKEEP", Props: []string{"C04", "C06", "C07"}, Floor: 2,
		Doc: "the link function loses no recorded error: the errors of the merged entry itself, which is not kept, are taken over, and so are those of a child that is refused as a duplicate instead of being linked",
		Run: ruleErrMergeKeep})
}

func ruleErrMergeKeep(c *Ctx) []Obligation {
	const R = "ERR.MERGEKEEP"
	merge := c.mergeFn()
	entry := c.MustNamed("yang", "Entry")
	fDir, fErrs := FieldVar(entry, "Dir"), FieldVar(entry, "Errors")
	con1 := "merge: the errors of the merged entry itself are taken over by the target"
	con2 := "merge: the errors of a child that is not linked are taken over by the target"
	if merge == nil || fDir == nil || fErrs == nil {
		return []Obligation{undecided(R, con1, "-", "the link function / Entry.Dir / Entry.Errors not found")}
	}
	// functions that (transitively) add to Entry.Errors
	adds := func(fn *ssa.Function) bool {
		if fn == nil || !c.isRepoFn(fn) {
			return false
		}
		for f := range c.Reach([]*ssa.Function{fn}, nil) {
			if c.isRepoFn(f) && len(storesToField(f, fErrs)) > 0 {
				return true
			}
		}
		return false
	}
	var rng *ssa.Range
	var source ssa.Value
	c.eachInstrDeep(merge, func(in ssa.Instruction) {
		if r, isR := in.(*ssa.Range); isR && rng == nil {
			if _, f, base := loadedField(r.X); f == fDir && base != nil {
				rng, source = r, base
			}
		}
	})
	if rng == nil {
		return []Obligation{undecided(R, con1, c.Pos(merge.Pos()), "the link function ranges over no child map")}
	}
	var obs []Obligation
	// (1) source.Errors is read before the function can return, and what is read reaches an adder (or the source
	// itself is handed to a collector)
	var taken ssa.Instruction
	c.eachInstrDeep(merge, func(in ssa.Instruction) {
		if taken != nil {
			return
		}
		switch x := in.(type) {
		case *ssa.Call:
			if cal := x.Call.StaticCallee(); adds(cal) && cal != merge {
				for i, a := range x.Call.Args {
					if i > 0 && sameObject(resolveArg(a), resolveArg(source)) {
						taken = x // collector over the source
					}
					hit := false
					operandClosure(a, func(y ssa.Value) {
						if _, f, base := loadedField(y); f == fErrs && base != nil && sameObject(resolveArg(base), resolveArg(source)) {
							hit = true
						}
					})
					if hit {
						taken = x
					}
				}
			}
		case *ssa.Store:
			if _, f, _ := fieldOf(x.Addr); f == fErrs {
				hit := false
				operandClosure(x.Val, func(y ssa.Value) {
					if _, f2, base := loadedField(y); f2 == fErrs && base != nil && sameObject(resolveArg(base), resolveArg(source)) {
						hit = true
					}
				})
				if hit {
					taken = x
				}
			}
		}
	})
	switch {
	case taken == nil:
		obs = append(obs, bad(R, con1, c.Pos(merge.Pos()), "nothing reads the error list of the merged entry: what was recorded on a grouping, an augment or a submodule root (an unknown type directly under it, a bad statement) vanishes with the entry, and Process is clean"))
	default:
		// not under a condition other than loops over the list itself
		conditional := false
		for _, l := range liftAll(taken, merge, 0) {
			for _, g := range guardsAt(l.Block()) {
				if isLoopHeader(g.If.Block()) {
					continue
				}
				conditional = true
			}
		}
		if conditional {
			obs = append(obs, bad(R, con1, c.InstrPos(taken), "the errors of the merged entry are taken over only under a condition"))
		} else {
			obs = append(obs, ok(R, con1, c.InstrPos(taken), "read and added to the target unconditionally"))
		}
	}
	// (2) in the child loop, a branch that does not link the child collects its errors
	ups := c.mapUpdatesOnFieldDeep(merge, fDir)
	var linkBlocks []*ssa.BasicBlock
	for _, mu := range ups {
		for _, l := range liftAll(mu, rng.Parent(), 0) {
			linkBlocks = append(linkBlocks, l.Block())
		}
	}
	loop := loopHeaderOf(rng.Block())
	_ = loop
	checked := 0
	for _, b := range rng.Parent().Blocks {
		ifi, isIf := b.Instrs[len(b.Instrs)-1].(*ssa.If)
		if !isIf {
			continue
		}
		// an If inside the child loop one of whose branches leads to a link and the other does not (before the
		// next iteration)
		var hdr *ssa.BasicBlock
		for _, r := range refsOf(rng) {
			if nx, isN := r.(*ssa.Next); isN {
				hdr = nx.Block()
			}
		}
		if hdr == nil || !hdr.Dominates(b) || b == hdr {
			continue
		}
		avoid := map[*ssa.BasicBlock]bool{hdr: true}
		links := func(s *ssa.BasicBlock) bool {
			for _, lb := range linkBlocks {
				if s == lb || blockReaches(s, lb, avoid) {
					return true
				}
			}
			return false
		}
		l0, l1 := links(b.Succs[0]), links(b.Succs[1])
		if l0 == l1 {
			continue
		}
		skip := b.Succs[0]
		if l0 {
			skip = b.Succs[1]
		}
		checked++
		collected := false
		seen := map[*ssa.BasicBlock]bool{}
		stack := []*ssa.BasicBlock{skip}
		for len(stack) > 0 && !collected {
			x := stack[len(stack)-1]
			stack = stack[:len(stack)-1]
			if seen[x] || avoid[x] {
				continue
			}
			seen[x] = true
			for _, in := range x.Instrs {
				call, isC := in.(*ssa.Call)
				if !isC {
					continue
				}
				cal := call.Call.StaticCallee()
				if !adds(cal) || len(c.callsTo(cal, cal)) == 0 {
					continue
				}
				// a recursive collector handed the child (the range value or its copy)
				for _, a := range call.Call.Args {
					fromChild := false
					operandClosure(a, func(y ssa.Value) {
						if ex, isE := y.(*ssa.Extract); isE {
							if nx, isN := ex.Tuple.(*ssa.Next); isN && nx.Iter == ssa.Value(rng) {
								fromChild = true
							}
						}
					})
					if fromChild {
						collected = true
					}
				}
			}
			stack = append(stack, x.Succs...)
		}
		con := con2
		if checked > 1 {
			con = fmt.Sprintf("%s #%d", con2, checked)
		}
		if collected {
			obs = append(obs, ok(R, con, c.InstrPos(ifi), "the branch that refuses the child hands it to the error collector"))
		} else {
			obs = append(obs, bad(R, con, c.InstrPos(ifi), "the branch that refuses the child (a duplicate name) drops it with everything recorded on it: an unknown type inside the second of two colliding augments is never reported"))
		}
	}
	if checked == 0 {
		o := ok(R, con2, c.Pos(merge.Pos()), "every child is linked")
		obs = append(obs, o)
	}
	return obs
}

// ---------------------------------------------------------------- FILE.NAMEONLY (hunt/h3/C01/finding2)

func init() {
	register(&Rule{Name: "FILE.NAMEONLY", Props: []string{"C01", "C13"}, Floor: 1,
		Doc: "the argument of an import or include statement is never opened as a path: the resolver reads from disk only under a test that the name holds no path separator",
		Run: ruleFileNameOnly})
}

func ruleFileNameOnly(c *Ctx) []Obligation {
	const R = "FILE.NAMEONLY"
	fm := c.Fn("yang.(*Modules).FindModule")
	read := c.Fn("yang.(*Modules).Read")
	if fm == nil || read == nil {
		return []Obligation{undecided(R, "import resolver", "-", "FindModule / Read not found")}
	}
	var obs []Obligation
	n := 0
	for _, ci := range c.callsToDeep(fm, read) {
		n++
		con := fmt.Sprintf("FindModule: disk read #%d is reached only with a name that holds no path separator", n)
		site := ci.(ssa.Instruction)
		args := ci.Common().Args
		arg := args[len(args)-1]
		guarded := false
		for _, g := range guardsAtDeep(site.Block()) {
			tested := sepFreeText(c, g.Cond, g.Branch, nil, 0)
			if tested == nil {
				continue
			}
			// the tested text covers the name that is read: it is that value, or a concatenation that contains it
			if sameObject(tested, arg) {
				guarded = true
				continue
			}
			seenL := map[ssa.Value]bool{}
			var leaves func(x ssa.Value)
			leaves = func(x ssa.Value) {
				if x == nil || seenL[x] {
					return
				}
				seenL[x] = true
				if sameObject(x, arg) {
					guarded = true
				}
				switch y := x.(type) {
				case *ssa.Phi:
					for _, e := range y.Edges {
						leaves(e)
					}
				case *ssa.BinOp:
					if y.Op == token.ADD {
						leaves(y.X)
						leaves(y.Y)
					}
				}
			}
			leaves(tested)
		}
		if guarded {
			obs = append(obs, ok(R, con, c.InstrPos(site), "under a negative strings.Contains… test for '/' on the name (and revision date)"))
		} else {
			obs = append(obs, bad(R, con, c.InstrPos(site), "the name written in the import or include statement goes to Read as it is, and Read opens a name with a slash in it as a path: `import /dev/zero { prefix z; }` makes Process read the device until memory runs out, and any readable file can be named"))
		}
	}
	if n == 0 {
		o := ok(R, "FindModule: reads no file", c.Pos(fm.Pos()), "no call of Read")
		obs = append(obs, o)
	}
	return obs
}

// sepFreeText: if the condition having the given truth value implies that some text holds no '/', that text (as a
// value of the function the condition is evaluated in; a predicate helper's parameter is replaced by the argument).
func sepFreeText(c *Ctx, cond ssa.Value, branch bool, subst map[*ssa.Parameter]ssa.Value, depth int) ssa.Value {
	if depth > 4 {
		return nil
	}
	switch x := cond.(type) {
	case *ssa.UnOp:
		if x.Op == token.NOT {
			return sepFreeText(c, x.X, !branch, subst, depth+1)
		}
	case *ssa.Call:
		cal := x.Call.StaticCallee()
		if cal == nil {
			return nil
		}
		if cal.Pkg != nil && cal.Pkg.Pkg.Path() == "strings" && strings.HasPrefix(cal.Name(), "Contains") && len(x.Call.Args) == 2 {
			if branch {
				return nil
			}
			sep := false
			if s, isS := constString(x.Call.Args[1]); isS && strings.Contains(s, "/") {
				sep = true
			}
			if k, isK := constInt(x.Call.Args[1]); isK && k == '/' {
				sep = true
			}
			if !sep {
				return nil
			}
			t := x.Call.Args[0]
			if p, isP := t.(*ssa.Parameter); isP && subst[p] != nil {
				return subst[p]
			}
			return t
		}
		// a predicate of the repository: one return, whose value is evaluated with the arguments put in
		if c.isRepoFn(cal) && cal.Blocks != nil && cal.Signature.Results().Len() == 1 && isBoolType(cal.Signature.Results().At(0).Type()) {
			var rets []*ssa.Return
			eachInstr(cal, func(in ssa.Instruction) {
				if r, isR := in.(*ssa.Return); isR {
					rets = append(rets, r)
				}
			})
			if len(rets) != 1 {
				return nil
			}
			m := map[*ssa.Parameter]ssa.Value{}
			for i, p := range cal.Params {
				if i < len(x.Call.Args) {
					a := x.Call.Args[i]
					if ap, isP := a.(*ssa.Parameter); isP && subst[ap] != nil {
						a = subst[ap]
					}
					m[p] = a
				}
			}
			return sepFreeText(c, rets[0].Results[0], branch, m, depth+1)
		}
	}
	return nil
}

// ---------------------------------------------------------------- REC.DAGMEMO (hunt/h3/C01/finding3)

func init() {
	register(&Rule{Name: "REC.DAGMEMO", Props: []string{"C01", "C09"}, Floor: 1,
		Doc: "the recursive comparison of resolved types, whose union members are shared between types, remembers the pairs it has compared: it walks a graph, not the tree the graph unfolds to",
		Run: ruleRecDagMemo})
}

func ruleRecDagMemo(c *Ctx) []Obligation {
	const R = "REC.DAGMEMO"
	con := "the comparison of two resolved types visits each pair of (shared) union members once"
	eq := c.Fn("yang.(*YangType).Equal")
	yt := c.Named("yang", "YangType")
	if eq == nil || yt == nil {
		return []Obligation{undecided(R, con, "-", "(*YangType).Equal not found")}
	}
	isYT := func(t types.Type) bool {
		pt, ok := t.(*types.Pointer)
		return ok && namedOf(pt.Elem()) == yt
	}
	// the functions on a call cycle reachable from Equal that take two types
	reach := c.Reach([]*ssa.Function{eq}, nil)
	var workers []*ssa.Function
	for fn := range reach {
		if !c.isRepoFn(fn) || fn.Blocks == nil || len(fn.Params) < 2 || !isYT(fn.Params[0].Type()) || !isYT(fn.Params[1].Type()) {
			continue
		}
		if c.Reach([]*ssa.Function{fn}, nil)[fn] {
			// fn can reach itself?  Reach includes its roots, so test a real cycle through a callee
			cyc := false
			eachInstr(fn, func(in ssa.Instruction) {
				if ci, isC := in.(ssa.CallInstruction); isC {
					for _, cal := range c.Callees(ci) {
						if c.isRepoFn(cal) && (cal == fn || c.Reach([]*ssa.Function{cal}, nil)[fn]) {
							cyc = true
						}
					}
				}
			})
			if cyc {
				workers = append(workers, fn)
			}
		}
	}
	if len(workers) == 0 {
		return []Obligation{ok(R, con, c.Pos(eq.Pos()), "the comparison does not recurse")}
	}
	sort.Slice(workers, func(i, j int) bool { return workers[i].Pos() < workers[j].Pos() })
	var obs []Obligation
	for _, w := range workers {
		conw := con
		if len(workers) > 1 {
			conw = fmt.Sprintf("%s (%s)", con, c.FnName(w))
		}
		// a lookup keyed by both operands, with a return on a hit, before any recursive call; and an update of the
		// same map (here or in a deferred closure)
		var lk *ssa.Lookup
		eachInstr(w, func(in ssa.Instruction) {
			l, isL := in.(*ssa.Lookup)
			if !isL || lk != nil {
				return
			}
			if _, isMap := l.X.Type().Underlying().(*types.Map); !isMap {
				return
			}
			both := [2]bool{}
			operandClosure(l.Index, func(y ssa.Value) {
				for k := 0; k < 2; k++ {
					if isParamN(w, y, k) {
						both[k] = true
					}
				}
			})
			if both[0] && both[1] {
				lk = l
			}
		})
		if lk == nil {
			obs = append(obs, bad(R, conw, c.Pos(w.Pos()), "no table of compared pairs is consulted: union members are shared between the types built from them, so two equal, separately written families of unions of unions are compared along every path — the time doubles per level and a valid 10 kB module keeps Process busy for weeks"))
			continue
		}
		okAll := true
		eachInstr(w, func(in ssa.Instruction) {
			ci, isC := in.(ssa.CallInstruction)
			if !isC {
				return
			}
			if _, isDefer := in.(*ssa.Defer); isDefer {
				return
			}
			for _, cal := range c.Callees(ci) {
				if c.isRepoFn(cal) && (cal == w || c.Reach([]*ssa.Function{cal}, nil)[w]) && !dominates(lk, in) {
					okAll = false
				}
			}
		})
		stored := false
		for _, f := range append([]*ssa.Function{w}, w.AnonFuncs...) {
			eachInstr(f, func(in ssa.Instruction) {
				if mu, isMU := in.(*ssa.MapUpdate); isMU && sameObject(resolveArg(rootOf(mu.Map)), resolveArg(rootOf(lk.X))) {
					stored = true
				}
				if mu, isMU := in.(*ssa.MapUpdate); isMU && mu.Map.Type() == lk.X.Type() {
					stored = true
				}
			})
		}
		switch {
		case !okAll:
			obs = append(obs, bad(R, conw, c.InstrPos(lk), "a recursive call is reached without the table of compared pairs having been consulted"))
		case !stored:
			obs = append(obs, bad(R, conw, c.InstrPos(lk), "the table of compared pairs is consulted but never filled"))
		default:
			obs = append(obs, ok(R, conw, c.InstrPos(lk), "a table keyed by the pair of operands is consulted before every recursive call and filled with the outcome"))
		}
	}
	return obs
}

// ---------------------------------------------------------------- ERR.LOCSPLIT (hunt/h3/C05/finding3)

func init() {
	register(&Rule{Name: "ERR.LOCSPLIT", Props: []string{"C05", "C04"}, Floor: 1,
		Doc: "the error comparator takes source name, line and column from the position as Statement.Location prints it — a name may be empty or contain colons — not from the text between the first colons",
		Run: ruleErrLocSplit})
}

func ruleErrLocSplit(c *Ctx) []Obligation {
	const R = "ERR.LOCSPLIT"
	con := "the pieces the error comparator compares are source name, line and column for every form of position"
	less, scope := c.errorOrder()
	if less == nil {
		return []Obligation{undecided(R, con, "-", "sortedErrors.Less not found")}
	}
	// the pattern: a package-level *regexp.Regexp that the comparator (or what makes its keys) matches with
	var g *ssa.Global
	var at ssa.Instruction
	eachInstrOf(scope, func(in ssa.Instruction) {
		call, isC := in.(*ssa.Call)
		if !isC || g != nil {
			return
		}
		cal := call.Call.StaticCallee()
		if cal == nil || cal.Signature.Recv() == nil || !strings.Contains(cal.Signature.Recv().Type().String(), "regexp.Regexp") || !strings.Contains(cal.Name(), "Submatch") {
			return
		}
		if u, isU := call.Call.Args[0].(*ssa.UnOp); isU {
			if gl, isG := u.X.(*ssa.Global); isG {
				g, at = gl, in
			}
		}
	})
	// the match must be used for the number of pieces the comparator asks for: a condition on that number next to the
	// match is evaluated with the constant that is handed in
	if g != nil {
		if call, isC := at.(*ssa.Call); isC {
			hfn := call.Parent()
			for _, gd := range guardsAt(refsOfIf(call)) {
				_ = gd
			}
			eachInstr(hfn, func(in ssa.Instruction) {
				bo, isB := in.(*ssa.BinOp)
				if !isB {
					return
				}
				p, isP := bo.X.(*ssa.Parameter)
				k, isK := constInt(bo.Y)
				if !isP || !isK || !isIntType(p.Type()) {
					return
				}
				arg, isA := constInt(c.constAtSites(p))
				if !isA {
					return
				}
				holds := map[token.Token]bool{token.GEQ: arg >= k, token.GTR: arg > k, token.EQL: arg == k, token.LEQ: arg <= k, token.LSS: arg < k, token.NEQ: arg != k}[bo.Op]
				if !holds {
					g = nil // the branch that uses the match is dead for the count in use
				}
			})
		}
	}
	if g == nil {
		return []Obligation{bad(R, con, c.Pos(less.Pos()), "the text is only split at its first colons: with a source name that contains a colon (C:\\models\\m.yang, http://host/m.yang) the pieces are misaligned and the column is compared as text (33 before 9); a text parsed without a name is positioned `line L:C` and compared as one string (line 10 before line 4)")}
	}
	pattern := ""
	if initFn := c.SSA[modPath+"/pkg/yang"].Func("init"); initFn != nil {
		eachInstr(initFn, func(in ssa.Instruction) {
			call, isC := in.(*ssa.Call)
			if !isC || !(calleeIs(call, "regexp", "MustCompile") || calleeIs(call, "regexp", "Compile")) {
				return
			}
			for _, r := range *call.Referrers() {
				if st, isS := r.(*ssa.Store); isS && st.Addr == ssa.Value(g) {
					if s, isK := constString(call.Call.Args[0]); isK {
						pattern = s
					}
				}
			}
		})
	}
	if pattern == "" {
		return []Obligation{undecided(R, con, c.InstrPos(at), "the pattern matched with is not a constant compiled in the package initialiser")}
	}
	re, err := regexp.Compile(pattern)
	if err != nil {
		return []Obligation{bad(R, con, c.InstrPos(at), "the position pattern does not compile: "+err.Error())}
	}
	// what Statement.Location prints, and what must come out (the three leading groups that are not empty or the
	// name group being empty)
	for _, tc := range []struct {
		in, file, line, col string
		match               bool
	}{
		{"m.yang:3:5: unknown type", "m.yang", "3", "5", true},
		{`C:\models\m.yang:3:33: unknown type: a:b`, `C:\models\m.yang`, "3", "33", true},
		{"http://example.com/models/m.yang:12:7: x: y", "http://example.com/models/m.yang", "12", "7", true},
		{"line 12:3: unknown type", "", "12", "3", true},
		{"dir/a:b.yang:1:1: x", "dir/a:b.yang", "1", "1", true},
	} {
		m := re.FindStringSubmatch(tc.in)
		if m == nil {
			return []Obligation{bad(R, con, c.InstrPos(at), fmt.Sprintf("the position pattern %q does not recognise %q", pattern, tc.in))}
		}
		var got []string
		for _, x := range m[1:] {
			got = append(got, x)
		}
		// the name group may be absent (empty) for the nameless form
		for len(got) < 3 {
			got = append(got, "")
		}
		if len(got) > 3 {
			// drop empty optional groups in front of the numbers
			var nz []string
			for _, x := range got {
				if x != "" || len(nz) == 0 && tc.file == "" {
					nz = append(nz, x)
				}
			}
			if len(nz) >= 3 {
				got = nz
			}
		}
		if got[0] != tc.file || got[1] != tc.line || got[2] != tc.col {
			return []Obligation{bad(R, con, c.InstrPos(at), fmt.Sprintf("the position pattern %q takes %q apart as name %q, line %q, column %q", pattern, tc.in, got[0], got[1], got[2]))}
		}
	}
	return []Obligation{ok(R, con, c.InstrPos(at), fmt.Sprintf("the pattern %q takes name, line and column from names with colons, plain names and the nameless form alike", pattern))}
}

// ---------------------------------------------------------------- SCOPE.INCLUDEWALK (w10 observations C09/3, C13/O1)

func init() {
	register(&Rule{Name: "SCOPE.INCLUDEWALK", Props: []string{"C09", "C13"}, Floor: 2,
		Doc: "the search for a top-level typedef goes through the submodules a module includes and those they include in turn, from the local and from the imported lookup alike",
		Run: ruleScopeIncludeWalk})
}

func ruleScopeIncludeWalk(c *Ctx) []Obligation {
	const R = "SCOPE.INCLUDEWALK"
	find := c.Fn("yang.(*typeDictionary).find")
	modT := c.Named("yang", "Module")
	incT := c.Named("yang", "Include")
	if find == nil || modT == nil || incT == nil {
		return []Obligation{undecided(R, "typedef search", "-", "(*typeDictionary).find / Module / Include not found")}
	}
	fInclude, fLink := FieldVar(modT, "Include"), FieldVar(incT, "Module")
	// the functions that look typedefs up while walking an Include list, and whether the walk is transitive
	walkers := map[*ssa.Function]bool{}
	for _, fn := range c.Funcs {
		if !c.isRepoFn(fn) || len(c.callsTo(fn, find)) == 0 {
			continue
		}
		walks, transitive := false, false
		eachInstr(fn, func(in ssa.Instruction) {
			v, isV := in.(ssa.Value)
			if !isV {
				return
			}
			_, f, base := loadedField(v)
			if f != fInclude || base == nil {
				return
			}
			walks = true
			operandClosure(base, func(x ssa.Value) {
				if _, lf, _ := loadedField(x); lf == fLink {
					transitive = true
				}
			})
			for _, ci := range c.callsTo(fn, fn) {
				for _, a := range ci.Common().Args {
					if _, lf, _ := loadedField(a); lf == fLink {
						transitive = true
					}
				}
			}
		})
		if walks {
			walkers[fn] = transitive
		}
	}
	var obs []Obligation
	for _, entry := range []struct{ name, what string }{
		{"yang.(*Type).resolve", "a type name without a foreign prefix"},
		{"yang.(*typeDictionary).findExternal", "a type name with the prefix of an import"},
	} {
		fn := c.Fn(entry.name)
		con := fmt.Sprintf("%s is also looked for in the submodules of the module, transitively", entry.what)
		if fn == nil {
			obs = append(obs, undecided(R, con, "-", entry.name+" not found"))
			continue
		}
		// the walker this lookup uses: itself, or a function it calls directly
		var used []*ssa.Function
		if _, isW := walkers[fn]; isW {
			used = append(used, fn)
		}
		c.eachInstrDeep(fn, func(in ssa.Instruction) {
			if ci, isC := in.(ssa.CallInstruction); isC {
				if cal := ci.Common().StaticCallee(); cal != nil {
					if _, isW := walkers[cal]; isW && cal != fn {
						used = append(used, cal)
					}
				}
			}
		})
		switch {
		case len(used) == 0:
			obs = append(obs, bad(R, con, c.Pos(fn.Pos()), "the lookup walks no Include list: a typedef written in a submodule is unknown to the module"))
		default:
			all := true
			for _, w := range used {
				if !walkers[w] {
					all = false
				}
			}
			if all {
				obs = append(obs, ok(R, con, c.Pos(used[0].Pos()), "the Include lists of modules reached through an include link are walked too"))
			} else {
				obs = append(obs, bad(R, con, c.Pos(used[0].Pos()), "only the Include list of the module itself is walked: a typedef in a submodule that a submodule includes (m includes s1, s1 includes s2; RFC 6020 7.1.6) is an unknown type, while a grouping or identity in the same place resolves"))
			}
		}
	}
	return obs
}

// ---------------------------------------------------------------- POOL.RESET (seeded C02-w10-2, C16-w10-2)

func init() {
	register(&Rule{Name: "POOL.RESET", Props: []string{"C19", "C18", "C02", "C16"}, Floor: 1,
		Doc: "an object taken from a process-wide sync.Pool starts afresh: every field of it that is ever written while it is in use is written again when it is taken out or before it is put back",
		Run: rulePoolReset})
}

func rulePoolReset(c *Ctx) []Obligation {
	const R = "POOL.RESET"
	var obs []Obligation
	type getSite struct {
		fn   *ssa.Function
		call *ssa.Call
		obj  ssa.Value // the asserted object
		elem *types.Named
		pool string
	}
	var gets []getSite
	for _, fn := range c.Funcs {
		if !c.isRepoFn(fn) {
			continue
		}
		eachInstr(fn, func(in ssa.Instruction) {
			ta, isTA := in.(*ssa.TypeAssert)
			if !isTA {
				return
			}
			src := ta.X
			call, isC := src.(*ssa.Call)
			if !isC {
				return
			}
			cal := call.Call.StaticCallee()
			if cal == nil || cal.Signature.Recv() == nil || cal.Name() != "Get" || !strings.HasSuffix(cal.Signature.Recv().Type().String(), "sync.Pool") {
				return
			}
			pt, isP := ta.AssertedType.(*types.Pointer)
			if !isP || namedOf(pt.Elem()) == nil {
				return
			}
			var obj ssa.Value = ta
			if ta.CommaOk {
				for _, r := range refsOf(ta) {
					if ex, isE := r.(*ssa.Extract); isE && ex.Index == 0 {
						obj = ex
					}
				}
			}
			gets = append(gets, getSite{fn, call, obj, namedOf(pt.Elem()), AccessPath(call.Call.Args[0])})
		})
	}
	if len(gets) == 0 {
		o := ok(R, "no object of the library is recycled through a sync.Pool", "-", "no (*sync.Pool).Get in the repository")
		o.Trivial = true
		return []Obligation{o}
	}
	for _, g := range gets {
		st, isS := g.elem.Underlying().(*types.Struct)
		if !isS {
			continue
		}
		// the functions that put into the same pool, and the New function
		resetFns := map[*ssa.Function]bool{g.fn: true}
		newFns := map[*ssa.Function]bool{}
		for _, fn := range c.Funcs {
			eachInstr(fn, func(in ssa.Instruction) {
				switch x := in.(type) {
				case *ssa.Call:
					if cal := x.Call.StaticCallee(); cal != nil && cal.Signature.Recv() != nil && cal.Name() == "Put" && len(x.Call.Args) == 2 && AccessPath(x.Call.Args[0]) == g.pool {
						resetFns[fn] = true
					}
				case *ssa.Store:
					if _, f, base := fieldOf(x.Addr); f != nil && f.Name() == "New" && base != nil && AccessPath(base) == g.pool {
						if nf := funcValue(x.Val); nf != nil {
							newFns[nf] = true
						}
					}
				}
			})
		}
		wholesale := false
		for fn := range resetFns {
			eachInstr(fn, func(in ssa.Instruction) {
				if s, isSt := in.(*ssa.Store); isSt && namedOf(s.Val.Type()) == g.elem {
					wholesale = true // *obj = T{…}
				}
			})
		}
		for i := 0; i < st.NumFields(); i++ {
			f := st.Field(i)
			con := fmt.Sprintf("%s: field %s.%s of an object from pool %s starts afresh", c.FnName(g.fn), objName(g.elem.Obj()), f.Name(), shortPath(g.pool))
			written, reset := "", wholesale
			for _, fn := range c.Funcs {
				if !c.isRepoFn(fn) {
					continue
				}
				for _, s := range storesToField(fn, f) {
					switch {
					case resetFns[fn]:
						reset = true
					case newFns[fn]:
					default:
						if _, isAlloc := rootOf(s.Addr).(*ssa.Alloc); isAlloc {
							continue // a literal under construction elsewhere
						}
						if written == "" {
							written = c.InstrPos(s)
						}
					}
				}
			}
			switch {
			case written == "":
				o := ok(R, con, c.Pos(f.Pos()), "never written while the object is in use")
				o.Trivial = true
				obs = append(obs, o)
			case reset:
				obs = append(obs, ok(R, con, c.Pos(f.Pos()), "written again where the object is taken out of the pool or put back"))
			default:
				obs = append(obs, bad(R, con, c.InstrPos(g.call), fmt.Sprintf("the field is written while the object is in use (%s) and neither the function that takes the object out of the pool nor the one that puts it back writes it: the next user — another Parse, another module set, another goroutine — starts with what the last one left (error counts, cursor columns, mode flags)", written)))
			}
		}
	}
	return obs
}

// ---------------------------------------------------------------- FIND.SCHEMAID (w10 observation C07/O1)

func init() {
	register(&Rule{Name: "FIND.SCHEMAID", Props: []string{"C07", "C08", "C17"}, Floor: 2,
		Doc: "the augment and the deviation applier resolve their target as a schema node identifier: a '..' (or '.') step, which the general path lookup follows, makes the lookup fail instead of leading somewhere else",
		Run: ruleFindSchemaID})
}

func ruleFindSchemaID(c *Ctx) []Obligation {
	const R = "FIND.SCHEMAID"
	find := c.Fn("yang.(*Entry).Find")
	if find == nil {
		return []Obligation{undecided(R, "path lookup", "-", "(*Entry).Find not found")}
	}
	// does fn refuse a path with a ".." step: a comparison with the constant ".." one branch of which returns nil
	refuses := func(fn *ssa.Function) bool {
		okR := false
		eachInstr(fn, func(in ssa.Instruction) {
			bo, isB := in.(*ssa.BinOp)
			if !isB || bo.Op != token.EQL && bo.Op != token.NEQ {
				return
			}
			s1, is1 := constString(bo.X)
			s2, is2 := constString(bo.Y)
			if !(is1 && s1 == "..") && !(is2 && s2 == "..") {
				return
			}
			// the comparison must be reached whatever the step's other comparisons said: not only when the step
			// also equals something else (`step == "." && step == ".."` never holds)
			var stepV ssa.Value = bo.X
			if is1 {
				stepV = bo.Y
			}
			for _, g := range guardsAt(bo.Block()) {
				if gb, isGB := g.Cond.(*ssa.BinOp); isGB && gb.Op == token.EQL && g.Branch && gb != bo {
					if gb.X == stepV || gb.Y == stepV {
						return
					}
				}
			}
			// the step is one of all the steps: not of a list cut short at its end (`steps[:len(steps)-1]` leaves the
			// last step, the one that names the target, unlooked at)
			if ld, isL := stepV.(*ssa.UnOp); isL {
				if ia, isIA := ld.X.(*ssa.IndexAddr); isIA {
					short := false
					operandClosure(ia.X, func(y ssa.Value) {
						if sl, isS := y.(*ssa.Slice); isS && sl.High != nil {
							short = true
						}
					})
					if sl, isS := ia.X.(*ssa.Slice); isS && sl.High != nil {
						short = true
					}
					if short {
						return
					}
				}
			}
			// and its equal branch must lead to the nil return
			eqLeads := false
			for _, r := range refsOf(bo) {
				if ifi, isIf := r.(*ssa.If); isIf {
					eq := ifi.Block().Succs[0]
					if bo.Op == token.NEQ {
						eq = ifi.Block().Succs[1]
					}
					if rt := terminalReturn(eq); rt != nil && len(rt.Results) == 1 && isNilConst(resolveSpill(rt.Results[0], rt)) {
						eqLeads = true
					}
				}
			}
			if !eqLeads {
				return
			}
			// some return of nil is control dependent on it: reachable from this block, and not every return is
			for _, b := range fn.Blocks {
				r, isR := b.Instrs[len(b.Instrs)-1].(*ssa.Return)
				if !isR || len(r.Results) != 1 || !isNilConst(resolveSpill(r.Results[0], r)) {
					continue
				}
				if blockReaches(bo.Block(), b, nil) && !b.Dominates(bo.Block()) {
					okR = true
				}
			}
		})
		return okR
	}
	wrappers := c.lookupWrappers(find)
	var obs []Obligation
	for _, name := range []string{"yang.(*Entry).Augment", "yang.(*Entry).ApplyDeviate"} {
		fn := c.Fn(name)
		con := fmt.Sprintf("%s: the target is resolved as a schema node identifier (no '..' step is followed)", name)
		if fn == nil {
			obs = append(obs, undecided(R, con, "-", name+" not found"))
			continue
		}
		sites := c.callsToLookup(fn, find)
		if len(sites) == 0 {
			obs = append(obs, undecided(R, con, c.Pos(fn.Pos()), "no target lookup found"))
			continue
		}
		bad1 := ""
		for _, ci := range sites {
			cal := ci.Common().StaticCallee()
			if cal != nil && wrappers[cal] && refuses(cal) {
				continue
			}
			// or the applier tests the path itself before the lookup
			guarded := false
			for _, g := range guardsAtDeep(ci.(ssa.Instruction).Block()) {
				operandClosureDeep(g.Cond, func(x ssa.Value) {
					if s, isS := constString(x); isS && s == ".." {
						guarded = true
					}
				})
			}
			if !guarded {
				bad1 = c.InstrPos(ci.(ssa.Instruction))
			}
		}
		if bad1 == "" {
			obs = append(obs, ok(R, con, c.InstrPos(sites[0].(ssa.Instruction)), "the lookup goes through a function that answers nil for a path with such a step"))
		} else {
			obs = append(obs, bad(R, con, bad1, "the target path goes to the general path lookup, which follows '.' and '..': augment \"/t:top/..\" grafts its nodes at the root of module t, \"/t:top/../t:other\" into another container, and nothing is reported"))
		}
	}
	return obs
}

// ---------------------------------------------------------------- DEV.TYPEKIND (w10 observation C04/1)

func init() {
	register(&Rule{Name: "DEV.TYPEKIND", Props: []string{"C08", "C04"}, Floor: 1,
		Doc: "a deviation gives a type only to a leaf or leaf-list: the store of Entry.Type on the target is under a test of the target's kind",
		Run: ruleDevTypeKind})
}

func ruleDevTypeKind(c *Ctx) []Obligation {
	const R = "DEV.TYPEKIND"
	m, why := c.devModel()
	if m == nil {
		return []Obligation{undecided(R, "deviation applier model", "-", why)}
	}
	entry := c.MustNamed("yang", "Entry")
	fType, fKind := FieldVar(entry, "Type"), FieldVar(entry, "Kind")
	leafK, okL := int64(0), false
	if k, _ := c.YangPkg().Scope().Lookup("LeafEntry").(*types.Const); k != nil {
		_, err := fmt.Sscan(k.Val().ExactString(), &leafK)
		okL = err == nil
	}
	if fType == nil || fKind == nil || !okL {
		return []Obligation{undecided(R, "deviation applier model", "-", "Entry.Type / Entry.Kind / LeafEntry not found")}
	}
	var obs []Obligation
	n := 0
	for _, st := range c.storesToFieldDeep(m.fn, fType) {
		_, _, base := fieldOf(st.Addr)
		if base == nil || !sameObject(resolveArg(base), m.target) {
			continue
		}
		n++
		con := "ApplyDeviate: the target is given a type only if it is a leaf or leaf-list"
		if n > 1 {
			con = fmt.Sprintf("%s #%d", con, n)
		}
		// kindTest: the condition says (when it has the returned truth value) that the target is a leaf or leaf-list
		kindTest := func(cond ssa.Value) (leafWhen bool, is bool) {
			cond, br := stripNot(cond, true)
			switch x := cond.(type) {
			case *ssa.BinOp:
				if _, f, b := loadedField(x.X); f == fKind && b != nil && sameObject(resolveArg(b), m.target) {
					if k, isK := constInt(x.Y); isK && k == leafK {
						switch x.Op {
						case token.EQL:
							return br, true
						case token.NEQ:
							return !br, true
						}
					}
				}
			case *ssa.Call:
				if cal := x.Call.StaticCallee(); cal != nil && c.isRepoFn(cal) && len(x.Call.Args) > 0 && sameObject(resolveArg(x.Call.Args[0]), m.target) {
					readsKind := false
					eachInstr(cal, func(in ssa.Instruction) {
						if v, isV := in.(ssa.Value); isV {
							if _, f, _ := loadedField(v); f == fKind {
								readsKind = true
							}
						}
					})
					if readsKind && strings.Contains(strings.ToLower(cal.Name()), "leaf") {
						return br, true
					}
				}
			}
			return false, false
		}
		// from the first kind test that dominates the store, follow the "not a leaf" answers through the chain of
		// kind tests (`!IsLeaf() && !IsLeafList()` is two of them): where that ends, the store must be out of
		// reach for the rest of the iteration
		guarded := false
		sb := st.Block()
		avoid := map[*ssa.BasicBlock]bool{}
		for h := loopHeaderOf(sb); h != nil; h = loopHeaderOf(h.Idom()) {
			avoid[h] = true
			if h.Idom() == nil {
				break
			}
		}
		for _, b := range sb.Parent().Blocks {
			ifi, isIf := b.Instrs[len(b.Instrs)-1].(*ssa.If)
			if !isIf || !b.Dominates(sb) || guarded {
				continue
			}
			leafWhen, is := kindTest(ifi.Cond)
			if !is {
				continue
			}
			cur, lw := b, leafWhen
			for hops := 0; hops < 6; hops++ {
				nonLeaf := cur.Succs[1]
				if !lw {
					nonLeaf = cur.Succs[0]
				}
				if nif, isN := nonLeaf.Instrs[len(nonLeaf.Instrs)-1].(*ssa.If); isN {
					if lw2, is2 := kindTest(nif.Cond); is2 {
						cur, lw = nonLeaf, lw2
						continue
					}
				}
				if nonLeaf != sb && !blockReaches(nonLeaf, sb, avoid) && errorMadeFrom(nonLeaf, avoid) {
					guarded = true
				}
				break
			}
		}
		if guarded {
			obs = append(obs, ok(R, con, c.InstrPos(st), "the store is under a test that the target's kind is LeafEntry"))
		} else {
			obs = append(obs, bad(R, con, c.InstrPos(st), "the type of the deviate statement is copied to any target: deviate replace { type string; } on a container is accepted and leaves a directory entry with a Type — kind, child map and type no longer agree, and nothing is reported"))
		}
	}
	if n == 0 {
		o := ok(R, "ApplyDeviate: no type is given to a target", c.Pos(m.fn.Pos()), "no store of Entry.Type on the target")
		obs = append(obs, o)
	}
	return obs
}

// ---------------------------------------------------------------- LEX.QUEUE (seeded C02-w10-1)

func init() {
	register(&Rule{Name: "LEX.QUEUE", Props: []string{"C02", "C01"}, Floor: 3,
		Doc: "no token is dropped: the token queue is written with a non-blocking send and drained one token per state call, so a state function emits a bounded number of tokens — none inside a loop, none through a direct call of another state function — and that number is below the queue's capacity",
		Run: ruleLexQueue})
}

func ruleLexQueue(c *Ctx) []Obligation {
	const R = "LEX.QUEUE"
	m, why := c.lexModel()
	if m == nil {
		return []Obligation{undecided(R, "lexer model", "-", why)}
	}
	fItems := FieldVar(m.lexer, "items")
	if fItems == nil {
		return []Obligation{undecided(R, "token queue", "-", "lexer.items not found")}
	}
	// the senders: lexer functions that send on the queue; blocking ones need no bound
	senders := map[*ssa.Function]bool{}
	nonBlocking := false
	for _, fn := range c.Funcs {
		if !c.isRepoFn(fn) {
			continue
		}
		eachInstr(fn, func(in ssa.Instruction) {
			switch x := in.(type) {
			case *ssa.Send:
				if _, f, _ := loadedField(x.Chan); f == fItems {
					senders[fn] = true
				}
			case *ssa.Select:
				for _, st := range x.States {
					if _, f, _ := loadedField(st.Chan); f == fItems && st.Dir == types.SendOnly {
						senders[fn] = true
						if !x.Blocking {
							nonBlocking = true
						}
					}
				}
			}
		})
	}
	if len(senders) == 0 {
		return []Obligation{undecided(R, "token queue", "-", "no send on lexer.items found")}
	}
	if !nonBlocking {
		return []Obligation{ok(R, "the token queue is written with blocking sends", "-", "a full queue makes the lexer wait; nothing is dropped")}
	}
	// functions that (transitively, through non-state repo functions) emit
	emits := map[*ssa.Function]bool{}
	for s := range senders {
		emits[s] = true
	}
	isState := map[*ssa.Function]bool{}
	for _, s := range m.states {
		isState[s] = true
	}
	for changed := true; changed; {
		changed = false
		for _, fn := range c.Funcs {
			if emits[fn] || isState[fn] || !c.isRepoFn(fn) {
				continue
			}
			eachInstr(fn, func(in ssa.Instruction) {
				if ci, isC := in.(ssa.CallInstruction); isC {
					if cal := ci.Common().StaticCallee(); cal != nil && emits[cal] && !emits[fn] {
						emits[fn] = true
						changed = true
					}
				}
			})
		}
	}
	// the error reporter also emits (an error token), but it counts its calls and stops the lexer by clearing the
	// input when the count reaches the queue's capacity: its calls are bounded by that counter, wherever they sit
	fErrcnt := FieldVar(m.lexer, "errcnt")
	reporter := map[*ssa.Function]bool{}
	if fErrcnt != nil {
		for fn := range emits {
			for f := range c.Reach([]*ssa.Function{fn}, nil) {
				if c.isRepoFn(f) && len(storesToField(f, fErrcnt)) > 0 {
					reporter[fn] = true
				}
			}
		}
	}
	// the capacity of the queue: make(chan *token, K) stored into lexer.items
	var capK int64 = -1
	for _, fn := range c.Funcs {
		for _, st := range storesToField(fn, fItems) {
			if mk, isM := st.Val.(*ssa.MakeChan); isM {
				if k, isK := constInt(mk.Size); isK {
					capK = k
				}
			}
		}
	}
	var obs []Obligation
	// tokens a call of a state can emit before the queue is drained again: its own emitting calls plus those of the
	// states it calls directly (a state it *returns* runs after the drain); -1 = not bounded
	memo := map[*ssa.Function]int{}
	whyNot := map[*ssa.Function]string{}
	var count func(s *ssa.Function, stack map[*ssa.Function]bool) int
	count = func(s *ssa.Function, stack map[*ssa.Function]bool) int {
		if v, done := memo[s]; done {
			return v
		}
		if stack[s] {
			whyNot[s] = "calls itself directly, through other states"
			return -1
		}
		stack[s] = true
		defer delete(stack, s)
		n := 0
		unbounded := ""
		eachInstr(s, func(in ssa.Instruction) {
			ci, isC := in.(ssa.CallInstruction)
			if !isC || unbounded != "" {
				return
			}
			cal := ci.Common().StaticCallee()
			if cal == nil {
				return
			}
			if isState[cal] {
				k := count(cal, stack)
				switch {
				case k < 0:
					unbounded = "calls the state function " + c.FnName(cal) + " directly (" + c.InstrPos(in) + "), which " + whyNot[cal]
				case k > 0 && loopHeaderOf(in.Block()) != nil:
					unbounded = "calls the emitting state function " + c.FnName(cal) + " inside a loop (" + c.InstrPos(in) + ")"
				default:
					n += k
				}
				return
			}
			if !emits[cal] || reporter[cal] {
				return
			}
			n++
			if loopHeaderOf(in.Block()) != nil {
				unbounded = "emits inside a loop (" + c.InstrPos(in) + "): the number of tokens per call is not bounded"
			}
		})
		if unbounded != "" {
			whyNot[s] = unbounded
			memo[s] = -1
			return -1
		}
		memo[s] = n
		return n
	}
	for _, s := range m.states {
		con := fmt.Sprintf("%s: emits a bounded number of tokens per call, below the queue's capacity", c.FnName(s))
		n := count(s, map[*ssa.Function]bool{})
		switch {
		case n < 0:
			obs = append(obs, bad(R, con, c.Pos(s.Pos()), whyNot[s]+"; the send is non-blocking, so what does not fit into the queue is dropped silently — a well-formed text is rejected (\"missing closing brace\") or mis-parsed"))
		case capK >= 0 && int64(n) > capK:
			obs = append(obs, bad(R, con, c.Pos(s.Pos()), fmt.Sprintf("up to %d tokens before the queue is drained (its own emitting calls and those of the states it calls directly), queue capacity %d; the send is non-blocking, so the surplus is dropped silently", n, capK)))
		default:
			o := ok(R, con, c.Pos(s.Pos()), fmt.Sprintf("at most %d token(s) before the queue is drained, none emitted in a loop; capacity %d", n, capK))
			if n == 0 {
				o.Trivial = true
			}
			obs = append(obs, o)
		}
	}
	return obs
}

// ---------------------------------------------------------------- CACHE.COHERENT (w10 observation C13/O2)

func init() {
	register(&Rule{Name: "CACHE.COHERENT", Props: []string{"C18", "C13"}, Floor: 1,
		Doc: "whatever empties the entry cache also empties the record of which submodules the cached entries have merged in: the record describes the cached entries",
		Run: ruleCacheCoherent})
}

func ruleCacheCoherent(c *Ctx) []Obligation {
	const R = "CACHE.COHERENT"
	mods := c.MustNamed("yang", "Modules")
	fCache, fMerged := FieldVar(mods, "entryCache"), FieldVar(mods, "mergedSubmodule")
	if fCache == nil || fMerged == nil {
		return []Obligation{undecided(R, "entry cache", "-", "Modules.entryCache / Modules.mergedSubmodule not found")}
	}
	var obs []Obligation
	for _, fn := range c.Funcs {
		if !c.isRepoFn(fn) || fn.Parent() != nil || c.isConstructor(fn) {
			continue
		}
		clears := false
		for _, st := range storesToField(fn, fCache) {
			if _, isAl := rootOf(st.Addr).(*ssa.Alloc); isAl {
				continue
			}
			if _, isMake := st.Val.(*ssa.MakeMap); isMake {
				clears = true
			}
		}
		if !clears {
			continue
		}
		con := fmt.Sprintf("%s: emptying the entry cache also empties the merged-submodule record", c.FnName(fn))
		also := false
		for _, st := range c.storesToFieldDeep(fn, fMerged) {
			if _, isMake := st.Val.(*ssa.MakeMap); isMake {
				also = true
			}
		}
		if also {
			obs = append(obs, ok(R, con, c.Pos(fn.Pos()), "both tables are stored afresh"))
		} else {
			obs = append(obs, bad(R, con, c.Pos(fn.Pos()), "the entries are dropped and the record of what was merged into them is kept: the entries built next skip every include as already merged — ClearEntryCache followed by ToEntry returns a module without the nodes of its submodules"))
		}
	}
	if len(obs) == 0 {
		obs = append(obs, undecided(R, "entry cache", "-", "no function empties Modules.entryCache"))
	}
	return obs
}

// refsOfIf: the block of the instruction (helper for guard queries on a call's surroundings).
func refsOfIf(in ssa.Instruction) *ssa.BasicBlock { return in.Block() }

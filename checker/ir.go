package main

// ir.go: provenance slicing, return-shape helpers, small SSA pattern matchers.

import (
	"go/constant"
	"go/token"
	"go/types"
	"reflect"
	"strings"

	"golang.org/x/tools/go/ssa"
)

// backSlice walks the value-flow predecessors of v (operands through
// value-preserving or value-deriving instructions) and calls visit on each
// value; visit returns false to stop descending below that value.
func backSlice(v ssa.Value, visit func(ssa.Value) bool) {
	seen := map[ssa.Value]bool{}
	var walk func(ssa.Value)
	walk = func(x ssa.Value) {
		if x == nil || seen[x] {
			return
		}
		seen[x] = true
		if !visit(x) {
			return
		}
		switch y := x.(type) {
		case *ssa.Parameter:
			// a private helper's parameter is the argument at its only call site (inline.go)
			if h := exactHelper(y.Parent()); h != nil {
				for _, st := range h.sites {
					if idx := paramIndex(y.Parent(), y); idx >= 0 && idx < len(st.Common().Args) {
						walk(st.Common().Args[idx])
					}
				}
			}
		case *ssa.FreeVar:
			// a private closure's captured variable is the cell bound where the closure is made (inline.go)
			if r := resolveArg(y); r != ssa.Value(y) {
				walk(r)
			}
		case *ssa.Phi:
			for _, e := range y.Edges {
				walk(e)
			}
		case *ssa.UnOp:
			walk(y.X)
		case *ssa.FieldAddr:
			walk(y.X)
		case *ssa.Field:
			walk(y.X)
		case *ssa.IndexAddr:
			walk(y.X)
		case *ssa.Index:
			walk(y.X)
		case *ssa.Lookup:
			walk(y.X)
		case *ssa.Extract:
			if call, isC := y.Tuple.(*ssa.Call); isC {
				if cal := call.Call.StaticCallee(); cal != nil && exactHelper(cal) != nil {
					for _, b := range cal.Blocks {
						if r, isR := b.Instrs[len(b.Instrs)-1].(*ssa.Return); isR && b != cal.Recover && y.Index < len(r.Results) {
							walk(resolveSpill(r.Results[y.Index], r))
						}
					}
				}
			}
			walk(y.Tuple)
		case *ssa.Next:
			walk(y.Iter)
		case *ssa.Range:
			walk(y.X)
		case *ssa.TypeAssert:
			walk(y.X)
		case *ssa.MakeInterface:
			walk(y.X)
		case *ssa.ChangeInterface:
			walk(y.X)
		case *ssa.ChangeType:
			walk(y.X)
		case *ssa.Convert:
			walk(y.X)
		case *ssa.Slice:
			walk(y.X)
		case *ssa.Alloc:
			// local variable cell: follow the stores into it
			for _, r := range *y.Referrers() {
				if st, ok := r.(*ssa.Store); ok && st.Addr == y {
					walk(st.Val)
				}
				// array backing a variadic / composite slice: follow the element stores
				if ia, ok := r.(*ssa.IndexAddr); ok {
					for _, rr := range *ia.Referrers() {
						if st, ok := rr.(*ssa.Store); ok && st.Addr == ia {
							walk(st.Val)
						}
					}
				}
			}
		case *ssa.Call:
			// the single-result value of a private helper is what the helper returns (inline.go)
			if cal := y.Call.StaticCallee(); cal != nil && exactHelper(cal) != nil && cal.Signature.Results().Len() == 1 {
				for _, b := range cal.Blocks {
					if r, isR := b.Instrs[len(b.Instrs)-1].(*ssa.Return); isR && b != cal.Recover && len(r.Results) == 1 {
						walk(resolveSpill(r.Results[0], r))
					}
				}
				break
			}
			// reflect.Value chains: ValueOf/Elem/Field/Index/Interface derive from their receiver/argument
			if bi, ok := y.Call.Value.(*ssa.Builtin); ok && bi.Name() == "append" {
				for _, a := range y.Call.Args {
					walk(a)
				}
			} else if f := y.Call.StaticCallee(); f != nil && f.Pkg != nil && f.Pkg.Pkg.Path() == "reflect" {
				for _, a := range y.Call.Args {
					walk(a)
				}
			} else if y.Call.IsInvoke() && y.Call.Method.Name() == "ParentNode" {
				walk(y.Call.Value)
			} else if f != nil && f.Name() == "ParentNode" && len(y.Call.Args) > 0 {
				walk(y.Call.Args[0])
			}
		}
	}
	walk(v)
}

// derivesFrom reports whether some value in v's backward slice satisfies pred.
func derivesFrom(v ssa.Value, pred func(ssa.Value) bool) bool {
	found := false
	backSlice(v, func(x ssa.Value) bool {
		if found {
			return false
		}
		if pred(x) {
			found = true
			return false
		}
		return true
	})
	return found
}

// isFieldLoad reports whether v is a load/selection of the given field.
func isFieldRef(v ssa.Value, f *types.Var) bool {
	switch x := v.(type) {
	case *ssa.FieldAddr, *ssa.Field:
		_, ff, _ := fieldOf(x)
		return ff == f
	}
	return false
}

// terminalReturn follows unconditional jumps from b and returns the Return it ends in, if any.
func terminalReturn(b *ssa.BasicBlock) *ssa.Return {
	for i := 0; i < 16 && b != nil; i++ {
		if len(b.Instrs) == 0 {
			return nil
		}
		switch t := b.Instrs[len(b.Instrs)-1].(type) {
		case *ssa.Return:
			return t
		case *ssa.Jump:
			b = b.Succs[0]
		default:
			return nil
		}
	}
	return nil
}

func isErrorType(t types.Type) bool {
	if n, ok := t.(*types.Named); ok && n.Obj().Pkg() == nil && objName(n.Obj()) == "error" {
		return true
	}
	return false
}

func isErrorSlice(t types.Type) bool {
	s, ok := t.Underlying().(*types.Slice)
	return ok && isErrorType(s.Elem())
}

// retErrorOperand returns the operand of r that carries the error (error or []error typed result), or nil.
func retErrorOperand(r *ssa.Return) ssa.Value {
	sig := r.Parent().Signature
	for i := sig.Results().Len() - 1; i >= 0; i-- {
		t := sig.Results().At(i).Type()
		if isErrorType(t) || isErrorSlice(t) {
			if i < len(r.Results) {
				return r.Results[i]
			}
		}
	}
	return nil
}

// definitelyNonNilErr: v is the result of errors.New / fmt.Errorf / a MakeInterface of a concrete value /
// a repo call that never returns nil (not analysed: false).
func definitelyNonNilErr(v ssa.Value) bool { return definitelyNonNilErrDepth(v, 0) }

func definitelyNonNilErrDepth(v ssa.Value, depth int) bool {
	switch x := v.(type) {
	case *ssa.Call:
		if calleeIs(x, "errors", "New") || calleeIs(x, "fmt", "Errorf") {
			return true
		}
		// an error constructor of the repository: a function with the one result, every return of which hands back
		// an error that is definitely there
		if cal := x.Call.StaticCallee(); cal != nil && cal.Blocks != nil && depth < 3 && cal.Signature.Results().Len() == 1 && isErrorType(cal.Signature.Results().At(0).Type()) {
			n := 0
			for _, b := range cal.Blocks {
				rt, isR := b.Instrs[len(b.Instrs)-1].(*ssa.Return)
				if !isR {
					continue
				}
				n++
				if len(rt.Results) != 1 || !definitelyNonNilErrDepth(rt.Results[0], depth+1) {
					return false
				}
			}
			return n > 0
		}
	case *ssa.MakeInterface:
		return true
	case *ssa.Phi:
		if depth > 6 {
			return false
		}
		for _, e := range x.Edges {
			if !definitelyNonNilErrDepth(e, depth+1) {
				return false
			}
		}
		return len(x.Edges) > 0
	case *ssa.Slice:
		return true
	}
	return false
}

// returnsErrorOnBlock: following unconditional jumps from b we reach a Return whose error operand is definitely non-nil.
func returnsErrorOnBlock(b *ssa.BasicBlock) bool {
	r := terminalReturn(b)
	if r == nil {
		return false
	}
	e := retErrorOperand(r)
	if e == nil {
		return false
	}
	if isNilConst(e) {
		return false
	}
	// a non-const error operand on an error path: accept when it is definitely non-nil, or is an `err`
	// value that was tested != nil on the path (guard) – callers check the latter when needed.
	return definitelyNonNilErr(e) || knownNonNilByGuard(r, AccessPath(e))
}

// isSuccessReturn: the error operand is the nil constant.
func isSuccessReturn(r *ssa.Return) bool {
	e := retErrorOperand(r)
	return e != nil && isNilConst(e)
}

// structTag returns the value of key in the tag of field i of st.
func structTag(st *types.Struct, i int, key string) string {
	return reflect.StructTag(st.Tag(i)).Get(key)
}

// yangTag splits a yang struct tag into keyword and attributes.
func yangTag(tag string) (name string, attrs []string) {
	parts := strings.Split(tag, ",")
	return parts[0], parts[1:]
}

// constInt returns the integer value of a constant.
func constInt(v ssa.Value) (int64, bool) {
	k, ok := v.(*ssa.Const)
	if !ok || k.Value == nil || k.Value.Kind() != constant.Int {
		return 0, false
	}
	n, exact := constant.Int64Val(k.Value)
	return n, exact
}

func constUint(v ssa.Value) (uint64, bool) {
	k, ok := v.(*ssa.Const)
	if !ok || k.Value == nil || k.Value.Kind() != constant.Int {
		return 0, false
	}
	n, exact := constant.Uint64Val(k.Value)
	return n, exact
}

// callsIn lists call instructions in fn (including defers and go) whose static callee satisfies pred.
func callsIn(fn *ssa.Function, pred func(ssa.CallInstruction) bool) []ssa.CallInstruction {
	var out []ssa.CallInstruction
	eachInstr(fn, func(in ssa.Instruction) {
		if ci, ok := in.(ssa.CallInstruction); ok && pred(ci) {
			out = append(out, ci)
		}
	})
	return out
}

// callsTo lists the call sites in fn that may call target (static or via the call graph).
func (c *Ctx) callsTo(fn, target *ssa.Function) []ssa.CallInstruction {
	return callsIn(fn, func(ci ssa.CallInstruction) bool {
		for _, cal := range c.Callees(ci) {
			if cal == target {
				return true
			}
		}
		return false
	})
}

// methodCallName returns the method name for an invoke-mode (interface) call, else "".
func invokeName(ci ssa.CallInstruction) string {
	if ci.Common().IsInvoke() {
		return ci.Common().Method.Name()
	}
	return ""
}

// storesTo lists Store instructions in fn whose address is field f (of any base).
func storesToField(fn *ssa.Function, f *types.Var) []*ssa.Store {
	var out []*ssa.Store
	eachInstr(fn, func(in ssa.Instruction) {
		if st, ok := in.(*ssa.Store); ok {
			if _, ff, _ := fieldOf(st.Addr); ff == f && f != nil {
				out = append(out, st)
			}
		}
	})
	return out
}

// mapUpdatesOnField lists MapUpdate instructions whose map operand is loaded from field f.
func mapUpdatesOnField(fn *ssa.Function, f *types.Var) []*ssa.MapUpdate {
	var out []*ssa.MapUpdate
	eachInstr(fn, func(in ssa.Instruction) {
		if mu, ok := in.(*ssa.MapUpdate); ok {
			if _, ff, _ := loadedField(mu.Map); ff == f && f != nil {
				out = append(out, mu)
			}
		}
	})
	return out
}

// compares: cond is X op Y with op in ops; returns operands.
func binop(cond ssa.Value, ops ...token.Token) (*ssa.BinOp, bool) {
	b, ok := cond.(*ssa.BinOp)
	if !ok {
		return nil, false
	}
	for _, o := range ops {
		if b.Op == o {
			return b, true
		}
	}
	return nil, false
}

// stripNot removes leading logical negations, flipping branch.
func stripNot(cond ssa.Value, branch bool) (ssa.Value, bool) {
	for {
		u, ok := cond.(*ssa.UnOp)
		if !ok || u.Op != token.NOT {
			return cond, branch
		}
		cond = u.X
		branch = !branch
	}
}

// guardedByCall: at instruction `in`, some dominating branch condition is (a negation of) a call satisfying pred,
// taken with truth value `want`.
func guardedByCall(in ssa.Instruction, want bool, pred func(*ssa.Call) bool) bool {
	for _, g := range guardsAt(in.Block()) {
		cond, br := stripNot(g.Cond, g.Branch)
		if call, ok := cond.(*ssa.Call); ok && pred(call) && br == want {
			return true
		}
	}
	return false
}

// calleeName: the static callee's (or invoked method's) bare name, "" when dynamic.
func calleeName(ci ssa.CallInstruction) string {
	if f := ci.Common().StaticCallee(); f != nil {
		if a, isA := fnAlias[f]; isA {
			return a[strings.LastIndex(a, ".")+1:] // recorded name of a renamed function (anchors.go)
		}
		return f.Name()
	}
	return invokeName(ci)
}

// presenceOf recognises the forms of "the map has this key": m[k] for a bool-valued map, the comma-ok
// flag of v, ok := m[k], and m[k] != nil (or its first component) for reference-valued maps. It returns the
// lookup and whether the key is present when cond is TRUE.
func presenceOf(cond ssa.Value) (l *ssa.Lookup, presentOnTrue bool, isP bool) {
	flip := false
	for {
		u, isU := cond.(*ssa.UnOp)
		if !isU || u.Op != token.NOT {
			break
		}
		cond = u.X
		flip = !flip
	}
	asLookup := func(v ssa.Value) *ssa.Lookup {
		switch x := v.(type) {
		case *ssa.Lookup:
			if _, isM := x.X.Type().Underlying().(*types.Map); isM {
				return x
			}
		case *ssa.Extract:
			if lk, isL := x.Tuple.(*ssa.Lookup); isL && lk.CommaOk && x.Index == 0 {
				return lk
			}
		}
		return nil
	}
	switch x := cond.(type) {
	case *ssa.Lookup:
		if lk := asLookup(x); lk != nil && !lk.CommaOk {
			if b, isB := lk.Type().Underlying().(*types.Basic); isB && b.Kind() == types.Bool {
				return lk, !flip, true
			}
		}
	case *ssa.Extract:
		if lk, isL := x.Tuple.(*ssa.Lookup); isL && lk.CommaOk && x.Index == 1 {
			return lk, !flip, true
		}
	case *ssa.BinOp:
		if x.Op != token.EQL && x.Op != token.NEQ {
			return nil, false, false
		}
		var lk *ssa.Lookup
		if isNilConst(x.Y) {
			lk = asLookup(x.X)
		} else if isNilConst(x.X) {
			lk = asLookup(x.Y)
		}
		if lk != nil {
			return lk, (x.Op == token.NEQ) != flip, true
		}
	}
	return nil, false, false
}

// lookupWrappers: repo functions that are the path lookup with a precondition — same receiver and argument handed
// on, and every return is either nil or the result of the lookup (findSchemaNode: refuse some paths, else Find).
func (c *Ctx) lookupWrappers(find *ssa.Function) map[*ssa.Function]bool {
	out := map[*ssa.Function]bool{}
	for _, fn := range c.Funcs {
		if fn == find || !c.isRepoFn(fn) || fn.Blocks == nil || fn.Parent() != nil {
			continue
		}
		if !types.Identical(fn.Signature.Params(), find.Signature.Params()) || !types.Identical(fn.Signature.Results(), find.Signature.Results()) {
			continue
		}
		if fn.Signature.Recv() == nil || find.Signature.Recv() == nil || !types.Identical(fn.Signature.Recv().Type(), find.Signature.Recv().Type()) {
			continue
		}
		calls := c.callsTo(fn, find)
		if len(calls) == 0 {
			continue
		}
		okAll := true
		for _, ci := range calls {
			a := ci.Common().Args
			for i := range a {
				if !isParamN(fn, a[i], i) {
					okAll = false
				}
			}
		}
		eachInstr(fn, func(in ssa.Instruction) {
			r, isR := in.(*ssa.Return)
			if !isR || len(r.Results) != 1 {
				return
			}
			v := resolveSpill(r.Results[0], r)
			if isNilConst(v) {
				return
			}
			if call, isC := v.(*ssa.Call); isC && call.Call.StaticCallee() == find {
				return
			}
			okAll = false
		})
		if okAll {
			out[fn] = true
		}
	}
	return out
}

// callsToLookup: the calls of the path lookup in fn, directly or through a lookup wrapper.
func (c *Ctx) callsToLookup(fn, find *ssa.Function) []ssa.CallInstruction {
	out := c.callsTo(fn, find)
	for w := range c.lookupWrappers(find) {
		if w != fn {
			out = append(out, c.callsTo(fn, w)...)
		}
	}
	return out
}

// refinedTarget: a lookup result that is afterwards narrowed — `t := lookup(); if <not wanted> { t = nil }` — is the
// phi that joins the result with nil constants; the rules that reason about "the target" reason about that value.
func refinedTarget(v ssa.Value) ssa.Value {
	for round := 0; round < 3; round++ {
		var next ssa.Value
		for _, r := range refsOf(v) {
			phi, isPhi := r.(*ssa.Phi)
			if !isPhi {
				continue
			}
			okPhi := true
			for _, e := range phi.Edges {
				if e == v || isNilConst(e) {
					continue
				}
				okPhi = false
			}
			if okPhi {
				if next != nil && next != ssa.Value(phi) {
					return v // two different refinements: leave it
				}
				next = phi
			}
		}
		if next == nil {
			return v
		}
		v = next
	}
	return v
}

package main

// rules_indent.go: the structural clauses of C20 (pkg/indent).
//   INDENT.RET     what Write returns: len(argument) on success; on failure neither the raw count of
//                  the underlying writer (it includes prefix bytes) nor len(argument)
//   INDENT.STATE   the partial-line flag is read to decide the first prefix and is only written
//                  on paths where the argument is known to be non-empty
//   INDENT.NONNEG  every count returned by Write is provably >= 0 (sign analysis over the SSA)
//   INDENT.SIBLING the three renderers (String, Bytes, Write) agree on the shape of the rendering:
//                  split after "\n", drop the trailing empty element, join with the prefix
// The byte arithmetic of the short-write accounting itself is NOT decided (see DESIGN.md).

import (
	"fmt"
	"go/token"
	"go/types"

	"golang.org/x/tools/go/ssa"
)

func init() {
	register(&Rule{Name: "INDENT.RET", Props: []string{"C20"}, Floor: 2,
		Doc: "Write returns len(argument) with a nil error, and on failure neither the underlying writer's raw count nor len(argument)",
		Run: ruleIndentRet})
	register(&Rule{Name: "INDENT.STATE", Props: []string{"C20"}, Floor: 2,
		Doc: "the partial-line flag decides the first prefix and is only written when the argument is non-empty",
		Run: ruleIndentState})
	register(&Rule{Name: "INDENT.NONNEG", Props: []string{"C20"}, Floor: 2,
		Doc: "every count returned by Write is non-negative on every path (sign analysis)",
		Run: ruleIndentNonNeg})
	register(&Rule{Name: "INDENT.SIBLING", Props: []string{"C20"}, Floor: 3,
		Doc: "String, Bytes and Write agree on the rendering steps: split after the line break, drop the trailing empty element, join with the prefix",
		Run: ruleIndentSibling})
}

type indentModel struct {
	write, str, byt *ssa.Function
	iw              *types.Named
	fPartial, fW    *types.Var
	fPrefix         *types.Var
	buf             *ssa.Parameter
	under           *ssa.Call // the call of the underlying writer's Write
}

func (c *Ctx) indentModel() (*indentModel, string) {
	m := &indentModel{}
	// the writer type: the struct in pkg/indent with a bool field and an io.Writer field that has a Write method
	for _, fn := range c.Funcs {
		if fn.Pkg == nil || shortPkg(fn.Pkg.Pkg.Path()) != "indent" || fn.Name() != "Write" || fn.Signature.Recv() == nil {
			continue
		}
		m.write = fn
	}
	m.str, m.byt = c.Fn("indent.String"), c.Fn("indent.Bytes")
	if m.write == nil || m.str == nil || m.byt == nil {
		return nil, "indent.String / indent.Bytes / the writer's Write method not found"
	}
	m.iw = namedOf(m.write.Signature.Recv().Type())
	if m.iw == nil {
		return nil, "receiver of Write is not a named type"
	}
	st, _ := m.iw.Underlying().(*types.Struct)
	if st == nil {
		return nil, "writer is not a struct"
	}
	for i := 0; i < st.NumFields(); i++ {
		f := st.Field(i)
		switch t := f.Type().Underlying().(type) {
		case *types.Basic:
			if t.Kind() == types.Bool && m.fPartial == nil {
				m.fPartial = f
			}
		case *types.Interface:
			if m.fW == nil {
				m.fW = f
			}
		case *types.Slice:
			if m.fPrefix == nil {
				m.fPrefix = f
			}
		}
	}
	if m.fPartial == nil || m.fW == nil || m.fPrefix == nil {
		return nil, "writer struct lacks the (bool flag, io.Writer, prefix) fields"
	}
	if len(m.write.Params) < 2 {
		return nil, "Write has no buffer parameter"
	}
	m.buf = m.write.Params[1]
	eachInstr(m.write, func(in ssa.Instruction) {
		if call, isC := in.(*ssa.Call); isC && call.Call.IsInvoke() && call.Call.Method.Name() == "Write" {
			if _, f, _ := loadedField(call.Call.Value); f == m.fW {
				m.under = call
			}
		}
	})
	if m.under == nil {
		return nil, "Write does not call the underlying writer"
	}
	return m, ""
}

func isLenWhere(v ssa.Value, of func(ssa.Value) bool) bool {
	call, isC := v.(*ssa.Call)
	if !isC {
		return false
	}
	b, isB := call.Call.Value.(*ssa.Builtin)
	return isB && b.Name() == "len" && len(call.Call.Args) == 1 && of(call.Call.Args[0])
}

// nonEmptyGuard: at block b it is known that len(x) != 0 for some x satisfying of.
func nonEmptyGuard(b *ssa.BasicBlock, of func(ssa.Value) bool) bool {
	for _, g := range guardsAtDeep(b) {
		if isLoopHeader(g.If.Block()) {
			continue
		}
		bo, isB := g.Cond.(*ssa.BinOp)
		if !isB {
			continue
		}
		var k *ssa.Const
		op := bo.Op
		switch {
		case isLenWhere(bo.X, of):
			k, _ = bo.Y.(*ssa.Const)
		case isLenWhere(bo.Y, of):
			k, _ = bo.X.(*ssa.Const)
			op = map[token.Token]token.Token{token.LSS: token.GTR, token.LEQ: token.GEQ, token.GTR: token.LSS, token.GEQ: token.LEQ, token.EQL: token.EQL, token.NEQ: token.NEQ}[op]
		default:
			continue
		}
		if k == nil {
			continue
		}
		kv, isK := constInt(k)
		if !isK {
			continue
		}
		// len op kv, taken with g.Branch
		switch {
		case op == token.EQL && kv == 0 && !g.Branch,
			op == token.NEQ && kv == 0 && g.Branch,
			op == token.GTR && kv >= 0 && g.Branch,
			op == token.GEQ && kv >= 1 && g.Branch,
			op == token.LEQ && kv >= 0 && !g.Branch,
			op == token.LSS && kv >= 1 && !g.Branch:
			return true
		}
	}
	return false
}

func ruleIndentRet(c *Ctx) []Obligation {
	const R = "INDENT.RET"
	m, why := c.indentModel()
	if m == nil {
		return []Obligation{undecided(R, "indent writer model", "-", why)}
	}
	isBuf := func(v ssa.Value) bool { return isParamN(m.write, v, 1) }
	var obs []Obligation
	nS, nF := 0, 0
	for _, b := range m.write.Blocks {
		r, isR := b.Instrs[len(b.Instrs)-1].(*ssa.Return)
		if !isR || len(r.Results) != 2 {
			continue
		}
		n, errv := resolveSpill(r.Results[0], r), resolveSpill(r.Results[1], r)
		success := isNilConst(errv)
		if !success {
			// err == nil established by a dominating guard on the same error value?
			for _, g := range guardsAt(b) {
				if x, isEq, isT := nilTest(g.Cond); isT && x == errv && isEq == g.Branch {
					success = true
				}
			}
		}
		if success {
			nS++
			con := fmt.Sprintf("%s: successful return reports the full length of the argument", c.FnName(m.write))
			if nS > 1 {
				con = fmt.Sprintf("%s #%d", con, nS)
			}
			switch {
			case isLenWhere(n, isBuf):
				obs = append(obs, ok(R, con, c.InstrPos(r), "returns len(buf), nil"))
			case func() bool { k, isK := constInt(n); return isK && k == 0 && emptyGuard(b, isBuf) }():
				obs = append(obs, ok(R, con, c.InstrPos(r), "returns 0, nil under len(buf) == 0"))
			default:
				obs = append(obs, bad(R, con, c.InstrPos(r), "a nil error is returned with a count that is not len(argument): io.Writer callers treat n < len(p) with a nil error as a broken writer, and n > len(p) is never valid"))
			}
			continue
		}
		nF++
		con := fmt.Sprintf("%s: failing return counts the caller's bytes only", c.FnName(m.write))
		if nF > 1 {
			con = fmt.Sprintf("%s #%d", con, nF)
		}
		// the underlying writer's own count, possibly clamped or joined with constants on the way
		rawN := false
		{
			seenP := map[ssa.Value]bool{}
			onlyRaw, someRaw := true, false
			var leaves func(x ssa.Value)
			leaves = func(x ssa.Value) {
				if seenP[x] {
					return
				}
				seenP[x] = true
				switch y := x.(type) {
				case *ssa.Phi:
					for _, e := range y.Edges {
						leaves(e)
					}
				case *ssa.Const:
				case *ssa.Extract:
					if y.Tuple == ssa.Value(m.under) && y.Index == 0 {
						someRaw = true
					} else {
						onlyRaw = false
					}
				default:
					onlyRaw = false
				}
			}
			leaves(n)
			rawN = onlyRaw && someRaw
		}
		switch {
		case rawN:
			obs = append(obs, bad(R, con, c.InstrPos(r), "the count returned is the underlying writer's own count, which includes the prefix bytes the writer inserted: it can exceed len(argument)"))
		case isLenWhere(n, isBuf):
			obs = append(obs, bad(R, con, c.InstrPos(r), "len(argument) is returned together with an error although the underlying writer stopped short"))
		default:
			usesUnder := derivesThroughCalls(n, func(x ssa.Value) bool {
				ex, isE := x.(*ssa.Extract)
				return isE && ex.Tuple == ssa.Value(m.under) && ex.Index == 0
			})
			derivBarrier = m.under
			usesPrefix := derivesThroughCalls(n, func(x ssa.Value) bool { _, f, _ := loadedField(x); return f == m.fPrefix })
			derivBarrier = nil
			if usesUnder && usesPrefix {
				obs = append(obs, ok(R, con, c.InstrPos(r), "the count is computed from the underlying writer's count and the prefix length (the arithmetic itself is not decided here)"))
			} else if k, isK := constInt(n); isK && k == 0 {
				obs = append(obs, ok(R, con, c.InstrPos(r), "returns 0 with the error"))
			} else {
				obs = append(obs, bad(R, con, c.InstrPos(r), "the count returned with the error is not derived from both the underlying writer's count and the prefix length, so it cannot discount the prefix bytes"))
			}
		}
	}
	if nS == 0 {
		obs = append(obs, undecided(R, "successful return of Write", c.Pos(m.write.Pos()), "no return with a nil error found"))
	}
	return obs
}

// derivBarrier: a call whose arguments derivesThroughCalls does not descend into (the underlying writer's Write:
// its count says nothing about the prefix although the rendered text, its argument, contains it).
var derivBarrier ssa.Value

// derivesThroughCalls: like derivesFrom but also descends into the arguments of calls.
func derivesThroughCalls(v ssa.Value, pred func(ssa.Value) bool) bool {
	seen := map[ssa.Value]bool{}
	var walk func(ssa.Value, int) bool
	walk = func(x ssa.Value, d int) bool {
		if x == nil || seen[x] || d > 12 {
			return false
		}
		seen[x] = true
		if derivesFrom(x, pred) {
			return true
		}
		found := false
		backSlice(x, func(y ssa.Value) bool {
			if found {
				return false
			}
			switch z := y.(type) {
			case *ssa.Call:
				if ssa.Value(z) == derivBarrier {
					break // what was handed to this call does not flow back through its result
				}
				for _, a := range z.Call.Args {
					if walk(a, d+1) {
						found = true
					}
				}
			case *ssa.BinOp:
				if walk(z.X, d+1) || walk(z.Y, d+1) {
					found = true
				}
			}
			return true
		})
		return found
	}
	return walk(v, 0)
}

func emptyGuard(b *ssa.BasicBlock, of func(ssa.Value) bool) bool {
	for _, g := range guardsAtDeep(b) {
		bo, isB := g.Cond.(*ssa.BinOp)
		if !isB {
			continue
		}
		var k *ssa.Const
		op := bo.Op
		switch {
		case isLenWhere(bo.X, of):
			k, _ = bo.Y.(*ssa.Const)
		case isLenWhere(bo.Y, of):
			k, _ = bo.X.(*ssa.Const)
			op = map[token.Token]token.Token{token.LSS: token.GTR, token.LEQ: token.GEQ, token.GTR: token.LSS, token.GEQ: token.LEQ, token.EQL: token.EQL, token.NEQ: token.NEQ}[op]
		default:
			continue
		}
		if k == nil {
			continue
		}
		kv, isK := constInt(k)
		if !isK {
			continue
		}
		if !g.Branch {
			op = map[token.Token]token.Token{token.LSS: token.GEQ, token.LEQ: token.GTR, token.GTR: token.LEQ, token.GEQ: token.LSS, token.EQL: token.NEQ, token.NEQ: token.EQL}[op]
		}
		// len op kv holds; does it force len == 0 (len is never negative)?
		switch {
		case op == token.EQL && kv == 0, op == token.LEQ && kv == 0, op == token.LSS && kv == 1:
			return true
		}
	}
	return false
}

func ruleIndentState(c *Ctx) []Obligation {
	const R = "INDENT.STATE"
	m, why := c.indentModel()
	if m == nil {
		return []Obligation{undecided(R, "indent writer model", "-", why)}
	}
	var obs []Obligation
	// (a) the flag is read in a branch condition before the underlying write
	con := fmt.Sprintf("%s: whether the chunk starts with a prefix is decided by the partial-line flag", c.FnName(m.write))
	decided := false
	var at ssa.Instruction
	fns := append([]*ssa.Function{m.write}, c.helpersUnder(m.write)...)
	for _, fn := range fns {
		for _, b := range fn.Blocks {
			ifi, isIf := b.Instrs[len(b.Instrs)-1].(*ssa.If)
			if !isIf {
				continue
			}
			if derivesThroughCalls(ifi.Cond, func(x ssa.Value) bool { _, f, _ := loadedField(x); return f == m.fPartial }) {
				for _, l := range liftAll(ifi, m.write, 0) {
					if blockReaches(l.Block(), m.under.Block(), nil) {
						decided = true
						at = ifi
					}
				}
			}
		}
	}
	if decided {
		obs = append(obs, ok(R, con, c.InstrPos(at), "a branch on the flag precedes the underlying write"))
	} else {
		obs = append(obs, bad(R, con, c.Pos(m.write.Pos()), "no branch on the partial-line flag precedes the underlying write: the first line of a chunk gets (or lacks) its prefix regardless of how the previous chunk ended, so the output depends on the chunking"))
	}
	// (b) every store to the flag happens only when the argument is non-empty
	derivedFromBuf := func(v ssa.Value) bool {
		return derivesThroughCalls(v, func(x ssa.Value) bool { return isParamN(m.write, x, 1) })
	}
	n := 0
	for _, st := range c.storesToFieldDeep(m.write, m.fPartial) {
		n++
		con := fmt.Sprintf("%s: the partial-line flag is written only for a non-empty argument", c.FnName(m.write))
		if n > 1 {
			con = fmt.Sprintf("%s #%d", con, n)
		}
		if nonEmptyGuard(st.Block(), derivedFromBuf) {
			obs = append(obs, ok(R, con, c.InstrPos(st), "dominated by a test that the argument (or the text built from it) is not empty"))
		} else {
			obs = append(obs, bad(R, con, c.InstrPos(st), "the flag is rewritten on a path that an empty argument also takes: a zero-length Write at the start of a line marks the line as already prefixed (or the reverse), and the next line comes out without its prefix"))
		}
	}
	if n == 0 {
		obs = append(obs, bad(R, fmt.Sprintf("%s: the partial-line flag is maintained", c.FnName(m.write)), c.Pos(m.write.Pos()), "Write never updates the flag"))
	}
	return obs
}

// ---------------------------------------------------------------- sign analysis

type signProver struct {
	c      *Ctx
	assume map[ssa.Value]bool
	fnMemo map[*ssa.Function]int // 0 unknown, 1 proving (assume), 2 proved, 3 failed
	fields map[*types.Var]int    // same, for "every store into this unexported field is non-negative"
	why    string
}

func (p *signProver) guardNonNeg(v ssa.Value, b *ssa.BasicBlock, strict bool) bool {
	for _, g := range guardsAt(b) {
		bo, isB := g.Cond.(*ssa.BinOp)
		if !isB {
			continue
		}
		op := bo.Op
		var k *ssa.Const
		switch {
		case bo.X == v:
			k, _ = bo.Y.(*ssa.Const)
		case bo.Y == v:
			k, _ = bo.X.(*ssa.Const)
			op = map[token.Token]token.Token{token.LSS: token.GTR, token.LEQ: token.GEQ, token.GTR: token.LSS, token.GEQ: token.LEQ, token.EQL: token.EQL, token.NEQ: token.NEQ}[op]
		default:
			continue
		}
		if k == nil {
			continue
		}
		kv, isK := constInt(k)
		if !isK {
			continue
		}
		if !g.Branch {
			op = map[token.Token]token.Token{token.LSS: token.GEQ, token.LEQ: token.GTR, token.GTR: token.LEQ, token.GEQ: token.LSS, token.EQL: token.NEQ, token.NEQ: token.EQL}[op]
		}
		lo := int64(0)
		if strict {
			lo = 1
		}
		switch op {
		case token.GTR:
			if kv >= lo-1 {
				return true
			}
		case token.GEQ, token.EQL:
			if kv >= lo {
				return true
			}
		}
	}
	return false
}

// guardGeq: at block b it is known that x >= y.
func guardGeq(x, y ssa.Value, b *ssa.BasicBlock) bool {
	for _, g := range guardsAt(b) {
		bo, isB := g.Cond.(*ssa.BinOp)
		if !isB {
			continue
		}
		op := bo.Op
		switch {
		case sameExpr(bo.X, x) && sameExpr(bo.Y, y):
		case sameExpr(bo.X, y) && sameExpr(bo.Y, x):
			op = map[token.Token]token.Token{token.LSS: token.GTR, token.LEQ: token.GEQ, token.GTR: token.LSS, token.GEQ: token.LEQ, token.EQL: token.EQL, token.NEQ: token.NEQ}[op]
		default:
			continue
		}
		if !g.Branch {
			op = map[token.Token]token.Token{token.LSS: token.GEQ, token.LEQ: token.GTR, token.GTR: token.LEQ, token.GEQ: token.LSS, token.EQL: token.NEQ, token.NEQ: token.EQL}[op]
		}
		if op == token.GEQ || op == token.GTR || op == token.EQL {
			return true
		}
	}
	return false
}

func (p *signProver) nonNeg(v ssa.Value, at *ssa.BasicBlock, depth int) bool {
	if depth > 40 {
		p.why = "expression too deep"
		return false
	}
	if p.assume[v] {
		return true
	}
	if at != nil && p.guardNonNeg(v, at, false) {
		return true
	}
	switch x := v.(type) {
	case *ssa.Const:
		k, isK := constInt(x)
		if isK && k >= 0 {
			return true
		}
		p.why = "negative constant"
		return false
	case *ssa.Call:
		if b, isB := x.Call.Value.(*ssa.Builtin); isB && (b.Name() == "len" || b.Name() == "cap" || b.Name() == "copy") {
			return true
		}
		if b, isB := x.Call.Value.(*ssa.Builtin); isB && (b.Name() == "min" || b.Name() == "max") {
			all, any := true, false
			for _, a := range x.Call.Args {
				if p.nonNeg(a, at, depth+1) {
					any = true
				} else {
					all = false
				}
			}
			if b.Name() == "min" {
				return all
			}
			return any
		}
		if f := x.Call.StaticCallee(); f != nil && p.c.isRepoFn(f) && f.Blocks != nil {
			return p.fnNonNeg(f, 0, depth+1)
		}
		p.why = fmt.Sprintf("the result of %s has no known sign", calleeName(x))
		return false
	case *ssa.BinOp:
		switch x.Op {
		case token.ADD, token.MUL, token.QUO, token.REM, token.SHR, token.AND:
			if p.nonNeg(x.X, x.Block(), depth+1) && p.nonNeg(x.Y, x.Block(), depth+1) {
				return true
			}
			return false
		case token.SUB:
			if guardGeq(x.X, x.Y, x.Block()) {
				return true
			}
			p.why = fmt.Sprintf("the difference at %s is not under a test that orders its operands", p.c.InstrPos(x))
			return false
		}
	case *ssa.Phi:
		p.assume[x] = true
		for i, e := range x.Edges {
			if edgeNonNeg(e, x.Block().Preds[i], x.Block()) {
				continue // `if e < 0 { e = 0 }`: on the edge that skips the assignment e is not negative
			}
			if !p.nonNeg(e, x.Block().Preds[i], depth+1) {
				delete(p.assume, x)
				return false
			}
		}
		return true
	case *ssa.Convert:
		if bt, isB := x.X.Type().Underlying().(*types.Basic); isB && bt.Info()&types.IsUnsigned != 0 {
			// narrowing of an unsigned to int could wrap only above 2^63: out of scope here
			return true
		}
		return p.nonNeg(x.X, at, depth+1)
	case *ssa.Extract:
		// one of several results of a function of the repository: every return of it is looked at
		if call, isC := x.Tuple.(*ssa.Call); isC {
			if f := call.Call.StaticCallee(); f != nil && p.c.isRepoFn(f) && f.Blocks != nil && depth < 30 {
				return p.fnNonNeg(f, x.Index, depth+1)
			}
		}
		p.why = fmt.Sprintf("%s (a count handed back by another writer) has no known sign", exprFP(x, 2))
		return false
	case *ssa.UnOp:
		if x.Op == token.MUL {
			// an unexported integer field starts at zero and holds what the package stores in it: non-negative if
			// every store is (a field's own value may take part: assumed while its stores are looked at)
			if _, f, _ := fieldOf(x.X); f != nil && !f.Exported() && p.fields != nil && depth < 30 {
				switch p.fields[f] {
				case 1, 2:
					return true
				case 3:
					p.why = fmt.Sprintf(".%s has no known sign", f.Name())
					return false
				}
				p.fields[f] = 1
				okAll := true
				for _, fn := range p.c.Funcs {
					if !p.c.isRepoFn(fn) {
						continue
					}
					for _, st := range storesToField(fn, f) {
						if !p.nonNeg(st.Val, st.Block(), depth+1) {
							okAll = false
						}
					}
				}
				if okAll {
					p.fields[f] = 2
					return true
				}
				p.fields[f] = 3
				p.why = fmt.Sprintf(".%s has no known sign: %s", f.Name(), p.why)
				return false
			}
			// load of a spilled local: all stores
			if al, isA := x.X.(*ssa.Alloc); isA {
				okAll, n := true, 0
				for _, r := range refsOf(al) {
					if st, isS := r.(*ssa.Store); isS && st.Addr == ssa.Value(al) {
						n++
						if !p.nonNeg(st.Val, st.Block(), depth+1) {
							okAll = false
						}
					}
				}
				if n > 0 && okAll {
					return true
				}
			}
		}
	case *ssa.Parameter:
		// a private function's parameter is what its callers hand in: non-negative if it is at every call
		if f := x.Parent(); f != nil && p.c.isRepoFn(f) && !f.Object().Exported() && depth < 30 {
			if node := p.c.Graph().Nodes[f]; node != nil && len(node.In) > 0 {
				idx := paramIndex(f, x)
				okAll := idx >= 0
				for _, e := range node.In {
					if e.Site == nil || e.Site.Common().StaticCallee() != f || idx >= len(e.Site.Common().Args) {
						okAll = false
						break
					}
					if !p.nonNeg(e.Site.Common().Args[idx], e.Site.Block(), depth+1) {
						okAll = false
						break
					}
				}
				if okAll {
					return true
				}
				if p.why != "" {
					p.why = fmt.Sprintf("the parameter %s is not non-negative at every call: %s", x.Name(), p.why)
					return false
				}
			}
		}
		p.why = fmt.Sprintf("the parameter %s has no known sign", x.Name())
		return false
	}
	if p.why == "" {
		p.why = fmt.Sprintf("%s has no known sign", exprFP(v, 2))
	}
	return false
}

// fnNonNeg: result #idx of f is non-negative on every return.
func (p *signProver) fnNonNeg(f *ssa.Function, idx int, depth int) bool {
	if idx != 0 {
		// results other than the first are not memoised: looked at afresh (the depth bound ends a recursion)
		for _, b := range f.Blocks {
			r, isR := b.Instrs[len(b.Instrs)-1].(*ssa.Return)
			if !isR || idx >= len(r.Results) {
				continue
			}
			if !p.nonNeg(resolveSpill(r.Results[idx], r), b, depth+1) {
				if p.why != "" {
					p.why = fmt.Sprintf("%s returns at %s a value not shown non-negative: %s", p.c.FnName(f), p.c.InstrPos(r), p.why)
				}
				return false
			}
		}
		return true
	}
	switch p.fnMemo[f] {
	case 1, 2:
		return true
	case 3:
		return false
	}
	p.fnMemo[f] = 1
	for _, b := range f.Blocks {
		r, isR := b.Instrs[len(b.Instrs)-1].(*ssa.Return)
		if !isR || idx >= len(r.Results) {
			continue
		}
		v := resolveSpill(r.Results[idx], r)
		if !p.nonNeg(v, b, depth+1) {
			p.fnMemo[f] = 3
			if p.why != "" {
				p.why = fmt.Sprintf("%s returns at %s a value not shown non-negative: %s", p.c.FnName(f), p.c.InstrPos(r), p.why)
			}
			return false
		}
	}
	p.fnMemo[f] = 2
	return true
}

func ruleIndentNonNeg(c *Ctx) []Obligation {
	const R = "INDENT.NONNEG"
	m, why := c.indentModel()
	if m == nil {
		return []Obligation{undecided(R, "indent writer model", "-", why)}
	}
	var obs []Obligation
	n := 0
	for _, b := range m.write.Blocks {
		r, isR := b.Instrs[len(b.Instrs)-1].(*ssa.Return)
		if !isR || len(r.Results) != 2 {
			continue
		}
		n++
		con := fmt.Sprintf("%s: the count returned is never negative", c.FnName(m.write))
		if n > 1 {
			con = fmt.Sprintf("%s #%d", con, n)
		}
		p := &signProver{c: c, assume: map[ssa.Value]bool{}, fnMemo: map[*ssa.Function]int{}, fields: map[*types.Var]int{}}
		v := resolveSpill(r.Results[0], r)
		if p.nonNeg(v, b, 0) {
			obs = append(obs, ok(R, con, c.InstrPos(r), "sign analysis: constants, lengths, sums of non-negatives, values under a dominating > 0 / >= 0 test, loop variables by induction"))
		} else {
			obs = append(obs, bad(R, con, c.InstrPos(r), "the returned count can be negative: "+p.why))
		}
	}
	return obs
}

// ---------------------------------------------------------------- INDENT.SIBLING

type renderShape struct {
	split, dropTrailing, join, lead bool
	pos                             map[string]string
}

func (c *Ctx) renderShapeOf(fn *ssa.Function, isText, isPrefix func(ssa.Value) bool) renderShape {
	sh := renderShape{pos: map[string]string{}}
	var splitCall *ssa.Call
	eachInstr(fn, func(in ssa.Instruction) {
		call, isC := in.(*ssa.Call)
		if !isC {
			return
		}
		switch {
		case calleeIs(call, "strings", "SplitAfter") || calleeIs(call, "bytes", "SplitAfter"):
			if isText(call.Call.Args[0]) && isNewlineSep(call.Call.Args[1]) {
				sh.split = true
				splitCall = call
				sh.pos["split"] = c.InstrPos(in)
			}
		case calleeIs(call, "strings", "Join") || calleeIs(call, "bytes", "Join"):
			if derivesFrom(call.Call.Args[1], isPrefix) {
				sh.join = true
				sh.pos["join"] = c.InstrPos(in)
				// leading empty element: the joined slice derives from append(<1-element literal>, lines...)
				if derivesFrom(call.Call.Args[0], func(x ssa.Value) bool {
					ap, isA := x.(*ssa.Call)
					if !isA {
						return false
					}
					if b, isB := ap.Call.Value.(*ssa.Builtin); !isB || b.Name() != "append" {
						return false
					}
					sl, isS := ap.Call.Args[0].(*ssa.Slice)
					if !isS {
						return false
					}
					al, isAl := sl.X.(*ssa.Alloc)
					if !isAl {
						return false
					}
					at, isArr := al.Type().(*types.Pointer).Elem().Underlying().(*types.Array)
					return isArr && at.Len() == 1
				}) {
					sh.lead = true
				}
			}
		}
	})
	// a step may live in a helper that is handed the text (splitLines(b)): take the helper's steps as the caller's
	eachInstr(fn, func(in ssa.Instruction) {
		call, isC := in.(*ssa.Call)
		if !isC {
			return
		}
		g := call.Call.StaticCallee()
		if g == nil || g == fn || g.Blocks == nil || g.Pkg != fn.Pkg {
			return
		}
		for j, a := range call.Call.Args {
			if !isText(a) || j >= len(g.Params) {
				continue
			}
			jj := j
			// the prefix inside the helper: the same field, or the parameter that receives the caller's prefix
			subPrefix := func(v ssa.Value) bool {
				if isPrefix(v) {
					return true
				}
				for k, a2 := range call.Call.Args {
					if k < len(g.Params) && isParamN(g, v, k) && derivesFrom(a2, isPrefix) {
						return true
					}
				}
				return false
			}
			sub := c.renderShapeOf(g, func(v ssa.Value) bool { return isParamN(g, v, jj) }, subPrefix)
			if sub.split {
				sh.split = true
				sh.pos["split"] = sub.pos["split"]
			}
			if sub.dropTrailing {
				sh.dropTrailing = true
				sh.pos["drop"] = sub.pos["drop"]
			}
			if sub.join {
				sh.join = true
				sh.pos["join"] = sub.pos["join"]
			}
			if sub.lead {
				sh.lead = true
			}
		}
	})
	if splitCall != nil {
		// lines[:len(lines)-1] under len(lines[len(lines)-1]) == 0
		eachInstr(fn, func(in ssa.Instruction) {
			sl, isS := in.(*ssa.Slice)
			if !isS || sl.High == nil {
				return
			}
			if !derivesFrom(sl.X, func(x ssa.Value) bool { return x == ssa.Value(splitCall) }) {
				return
			}
			hi, isB := sl.High.(*ssa.BinOp)
			if !isB || hi.Op != token.SUB {
				return
			}
			if k, isK := constInt(hi.Y); !isK || k != 1 {
				return
			}
			if emptyGuard(sl.Block(), func(x ssa.Value) bool {
				return derivesFrom(x, func(y ssa.Value) bool { return y == ssa.Value(splitCall) })
			}) {
				sh.dropTrailing = true
				sh.pos["drop"] = c.InstrPos(in)
			}
		})
	}
	return sh
}

func isNewlineSep(v ssa.Value) bool {
	if s, isS := constString(v); isS {
		return s == "\n"
	}
	// []byte{'\n'}: slice of a one-element array holding 10
	sl, isS := v.(*ssa.Slice)
	if !isS {
		return false
	}
	al, isA := sl.X.(*ssa.Alloc)
	if !isA {
		return false
	}
	found := false
	for _, r := range refsOf(al) {
		if ia, isI := r.(*ssa.IndexAddr); isI {
			for _, rr := range refsOf(ia) {
				if st, isSt := rr.(*ssa.Store); isSt {
					if k, isK := constInt(st.Val); isK && k == 10 {
						found = true
					}
				}
			}
		}
	}
	return found
}

func ruleIndentSibling(c *Ctx) []Obligation {
	const R = "INDENT.SIBLING"
	m, why := c.indentModel()
	if m == nil {
		return []Obligation{undecided(R, "indent writer model", "-", why)}
	}
	type sib struct {
		name string
		fn   *ssa.Function
		sh   renderShape
	}
	param := func(fn *ssa.Function, i int) func(ssa.Value) bool {
		return func(v ssa.Value) bool { return isParamN(fn, v, i) }
	}
	sibs := []sib{
		{"String", m.str, c.renderShapeOf(m.str, param(m.str, 1), param(m.str, 0))},
		{"Bytes", m.byt, c.renderShapeOf(m.byt, param(m.byt, 1), param(m.byt, 0))},
		{"Write", m.write, c.renderShapeOf(m.write, param(m.write, 1), func(v ssa.Value) bool { _, f, _ := loadedField(v); return f == m.fPrefix })},
	}
	var obs []Obligation
	// the two one-shot renderers return their input unchanged exactly when the prefix or the text is EMPTY:
	// every early-return test compares a length with 0 (or a string with "")
	for _, sb := range sibs[:2] {
		con := fmt.Sprintf("%s returns its input unchanged only for an empty prefix or an empty text", c.FnName(sb.fn))
		nTests, wrong := 0, ""
		for _, b := range sb.fn.Blocks {
			ifi, isIf := b.Instrs[len(b.Instrs)-1].(*ssa.If)
			if !isIf {
				continue
			}
			// an If one of whose successors returns the text parameter itself
			early := false
			for _, su := range b.Succs {
				if r := terminalReturn(su); r != nil && len(r.Results) == 1 && isParamN(sb.fn, resolveSpill(r.Results[0], r), 1) {
					early = true
				}
			}
			if !early {
				continue
			}
			bo, isB := ifi.Cond.(*ssa.BinOp)
			if !isB {
				continue
			}
			nTests++
			okForm := false
			if bo.Op == token.EQL || bo.Op == token.NEQ {
				if k, isK := constInt(bo.Y); isK && k == 0 {
					if call, isC := bo.X.(*ssa.Call); isC {
						if bi, isBi := call.Call.Value.(*ssa.Builtin); isBi && bi.Name() == "len" {
							okForm = true
						}
					}
				}
				if sv, isS := constString(bo.Y); isS && sv == "" {
					okForm = true
				}
			}
			if !okForm {
				wrong = c.InstrPos(ifi)
			}
		}
		switch {
		case wrong != "":
			obs = append(obs, bad(R, con, wrong, "an early return of the unchanged input is taken under a test other than `is empty`: inputs of some non-zero length come back without their prefix"))
		case nTests > 0:
			obs = append(obs, ok(R, con, c.Pos(sb.fn.Pos()), fmt.Sprintf("%d emptiness test(s) guard the early return", nTests)))
		default:
			o := ok(R, con, c.Pos(sb.fn.Pos()), "no early return of the unchanged input")
			o.Trivial = true
			obs = append(obs, o)
		}
	}
	feats := []struct {
		key, what, broken string
		get               func(renderShape) bool
	}{
		{"split", "splits the text after each line break", "does not split its text after \"\\n\" like its siblings", func(s renderShape) bool { return s.split }},
		{"drop", "drops the empty element after a final line break", "keeps the empty element after a final line break: a prefix is added after the last line", func(s renderShape) bool { return s.dropTrailing }},
		{"join", "joins the lines with the prefix", "does not join the lines with the prefix like its siblings", func(s renderShape) bool { return s.join }},
		{"lead", "puts the prefix before the first line through a leading empty element", "has no leading empty element: the first line gets no prefix", func(s renderShape) bool { return s.lead }},
	}
	for _, f := range feats {
		n := 0
		for _, s := range sibs {
			if f.get(s.sh) {
				n++
			}
		}
		for _, s := range sibs {
			con := fmt.Sprintf("%s %s, as its siblings do", c.FnName(s.fn), f.what)
			switch {
			case f.get(s.sh):
				obs = append(obs, ok(R, con, c.Pos(s.fn.Pos()), fmt.Sprintf("%d of 3 renderers have this step", n)))
			case n == 0:
				o := ok(R, con, c.Pos(s.fn.Pos()), "no renderer is written this way: nothing to compare")
				o.Trivial = true
				obs = append(obs, o)
			default:
				obs = append(obs, bad(R, con, c.Pos(s.fn.Pos()), fmt.Sprintf("%s %s (%d of 3 renderers do)", c.FnName(s.fn), f.broken, n)))
			}
		}
	}
	return obs
}

// ---------------------------------------------------------------- INDENT.SHORT (from hunt/h2/C20)

func init() {
	register(&Rule{Name: "INDENT.SHORT", Props: []string{"C20"}, Floor: 2,
		Doc: "a short write is never taken for a complete one (the underlying count is compared with the length handed down also when no error came back), and on the failure path the partial-line state is recomputed from that count",
		Run: ruleIndentShort})
}

func ruleIndentShort(c *Ctx) []Obligation {
	const R = "INDENT.SHORT"
	m, why := c.indentModel()
	if m == nil {
		return []Obligation{undecided(R, "indent writer model", "-", why)}
	}
	var cnt, errv ssa.Value
	for _, r := range *m.under.Referrers() {
		if ex, isEx := r.(*ssa.Extract); isEx {
			if ex.Index == 0 {
				cnt = ex
			} else {
				errv = ex
			}
		}
	}
	var obs []Obligation
	// (a) the count is compared with the length of what was handed down on a path where the error is nil (or regardless
	// of the error)
	con := fmt.Sprintf("%s: a short count without an error is not reported as complete", c.FnName(m.write))
	arg := m.under.Call.Args[0]
	isLenOfArg := func(v ssa.Value) bool {
		call, isC := v.(*ssa.Call)
		if !isC || len(call.Call.Args) != 1 {
			return false
		}
		b, isB := call.Call.Value.(*ssa.Builtin)
		return isB && b.Name() == "len" && call.Call.Args[0] == arg
	}
	checked := false
	var at ssa.Instruction
	if cnt != nil {
		eachInstr(m.write, func(in ssa.Instruction) {
			bo, isB := in.(*ssa.BinOp)
			if !isB {
				return
			}
			switch bo.Op {
			case token.LSS, token.GEQ, token.NEQ, token.EQL, token.LEQ, token.GTR:
			default:
				return
			}
			if !(bo.X == cnt && isLenOfArg(bo.Y) || bo.Y == cnt && isLenOfArg(bo.X)) {
				return
			}
			// not only on the path where an error came back anyway
			onlyOnErr := false
			for _, g := range guardsAt(bo.Block()) {
				if x, isEq, okn := nilTest(g.Cond); okn && x == errv && isEq != g.Branch {
					onlyOnErr = true
				}
			}
			if !onlyOnErr {
				checked = true
				at = bo
			}
		})
	}
	if checked {
		obs = append(obs, ok(R, con, c.InstrPos(at), "the underlying count is compared with len(output) when the error is nil"))
	} else {
		obs = append(obs, bad(R, con, c.InstrPos(m.under), "the count of the underlying writer is looked at only when it also returned an error: a writer that accepts part of the output and returns a nil error makes Write report the whole argument as written"))
	}
	// (b) on the failure path the flag is stored again, from a value computed from the count
	con = fmt.Sprintf("%s: after a short write the partial-line state follows the bytes that got out", c.FnName(m.write))
	follows := false
	for _, st := range c.storesToFieldDeep(m.write, m.fPartial) {
		if !dominates(m.under, st) {
			continue
		}
		fromCount := false
		operandClosure(st.Val, func(x ssa.Value) {
			if x == cnt && cnt != nil {
				fromCount = true
			}
		})
		// the store may sit in a private helper that is handed the count and decides by it where to stop
		if st.Parent() != m.write {
			if h := exactHelper(st.Parent()); h != nil {
				for _, site := range h.sites {
					for _, a := range site.Common().Args {
						operandClosure(a, func(x ssa.Value) {
							if x == cnt && cnt != nil {
								fromCount = true
							}
						})
					}
				}
			}
		}
		if fromCount {
			follows = true
			at = st
		}
	}
	if follows {
		obs = append(obs, ok(R, con, c.InstrPos(at), "the flag is stored after the underlying write from a value computed from its count"))
	} else {
		obs = append(obs, bad(R, con, c.InstrPos(m.under), "the flag is set from the output that was intended and never corrected: after a short write the caller continues with the bytes that were not counted, and they come out without the indent of their line, or with an indent in the middle of a line"))
	}
	// (c) the number of indent bytes an earlier short write got out is consumed by this write: once it has been read,
	// every way out of Write passes a store of it (0, or the new remainder) — a stale value makes the next write
	// drop bytes of the caller's text
	iwT := namedOf(derefType(m.write.Signature.Recv().Type()))
	var fCut *types.Var
	if iwT != nil {
		fCut = FieldVar(iwT, "cut")
	}
	if fCut != nil {
		con = fmt.Sprintf("%s: the pending indent remainder is stored again on every way out once it was read", c.FnName(m.write))
		var read ssa.Instruction
		eachInstr(m.write, func(in ssa.Instruction) {
			if v, isV := in.(ssa.Value); isV && read == nil {
				if _, f, _ := loadedField(v); f == fCut {
					read = in
				}
			}
		})
		if read == nil {
			o := ok(R, con, c.Pos(m.write.Pos()), "Write does not read the remainder")
			o.Trivial = true
			obs = append(obs, o)
		} else {
			// blocks that store the field for certain: a store in Write itself, or a call of a private helper in
			// which a store lies on every path
			storing := map[*ssa.BasicBlock]bool{}
			for _, st := range c.storesToFieldDeep(m.write, fCut) {
				if st.Parent() == m.write {
					storing[st.Block()] = true
					continue
				}
				if onEveryPath(st) {
					for _, l := range liftAll(st, m.write, 0) {
						storing[l.Block()] = true
					}
				}
			}
			leak := ""
			for _, b := range m.write.Blocks {
				r, isR := b.Instrs[len(b.Instrs)-1].(*ssa.Return)
				if !isR || b == m.write.Recover || !read.Block().Dominates(b) {
					continue
				}
				if storing[read.Block()] && storeAfter(read, fCut) {
					continue
				}
				if storing[b] || !blockReaches(read.Block(), b, storing) {
					continue
				}
				leak = c.InstrPos(r)
			}
			if leak == "" {
				obs = append(obs, ok(R, con, c.InstrPos(read), "every return that follows the read is preceded by a store of the field on every path"))
			} else {
				obs = append(obs, bad(R, con, leak, "a return can be reached from the read of the remainder without any store of it: after two short writes in a row (the first stops inside an indent, the retry past it) the stale remainder makes the next Write cut bytes off the caller's text and still report them as written"))
			}
		}
	}
	return obs
}

// storeAfter: the block of `read` stores field f after the read.
func storeAfter(read ssa.Instruction, f *types.Var) bool {
	seen := false
	for _, in := range read.Block().Instrs {
		if in == read {
			seen = true
			continue
		}
		if st, isS := in.(*ssa.Store); isS && seen {
			if _, ff, _ := fieldOf(st.Addr); ff == f {
				return true
			}
		}
	}
	return false
}

// edgeNonNeg: the edge pred → join is taken only when e >= 0 (pred ends in a test of e against zero).
func edgeNonNeg(e ssa.Value, pred, join *ssa.BasicBlock) bool {
	if len(pred.Instrs) == 0 || len(pred.Succs) != 2 || pred.Succs[0] == pred.Succs[1] {
		return false
	}
	ifi, isIf := pred.Instrs[len(pred.Instrs)-1].(*ssa.If)
	if !isIf {
		return false
	}
	bo, isB := ifi.Cond.(*ssa.BinOp)
	if !isB || bo.X != e {
		return false
	}
	k, isK := constInt(bo.Y)
	if !isK || k != 0 {
		return false
	}
	onTrue := pred.Succs[0] == join
	switch bo.Op {
	case token.LSS:
		return !onTrue
	case token.GEQ:
		return onTrue
	}
	return false
}

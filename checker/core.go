package main

// core.go: loading of /repo (go/packages), SSA, call graph, and the small
// vocabulary of helpers every rule is written in: field identification,
// access paths, dominance and branch guards, callee resolution.

import (
	"fmt"
	"go/ast"
	"go/token"
	"go/types"
	"os"
	"path/filepath"
	"sort"
	"strings"

	"golang.org/x/tools/go/callgraph"
	"golang.org/x/tools/go/callgraph/cha"
	"golang.org/x/tools/go/callgraph/vta"
	"golang.org/x/tools/go/packages"
	"golang.org/x/tools/go/ssa"
	"golang.org/x/tools/go/ssa/ssautil"
)

const modPath = "github.com/openconfig/goyang"

// Config describes one build configuration under which the repo is analysed.
type Config struct {
	Name   string
	GOOS   string
	GOARCH string
	Tags   string
}

type ssaFunc = ssa.Function

// Ctx is the analysed program.
type Ctx struct {
	RepoDir   string
	Cfg       Config
	Pkgs      []*packages.Package
	Fset      *token.FileSet
	Prog      *ssa.Program
	alias     map[*types.Var]*aliasTarget
	aliasDone bool
	SSA       map[string]*ssa.Package // by import path
	Types     map[string]*types.Package
	PkgOf     map[string]*packages.Package
	helpers   map[*ssa.Function]*helperInfo // private helpers (inline.go)
	Funcs     []*ssa.Function               // all repo functions incl. anonymous ones, sorted by position
	CG        *callgraph.Graph
	CHA       *callgraph.Graph
	UseCHA    bool

	// caches
	fnByName   map[string]*ssa.Function
	astOfFn    map[*ssa.Function]ast.Node
	reachCache map[string]map[*ssa.Function]bool
	effects    map[*ssa.Function]*Effects
}

// brokenf aborts the run: nothing the checker would say can be believed.
func brokenf(format string, a ...interface{}) {
	fmt.Fprintf(os.Stderr, "BROKEN: "+format+"\n", a...)
	os.Exit(2)
}

// Load parses, type-checks and lowers the repository to SSA.
func Load(repo string, cfg Config, overlay map[string][]byte) *Ctx {
	env := []string{}
	for _, e := range os.Environ() {
		if strings.HasPrefix(e, "GOWORK=") || strings.HasPrefix(e, "GOFLAGS=") || strings.HasPrefix(e, "GOOS=") || strings.HasPrefix(e, "GOARCH=") {
			continue
		}
		env = append(env, e)
	}
	env = append(env, "GOFLAGS=-mod=mod", "GOPROXY=off", "GOSUMDB=off", "GOTOOLCHAIN=local", "GOWORK=off", "CGO_ENABLED=0")
	if cfg.GOOS != "" {
		env = append(env, "GOOS="+cfg.GOOS)
	}
	if cfg.GOARCH != "" {
		env = append(env, "GOARCH="+cfg.GOARCH)
	}
	pc := &packages.Config{
		Mode:    packages.LoadAllSyntax,
		Dir:     repo,
		Env:     env,
		Tests:   false,
		Overlay: overlay,
	}
	if cfg.Tags != "" {
		pc.BuildFlags = []string{"-tags=" + cfg.Tags}
	}
	pkgs, err := packages.Load(pc, "./...")
	if err != nil {
		brokenf("go/packages load failed: %v", err)
	}
	if len(pkgs) == 0 {
		brokenf("no packages loaded from %s", repo)
	}
	nerr := 0
	packages.Visit(pkgs, nil, func(p *packages.Package) {
		for _, e := range p.Errors {
			fmt.Fprintf(os.Stderr, "load error: %s: %v\n", p.PkgPath, e)
			nerr++
		}
	})
	if nerr > 0 {
		brokenf("%d package errors (type-check failures make every verdict meaningless)", nerr)
	}
	c := &Ctx{RepoDir: repo, Cfg: cfg, Pkgs: pkgs, Fset: pkgs[0].Fset,
		SSA: map[string]*ssa.Package{}, Types: map[string]*types.Package{}, PkgOf: map[string]*packages.Package{},
		fnByName: map[string]*ssa.Function{}, astOfFn: map[*ssa.Function]ast.Node{},
		reachCache: map[string]map[*ssa.Function]bool{}}
	prog, spkgs := ssautil.AllPackages(pkgs, ssa.InstantiateGenerics)
	prog.Build()
	c.Prog = prog
	for i, p := range pkgs {
		c.SSA[p.PkgPath] = spkgs[i]
		c.Types[p.PkgPath] = p.Types
		c.PkgOf[p.PkgPath] = p
	}
	for _, need := range []string{modPath, modPath + "/pkg/yang", modPath + "/pkg/indent", modPath + "/pkg/yangentry"} {
		if c.SSA[need] == nil {
			brokenf("package %s not loaded", need)
		}
	}
	all := ssautil.AllFunctions(prog)
	for fn := range all {
		if c.isRepoFn(fn) && fn.Blocks != nil {
			c.Funcs = append(c.Funcs, fn)
		}
	}
	sort.Slice(c.Funcs, func(i, j int) bool {
		pi, pj := c.Funcs[i].Pos(), c.Funcs[j].Pos()
		if pi != pj {
			return pi < pj
		}
		return c.Funcs[i].String() < c.Funcs[j].String()
	})
	curCtx = c
	c.buildHelperIndex()
	renamedAnchors = nil
	c.matchRenamedTypes()
	for _, fn := range c.Funcs {
		c.fnByName[c.FnName(fn)] = fn
	}
	c.matchRenamedAnchors()
	c.CHA = cha.CallGraph(prog)
	c.CG = vta.CallGraph(all, c.CHA)
	return c
}

func (c *Ctx) isRepoFn(fn *ssa.Function) bool {
	for fn.Parent() != nil {
		fn = fn.Parent()
	}
	if fn.Pkg == nil {
		// wrappers / thunks of repo methods: attribute by receiver type
		if fn.Synthetic != "" {
			return false
		}
		return false
	}
	return strings.HasPrefix(fn.Pkg.Pkg.Path(), modPath) && fn.Synthetic == ""
}

// Graph returns the call graph selected for this run.
func (c *Ctx) Graph() *callgraph.Graph {
	if c.UseCHA {
		return c.CHA
	}
	return c.CG
}

// FnName gives a stable, position-free name: "yang.(*Entry).merge", "yang.build$1".
func (c *Ctx) FnName(fn *ssa.Function) string {
	if fn == nil {
		return "<nil>"
	}
	if fn.Parent() != nil {
		// anonymous: parent name + $index
		return c.FnName(fn.Parent()) + strings.TrimPrefix(fn.Name(), fn.Parent().Name())
	}
	if a, isA := fnAlias[fn]; isA {
		return a // matched as the renamed form of a recorded function (anchors.go)
	}
	pk := ""
	if fn.Pkg != nil {
		pk = shortPkg(fn.Pkg.Pkg.Path())
	}
	if recv := fn.Signature.Recv(); recv != nil {
		return pk + ".(" + canonTypeNames(types.TypeString(recv.Type(), func(*types.Package) string { return "" })) + ")." + fn.Name()
	}
	return pk + "." + fn.Name()
}

func shortPkg(path string) string {
	switch path {
	case modPath:
		return "main"
	}
	return path[strings.LastIndex(path, "/")+1:]
}

// Fn looks a repo function up by FnName; nil if absent.
func (c *Ctx) Fn(name string) *ssa.Function { return c.fnByName[name] }

// MustFn is for exported API anchors named in the properties: absence breaks the run.
func (c *Ctx) MustFn(name string) *ssa.Function {
	fn := c.fnByName[name]
	if fn == nil {
		brokenf("anchor function %s not found (exported API renamed?)", name)
	}
	return fn
}

func (c *Ctx) Pos(p token.Pos) string {
	if !p.IsValid() {
		return "-"
	}
	pp := c.Fset.Position(p)
	rel, err := filepath.Rel(c.RepoDir, pp.Filename)
	if err != nil {
		rel = pp.Filename
	}
	return fmt.Sprintf("%s:%d:%d", rel, pp.Line, pp.Column)
}

// InstrPos returns the best available position for an instruction.
func (c *Ctx) InstrPos(in ssa.Instruction) string {
	if in == nil {
		return "-"
	}
	if p := in.Pos(); p.IsValid() {
		return c.Pos(p)
	}
	// fall back to nearest positioned instruction in the block, then the function
	b := in.Block()
	if b != nil {
		for _, x := range b.Instrs {
			if x.Pos().IsValid() {
				return c.Pos(x.Pos())
			}
		}
		return c.Pos(b.Parent().Pos())
	}
	return "-"
}

// ---------------------------------------------------------------- types

func (c *Ctx) YangPkg() *types.Package { return c.Types[modPath+"/pkg/yang"] }

// Named returns the named type pkg.name (pkg is the short package name).
func (c *Ctx) Named(pkg, name string) *types.Named {
	var tp *types.Package
	for path, p := range c.Types {
		if shortPkg(path) == pkg && strings.HasPrefix(path, modPath) {
			tp = p
		}
	}
	if tp == nil {
		return nil
	}
	o := tp.Scope().Lookup(name)
	if o == nil {
		for tn, old := range typeAlias {
			if old == name && tn.Pkg() == tp {
				o = tn // matched as the renamed form of a recorded type (anchors.go)
			}
		}
	}
	if o == nil {
		return nil
	}
	n, _ := o.Type().(*types.Named)
	return n
}

func (c *Ctx) MustNamed(pkg, name string) *types.Named {
	n := c.Named(pkg, name)
	if n == nil {
		brokenf("anchor type %s.%s not found", pkg, name)
	}
	return n
}

// FieldVar returns the field object of a struct type by name, nil if absent.
func FieldVar(n *types.Named, field string) *types.Var {
	if n == nil {
		return nil
	}
	st, ok := n.Underlying().(*types.Struct)
	if !ok {
		return nil
	}
	for i := 0; i < st.NumFields(); i++ {
		if st.Field(i).Name() == field {
			return st.Field(i)
		}
	}
	for i := 0; i < st.NumFields(); i++ {
		if a, isA := fieldAlias[st.Field(i)]; isA && a == field {
			return st.Field(i) // matched as the renamed form of a recorded field (anchors.go)
		}
	}
	return nil
}

// FieldByType finds the unique field of n whose type prints as typ (package
// qualifiers dropped). Used for unexported fields so that a rename does not
// disturb a rule. Falls back to nil when absent or ambiguous.
func FieldByType(n *types.Named, typ string) *types.Var {
	if n == nil {
		return nil
	}
	st, ok := n.Underlying().(*types.Struct)
	if !ok {
		return nil
	}
	var found *types.Var
	for i := 0; i < st.NumFields(); i++ {
		if typeStr(st.Field(i).Type()) == typ {
			if found != nil {
				return nil
			}
			found = st.Field(i)
		}
	}
	return found
}

func typeStr(t types.Type) string {
	return canonTypeNames(types.TypeString(t, func(p *types.Package) string {
		if strings.HasPrefix(p.Path(), modPath) {
			return ""
		}
		return p.Name()
	}))
}

// namedOf strips pointers and returns the named type, or nil.
func namedOf(t types.Type) *types.Named {
	for {
		switch x := t.(type) {
		case *types.Pointer:
			t = x.Elem()
			continue
		case *types.Named:
			return x
		case *types.Alias:
			t = types.Unalias(x)
			continue
		}
		return nil
	}
}

func isNamed(t types.Type, pkgSuffix, name string) bool {
	n := namedOf(t)
	if n == nil || objName(n.Obj()) != name {
		return false
	}
	if n.Obj().Pkg() == nil {
		return pkgSuffix == ""
	}
	return strings.HasSuffix(n.Obj().Pkg().Path(), pkgSuffix)
}

// ---------------------------------------------------------------- SSA vocabulary

// fieldOf identifies the struct field selected by a FieldAddr or Field value.
func fieldOf(v ssa.Value) (owner *types.Named, f *types.Var, base ssa.Value) {
	switch x := v.(type) {
	case *ssa.FieldAddr:
		pt, ok := x.X.Type().Underlying().(*types.Pointer)
		if !ok {
			return nil, nil, nil
		}
		st, ok := pt.Elem().Underlying().(*types.Struct)
		if !ok {
			return nil, nil, nil
		}
		return namedOf(pt.Elem()), st.Field(x.Field), x.X
	case *ssa.Field:
		st, ok := x.X.Type().Underlying().(*types.Struct)
		if !ok {
			return nil, nil, nil
		}
		return namedOf(x.X.Type()), st.Field(x.Field), x.X
	}
	return nil, nil, nil
}

// fieldKey is "Type.Field".
func fieldKey(owner *types.Named, f *types.Var) string {
	if f == nil {
		return ""
	}
	if owner == nil {
		return "?." + recordedFieldName(f)
	}
	return objName(owner.Obj()) + "." + recordedFieldName(f)
}

// loadedField: if v is a load (*addr) of a struct field (or a Field extraction), report it.
func loadedField(v ssa.Value) (owner *types.Named, f *types.Var, base ssa.Value) {
	switch x := v.(type) {
	case *ssa.UnOp:
		if x.Op == token.MUL {
			owner, f, base = fieldOf(x.X)
		}
	case *ssa.Field:
		owner, f, base = fieldOf(x)
	}
	// a field that only ever holds a copy of the reference kept in another field (a helper structure made with
	// `filer{dict: d.dict}`) stands for that field
	if f != nil && curCtx != nil {
		if tgt := curCtx.aliasFields()[f]; tgt != nil {
			return tgt.owner, tgt.field, base
		}
	}
	return owner, f, base
}

type aliasTarget struct {
	owner *types.Named
	field *types.Var
}

// aliasFields: unexported map- or pointer-typed fields of unexported repository structures every store into which is a
// load of one and the same other field (of the same type).
func (c *Ctx) aliasFields() map[*types.Var]*aliasTarget {
	if c.aliasDone {
		return c.alias
	}
	c.aliasDone = true
	c.alias = map[*types.Var]*aliasTarget{}
	cand := map[*types.Var]*aliasTarget{}
	dead := map[*types.Var]bool{}
	for _, fn := range c.Funcs {
		if !c.isRepoFn(fn) {
			continue
		}
		eachInstr(fn, func(in ssa.Instruction) {
			st, isS := in.(*ssa.Store)
			if !isS {
				return
			}
			owner, f, _ := fieldOf(st.Addr)
			if f == nil || owner == nil || f.Exported() || owner.Obj().Exported() {
				return
			}
			if _, isMap := f.Type().Underlying().(*types.Map); !isMap {
				return
			}
			var so *types.Named
			var sf *types.Var
			switch x := st.Val.(type) {
			case *ssa.UnOp:
				if x.Op == token.MUL {
					so, sf, _ = fieldOf(x.X)
				}
			}
			if sf == nil || sf == f || !types.Identical(sf.Type(), f.Type()) {
				dead[f] = true
				return
			}
			if old := cand[f]; old != nil && old.field != sf {
				dead[f] = true
				return
			}
			cand[f] = &aliasTarget{so, sf}
		})
	}
	for f, t := range cand {
		if !dead[f] {
			c.alias[f] = t
		}
	}
	return c.alias
}

// AccessPath renders the chain root.f1.f2 for a value or address, following
// loads, field selections, and single-operand value-preserving ops.
// go/ssa performs no CSE, so two reads of e.RPC.Input are different values with
// the same access path; guards and uses are matched by this string.
func AccessPath(v ssa.Value) string {
	var parts []string
	for depth := 0; depth < 32; depth++ {
		switch x := v.(type) {
		case *ssa.UnOp:
			if x.Op == token.MUL {
				v = x.X
				continue
			}
		case *ssa.FieldAddr:
			_, f, base := fieldOf(x)
			if f != nil {
				parts = append(parts, recordedFieldName(f))
				v = base
				continue
			}
		case *ssa.Field:
			_, f, base := fieldOf(x)
			if f != nil {
				parts = append(parts, recordedFieldName(f))
				v = base
				continue
			}
		case *ssa.ChangeType:
			v = x.X
			continue
		case *ssa.MakeInterface:
			v = x.X
			continue
		}
		break
	}
	root := valueID(v)
	for i := len(parts) - 1; i >= 0; i-- {
		root += "." + parts[i]
	}
	return root
}

// rootOf strips the same operations as AccessPath and returns the root value.
func rootOf(v ssa.Value) ssa.Value {
	for depth := 0; depth < 32; depth++ {
		switch x := v.(type) {
		case *ssa.UnOp:
			if x.Op == token.MUL {
				v = x.X
				continue
			}
		case *ssa.FieldAddr:
			v = x.X
			continue
		case *ssa.Field:
			v = x.X
			continue
		case *ssa.IndexAddr:
			v = x.X
			continue
		case *ssa.ChangeType:
			v = x.X
			continue
		case *ssa.MakeInterface:
			v = x.X
			continue
		}
		break
	}
	if a, isA := v.(*ssa.Alloc); isA {
		if p := spilledParam(a); p != nil {
			return p
		}
	}
	return v
}

func valueID(v ssa.Value) string {
	switch x := v.(type) {
	case *ssa.Parameter:
		return "param:" + x.Name()
	case *ssa.FreeVar:
		// a private closure's captured variable is the cell of the function that makes it (inline.go)
		if r := resolveArg(x); r != ssa.Value(x) {
			return valueID(r)
		}
		return "free:" + x.Name()
	case *ssa.Global:
		return "global:" + x.Name()
	case *ssa.Const:
		if x.Value == nil {
			return "const:nil"
		}
		return "const:" + x.Value.ExactString()
	case *ssa.Alloc:
		// the cell a parameter was spilled into (it is captured by a closure or a defer) names the parameter
		if p := spilledParam(x); p != nil {
			return "param:" + p.Name()
		}
		if x.Comment != "" {
			return "alloc:" + x.Comment + "@" + x.Name()
		}
		return "alloc:" + x.Name()
	}
	return v.Name()
}

// spilledParam: the parameter whose only home the cell is — exactly one store into it, of a parameter of its function.
func spilledParam(a *ssa.Alloc) *ssa.Parameter {
	var p *ssa.Parameter
	n := 0
	if a.Referrers() == nil {
		return nil
	}
	for _, r := range *a.Referrers() {
		if st, ok := r.(*ssa.Store); ok && st.Addr == ssa.Value(a) {
			n++
			p, _ = st.Val.(*ssa.Parameter)
		}
	}
	if n == 1 && p != nil && p.Parent() == a.Parent() {
		return p
	}
	return nil
}

// staticCallee returns the statically known callee of a call instruction.
func staticCallee(in ssa.Instruction) *ssa.Function {
	ci, ok := in.(ssa.CallInstruction)
	if !ok {
		return nil
	}
	return ci.Common().StaticCallee()
}

// calleeIs reports whether in is a static call to the function/method with the
// given package path suffix and name, e.g. ("sort", "Strings"), ("sync", "Lock").
func calleeIs(in ssa.Instruction, pkgSuffix, name string) bool {
	f := staticCallee(in)
	if f == nil {
		return false
	}
	if f.Name() != name {
		return false
	}
	if f.Pkg == nil {
		// method of instantiated/external type
		if recv := f.Signature.Recv(); recv != nil {
			n := namedOf(recv.Type())
			return n != nil && n.Obj().Pkg() != nil && strings.HasSuffix(n.Obj().Pkg().Path(), pkgSuffix)
		}
		return false
	}
	return strings.HasSuffix(f.Pkg.Pkg.Path(), pkgSuffix)
}

// Callees returns the possible callees of a call site under the selected graph.
func (c *Ctx) Callees(site ssa.CallInstruction) []*ssa.Function {
	if f := site.Common().StaticCallee(); f != nil {
		return []*ssa.Function{f}
	}
	node := c.Graph().Nodes[site.Parent()]
	var out []*ssa.Function
	if node == nil {
		return nil
	}
	for _, e := range node.Out {
		if e.Site == site {
			out = append(out, e.Callee.Func)
		}
	}
	return out
}

// eachInstr visits every instruction of fn.
func eachInstr(fn *ssa.Function, f func(ssa.Instruction)) {
	for _, b := range fn.Blocks {
		for _, in := range b.Instrs {
			f(in)
		}
	}
}

// instrIndex returns the index of in within its block.
func instrIndex(in ssa.Instruction) int {
	for i, x := range in.Block().Instrs {
		if x == in {
			return i
		}
	}
	return -1
}

// dominates reports whether a executes before b on every path reaching b.
func dominates(a, b ssa.Instruction) bool {
	if a.Parent() != b.Parent() {
		// across the call site(s) of a private helper (inline.go)
		if lbs := liftAll(b, a.Parent(), 0); len(lbs) > 0 {
			for _, lb := range lbs {
				if !(a == lb || dominates(a, lb)) {
					return false
				}
			}
			return true
		}
		if las := liftAll(a, b.Parent(), 0); len(las) > 0 {
			// a happens on every path through its helper(s), and some call of the helper comes before b
			for x := a; x.Parent() != b.Parent(); {
				h := exactHelper(x.Parent())
				if h == nil {
					return false
				}
				// when the caller tests the helper's error and leaves with it, only the ways out of the helper
				// that carry no error continue towards b
				if !onEveryPath(x) && !(errorPropagated(h.site) && onEverySuccessPath(x)) {
					return false
				}
				x = h.site
			}
			for _, la := range las {
				if dominates(la, b) {
					return true
				}
			}
			return false
		}
		return false
	}
	if a.Block() == b.Block() {
		return instrIndex(a) < instrIndex(b)
	}
	return a.Block().Dominates(b.Block())
}

// reaches reports whether there is a CFG path from the point just after a to b.
func reaches(a, b ssa.Instruction) bool {
	if a.Block() == b.Block() && instrIndex(a) < instrIndex(b) {
		return true
	}
	seen := map[*ssa.BasicBlock]bool{}
	var stack []*ssa.BasicBlock
	stack = append(stack, a.Block().Succs...)
	for len(stack) > 0 {
		x := stack[len(stack)-1]
		stack = stack[:len(stack)-1]
		if seen[x] {
			continue
		}
		seen[x] = true
		if x == b.Block() {
			return true
		}
		stack = append(stack, x.Succs...)
	}
	return false
}

// blockReaches reports whether there is a path (of ≥0 edges) from block a to block b avoiding blocks in `avoid`.
func blockReaches(a, b *ssa.BasicBlock, avoid map[*ssa.BasicBlock]bool) bool {
	seen := map[*ssa.BasicBlock]bool{}
	stack := []*ssa.BasicBlock{a}
	for len(stack) > 0 {
		x := stack[len(stack)-1]
		stack = stack[:len(stack)-1]
		if seen[x] || avoid[x] {
			continue
		}
		seen[x] = true
		if x == b {
			return true
		}
		stack = append(stack, x.Succs...)
	}
	return false
}

// Guard is one branch condition known to hold at a program point.
type Guard struct {
	Cond   ssa.Value
	Branch bool // the condition's truth value on the path
	If     *ssa.If
}

// guardsAt returns the branch conditions that hold whenever control reaches block b:
// for every If whose successor edge dominates b.
func guardsAt(b *ssa.BasicBlock) []Guard {
	var out []Guard
	for d := b; d != nil; d = d.Idom() {
		id := d.Idom()
		if id == nil {
			break
		}
		// find If instrs in dominators whose successor s dominates b with s having idom == that block and single pred
		_ = id
	}
	// walk all dominators (including non-immediate)
	for d := b.Idom(); d != nil; d = d.Idom() {
		if len(d.Instrs) == 0 {
			continue
		}
		ifi, ok := d.Instrs[len(d.Instrs)-1].(*ssa.If)
		if !ok {
			continue
		}
		for si, s := range d.Succs {
			if d.Succs[0] == d.Succs[1] {
				continue
			}
			if edgeDominates(d, s, b) {
				out = append(out, Guard{Cond: ifi.Cond, Branch: si == 0, If: ifi})
				out = append(out, expandPhiGuard(ifi.Cond, si == 0, ifi, 0)...)
			}
		}
	}
	return refineShortCircuit(out)
}

// refineShortCircuit: `A && B` is known false and A is known true (another guard in the list tests the same thing
// with that outcome) ⇒ B is false; `A || B` known true and A known false ⇒ B true. This is what a tagless switch
// gives: `case neg && v > max: … case neg: <here v <= max>`.
func refineShortCircuit(gs []Guard) []Guard {
	known := func(v ssa.Value, want bool) bool {
		v, want = stripNot(v, want)
		k := condKey(v, 0)
		if k == "" {
			return false
		}
		for _, g := range gs {
			gv, gb := stripNot(g.Cond, g.Branch)
			if gb == want && condKey(gv, 0) == k {
				return true
			}
		}
		return false
	}
	for round := 0; round < 3; round++ {
		added := false
		for _, g := range gs {
			cond, br := stripNot(g.Cond, g.Branch)
			phi, isPhi := cond.(*ssa.Phi)
			if !isPhi {
				continue
			}
			var konst string
			switch {
			case phi.Comment == "&&" && !br:
				konst = "false"
			case phi.Comment == "||" && br:
				konst = "true"
			default:
				continue
			}
			// edges carrying the short-circuit constant come from blocks that end in `if A`; the other edge carries B
			var rest ssa.Value
			allKnown := true
			for i, e := range phi.Edges {
				if k, isK := e.(*ssa.Const); isK && k.Value != nil && k.Value.String() == konst {
					pred := phi.Block().Preds[i]
					ifi, isIf := pred.Instrs[len(pred.Instrs)-1].(*ssa.If)
					if !isIf || !known(ifi.Cond, konst == "false") {
						allKnown = false
					}
					continue
				}
				if rest != nil {
					allKnown = false
				}
				rest = e
			}
			if !allKnown || rest == nil {
				continue
			}
			ng := Guard{Cond: rest, Branch: konst == "true", If: g.If}
			dup := false
			for _, x := range gs {
				if x.Cond == ng.Cond && x.Branch == ng.Branch {
					dup = true
				}
			}
			if !dup {
				gs = append(gs, ng)
				added = true
			}
		}
		if !added {
			break
		}
	}
	return gs
}

// guardsAtDeep: guardsAt plus, inside a private helper, what holds at its only call site (inline.go). Opt-in:
// rules that ask "is this under any condition at all" must not inherit the caller's conditions.
func guardsAtDeep(b *ssa.BasicBlock) []Guard {
	out := guardsAt(b)
	if h := exactHelper(b.Parent()); h != nil && len(h.sites) == 1 {
		out = append(out, guardsAtDeep(h.site.Block())...)
	}
	return out
}

// expandPhiGuard: a materialised short-circuit `t = phi [.: false, P: c] #&&` taken true means c was true and
// control passed through P (so P's own dominating guards hold as well); dually for || taken false.
func expandPhiGuard(cond ssa.Value, branch bool, ifi *ssa.If, depth int) []Guard {
	if depth > 4 {
		return nil
	}
	for {
		u, ok := cond.(*ssa.UnOp)
		if !ok || u.Op != token.NOT {
			break
		}
		cond, branch = u.X, !branch
	}
	phi, ok := cond.(*ssa.Phi)
	if !ok {
		return nil
	}
	var konst string
	switch {
	case phi.Comment == "&&" && branch:
		konst = "false"
	case phi.Comment == "||" && !branch:
		konst = "true"
	default:
		return nil
	}
	idx := -1
	for i, e := range phi.Edges {
		if k, ok := e.(*ssa.Const); ok && k.Value != nil && k.Value.String() == konst {
			continue
		}
		if idx >= 0 {
			return nil
		}
		idx = i
	}
	if idx < 0 {
		return nil
	}
	out := []Guard{{Cond: phi.Edges[idx], Branch: branch, If: ifi}}
	out = append(out, expandPhiGuard(phi.Edges[idx], branch, ifi, depth+1)...)
	pred := phi.Block().Preds[idx]
	out = append(out, guardsAt(pred)...)
	// the edge into pred itself
	for _, pp := range pred.Preds {
		if len(pred.Preds) == 1 && len(pp.Instrs) > 0 {
			if pif, ok := pp.Instrs[len(pp.Instrs)-1].(*ssa.If); ok && pp.Succs[0] != pp.Succs[1] {
				out = append(out, Guard{Cond: pif.Cond, Branch: pp.Succs[0] == pred, If: pif})
			}
		}
	}
	return out
}

// edgeDominates: every path from entry to b passes through edge d->s.
// Holds when s dominates b and every predecessor of s other than d is itself dominated by s (loop back edges).
func edgeDominates(d, s, b *ssa.BasicBlock) bool {
	if !s.Dominates(b) {
		return false
	}
	for _, p := range s.Preds {
		if p == d {
			continue
		}
		if !s.Dominates(p) {
			return false
		}
	}
	return true
}

// nilTest decodes cond as "X == nil" / "X != nil"; returns the tested value and
// whether the comparison is EQL.
func nilTest(cond ssa.Value) (x ssa.Value, isEq bool, ok bool) {
	b, isb := cond.(*ssa.BinOp)
	if !isb || (b.Op != token.EQL && b.Op != token.NEQ) {
		return nil, false, false
	}
	if isNilConst(b.Y) {
		return b.X, b.Op == token.EQL, true
	}
	if isNilConst(b.X) {
		return b.Y, b.Op == token.EQL, true
	}
	return nil, false, false
}

func isNilConst(v ssa.Value) bool {
	c, ok := v.(*ssa.Const)
	return ok && c.Value == nil && !isBasic(c.Type())
}

func isBasic(t types.Type) bool {
	_, ok := t.Underlying().(*types.Basic)
	return ok
}

// knownNonNil: is the access path p known to be non-nil at instruction in, by branch guards?
func knownNonNilByGuard(in ssa.Instruction, path string) bool {
	for _, g := range guardsAt(in.Block()) {
		if guardImpliesNonNil(g.Cond, g.Branch, path, 0) {
			return true
		}
	}
	return false
}

func guardImpliesNonNil(cond ssa.Value, branch bool, path string, depth int) bool {
	if depth > 4 {
		return false
	}
	if x, isEq, ok := nilTest(cond); ok {
		if AccessPath(x) == path && isEq != branch {
			return true
		}
		return false
	}
	// !c
	if u, ok := cond.(*ssa.UnOp); ok && u.Op == token.NOT {
		return guardImpliesNonNil(u.X, !branch, path, depth+1)
	}
	return false
}

// ---------------------------------------------------------------- reachability / SCCs

// Reach returns the set of repo functions reachable from roots in the call graph
// (edges into non-repo functions are followed only one step to find callbacks: no).
func (c *Ctx) Reach(roots []*ssa.Function, stop func(*ssa.Function) bool) map[*ssa.Function]bool {
	seen := map[*ssa.Function]bool{}
	var stack []*ssa.Function
	for _, r := range roots {
		if r != nil {
			stack = append(stack, r)
		}
	}
	g := c.Graph()
	for len(stack) > 0 {
		f := stack[len(stack)-1]
		stack = stack[:len(stack)-1]
		if seen[f] {
			continue
		}
		seen[f] = true
		if stop != nil && stop(f) {
			continue
		}
		n := g.Nodes[f]
		if n == nil {
			continue
		}
		for _, e := range n.Out {
			cal := e.Callee.Func
			if cal == nil || seen[cal] {
				continue
			}
			if c.isRepoFn(cal) || c.passThrough(cal) {
				stack = append(stack, cal)
			}
		}
		// anonymous functions created here are considered reachable (closures stored and called via reflection/funcs map)
		for _, an := range f.AnonFuncs {
			if !seen[an] {
				stack = append(stack, an)
			}
		}
	}
	out := map[*ssa.Function]bool{}
	for f := range seen {
		if c.isRepoFn(f) {
			out[f] = true
		}
	}
	return out
}

// passThrough: non-repo functions that call back into repo code through
// function values or interfaces (sort.Sort → Less, filepath.Walk → callback, sync.Once …).
func (c *Ctx) passThrough(f *ssa.Function) bool {
	if f.Pkg == nil {
		return true // synthetic wrappers, bound methods, thunks
	}
	switch f.Pkg.Pkg.Path() {
	case "sort", "path/filepath", "slices":
		return true
	}
	return false
}

// APIRoots is the API set of the properties.
func (c *Ctx) APIRoots() []*ssa.Function {
	names := []string{
		"yang.Parse", "yang.(*Modules).Parse", "yang.(*Modules).Read", "yang.(*Modules).GetModule", "yang.GetModule",
		"yang.(*Modules).Process", "yang.ToEntry", "yang.(*Entry).GetErrors", "yang.(*Entry).Find",
		"yang.(*Entry).Namespace", "yang.(*Entry).InstantiatingModule", "yang.(*Entry).ReadOnly",
		"yang.(*Entry).DefaultValues", "yang.(*Entry).SingleDefaultValue", "yang.(*Entry).Print", "yang.(*Entry).Path",
		"yang.(*Modules).FindModuleByNamespace", "yang.(*Entry).Modules",
		"yangentry.Parse", "main.main",
	}
	var out []*ssa.Function
	seen := map[*ssa.Function]bool{}
	for _, n := range names {
		f := c.MustFn(n)
		seen[f] = true
		out = append(out, f)
	}
	// and every exported method of Entry: the tree that comes back is read through them
	if et := c.Named("yang", "Entry"); et != nil {
		var more []*ssa.Function
		for _, fn := range c.Funcs {
			if seen[fn] || fn.Parent() != nil || fn.Blocks == nil || fn.Object() == nil || !fn.Object().Exported() || fn.Signature.Recv() == nil {
				continue
			}
			if namedOf(fn.Signature.Recv().Type()) == et {
				more = append(more, fn)
			}
		}
		sort.Slice(more, func(i, j int) bool { return c.FnName(more[i]) < c.FnName(more[j]) })
		out = append(out, more...)
	}
	return out
}

// SCCs computes the strongly connected components (with ≥1 internal edge) of
// the call graph restricted to the given function set.
func (c *Ctx) SCCs(set map[*ssa.Function]bool) [][]*ssa.Function {
	g := c.Graph()
	index := 0
	idx := map[*ssa.Function]int{}
	low := map[*ssa.Function]int{}
	on := map[*ssa.Function]bool{}
	var st []*ssa.Function
	var out [][]*ssa.Function
	succ := func(f *ssa.Function) []*ssa.Function {
		var r []*ssa.Function
		n := g.Nodes[f]
		if n == nil {
			return nil
		}
		seen := map[*ssa.Function]bool{}
		for _, e := range n.Out {
			cal := e.Callee.Func
			// look through non-repo pass-through functions one level (sort.Sort etc.) – not needed for recursion detection
			if set[cal] && !seen[cal] {
				seen[cal] = true
				r = append(r, cal)
			}
		}
		// closure creation edge: parent → anon func (closures stored in tables and invoked via reflection are
		// connected where they are made; MakeClosure sites are what link build ↔ initTypes closures)
		sort.Slice(r, func(i, j int) bool { return r[i].Pos() < r[j].Pos() })
		return r
	}
	var strong func(v *ssa.Function)
	strong = func(v *ssa.Function) {
		idx[v] = index
		low[v] = index
		index++
		st = append(st, v)
		on[v] = true
		for _, w := range succ(v) {
			if _, ok := idx[w]; !ok {
				strong(w)
				if low[w] < low[v] {
					low[v] = low[w]
				}
			} else if on[w] {
				if idx[w] < low[v] {
					low[v] = idx[w]
				}
			}
		}
		if low[v] == idx[v] {
			var comp []*ssa.Function
			for {
				w := st[len(st)-1]
				st = st[:len(st)-1]
				on[w] = false
				comp = append(comp, w)
				if w == v {
					break
				}
			}
			self := false
			if len(comp) == 1 {
				for _, w := range succ(v) {
					if w == v {
						self = true
					}
				}
			}
			if len(comp) > 1 || self {
				sort.Slice(comp, func(i, j int) bool { return comp[i].Pos() < comp[j].Pos() })
				out = append(out, comp)
			}
		}
	}
	var fns []*ssa.Function
	for f := range set {
		fns = append(fns, f)
	}
	sort.Slice(fns, func(i, j int) bool { return fns[i].Pos() < fns[j].Pos() })
	for _, f := range fns {
		if _, ok := idx[f]; !ok {
			strong(f)
		}
	}
	sort.Slice(out, func(i, j int) bool { return out[i][0].Pos() < out[j][0].Pos() })
	return out
}

// ---------------------------------------------------------------- AST access

// FuncDecl finds the *ast.FuncDecl or *ast.FuncLit for fn.
func (c *Ctx) FuncAST(fn *ssa.Function) ast.Node {
	if n, ok := c.astOfFn[fn]; ok {
		return n
	}
	n := fn.Syntax()
	c.astOfFn[fn] = n
	return n
}

// PkgInfo returns the types.Info of the package holding fn.
func (c *Ctx) InfoOf(fn *ssa.Function) *types.Info {
	for fn.Parent() != nil {
		fn = fn.Parent()
	}
	if fn.Pkg == nil {
		return nil
	}
	p := c.PkgOf[fn.Pkg.Pkg.Path()]
	if p == nil {
		return nil
	}
	return p.TypesInfo
}

// constString returns the string constant value of v, if it is one.
func constString(v ssa.Value) (string, bool) {
	k, ok := v.(*ssa.Const)
	if !ok || k.Value == nil {
		return "", false
	}
	if b, ok := k.Type().Underlying().(*types.Basic); ok && b.Info()&types.IsString != 0 {
		s := k.Value.ExactString()
		// ExactString is quoted
		if len(s) >= 2 {
			var out string
			if _, err := fmt.Sscanf(s, "%q", &out); err == nil {
				return out, true
			}
		}
	}
	return "", false
}

// isParamN: v is parameter idx of fn, or a load of the cell that parameter was spilled into
// (parameters captured by a closure or a defer live in a cell).
func isParamN(fn *ssa.Function, v ssa.Value, idx int) bool {
	if idx >= len(fn.Params) {
		return false
	}
	p := fn.Params[idx]
	if v == ssa.Value(p) {
		return true
	}
	u, ok := v.(*ssa.UnOp)
	if !ok || u.Op != token.MUL {
		return false
	}
	a, ok := u.X.(*ssa.Alloc)
	if !ok {
		return false
	}
	n, isP := 0, false
	for _, r := range *a.Referrers() {
		if st, ok := r.(*ssa.Store); ok && st.Addr == ssa.Value(a) {
			n++
			isP = st.Val == ssa.Value(p)
		}
	}
	return n == 1 && isP
}

// condKey renders a branch condition so that two evaluations of the same test can be recognised: loads by
// access path, comparisons by operator and operand keys, constants by value. "" if the condition is not of
// a form that can be compared (calls, phis).
func condKey(v ssa.Value, depth int) string {
	if depth > 4 {
		return ""
	}
	switch x := v.(type) {
	case *ssa.Const:
		if x.Value == nil {
			return "nil"
		}
		return x.Value.ExactString()
	case *ssa.UnOp:
		if x.Op == token.MUL {
			return "load:" + AccessPath(x)
		}
		if k := condKey(x.X, depth+1); k != "" {
			return x.Op.String() + k
		}
	case *ssa.Field:
		return "load:" + AccessPath(x)
	case *ssa.Parameter:
		return "param:" + x.Name()
	case *ssa.BinOp:
		a, b := condKey(x.X, depth+1), condKey(x.Y, depth+1)
		if a != "" && b != "" {
			return "(" + a + x.Op.String() + b + ")"
		}
	case *ssa.Convert:
		if k := condKey(x.X, depth+1); k != "" {
			return "conv(" + k + ")"
		}
	}
	return ""
}

// guardsAtPS: guardsAt plus one level of path sensitivity at joins. For a join block J on the dominator chain
// of b, the facts that hold on each incoming edge are computed; edges whose facts contradict what is known at b
// (the same test with the other outcome, nothing in the function storing to what the test reads) are infeasible
// for paths that reach b, and what all remaining edges agree on holds at b.
//
//	if n.Negative && n.Value > K { return err }      // join: Negative==false | Value<=K
//	if n.Negative { … int64(n.Value) … }              // here Negative==true ⇒ Value<=K
func guardsAtPS(b *ssa.BasicBlock) []Guard {
	base := guardsAt(b)
	known := map[string]bool{}
	for _, g := range base {
		c, br := stripNot(g.Cond, g.Branch)
		if k := condKey(c, 0); k != "" {
			known[k] = br
		}
	}
	stored := map[string]bool{}
	eachInstr(b.Parent(), func(in ssa.Instruction) {
		if st, isS := in.(*ssa.Store); isS {
			if _, isAl := st.Addr.(*ssa.Alloc); !isAl {
				stored[AccessPath(st.Addr)] = true
			}
		}
	})
	mutable := func(k string) bool {
		for p := range stored {
			if strings.Contains(k, "load:"+p) {
				return true
			}
		}
		return false
	}
	out := base
	for j := b; j != nil; j = j.Idom() {
		if len(j.Preds) < 2 || isLoopHeader(j) {
			continue
		}
		var common map[string]Guard
		feasible := 0
		for _, p := range j.Preds {
			var facts []Guard
			facts = append(facts, guardsAt(p)...)
			if len(p.Instrs) > 0 {
				if pif, isIf := p.Instrs[len(p.Instrs)-1].(*ssa.If); isIf && p.Succs[0] != p.Succs[1] {
					facts = append(facts, Guard{Cond: pif.Cond, Branch: p.Succs[0] == j, If: pif})
				}
			}
			contradicts := false
			keyed := map[string]Guard{}
			for _, f := range facts {
				c, br := stripNot(f.Cond, f.Branch)
				k := condKey(c, 0)
				if k == "" || mutable(k) {
					continue
				}
				if kb, has := known[k]; has && kb != br {
					contradicts = true
				}
				keyed[fmt.Sprintf("%s=%v", k, br)] = Guard{Cond: c, Branch: br, If: f.If}
			}
			if contradicts {
				continue
			}
			feasible++
			if common == nil {
				common = keyed
			} else {
				for k := range common {
					if _, has := keyed[k]; !has {
						delete(common, k)
					}
				}
			}
		}
		if feasible > 0 && feasible < len(j.Preds) {
			for _, g := range common {
				out = append(out, g)
			}
		}
	}
	return out
}

package main

// effects.go: bottom-up write-effect summaries (DESIGN.md §3.6).
// An effect is (root, field): root says whose object is written, abstracted to
// a parameter index, a global, or "unknown"; writes to objects that are fresh in
// the function (allocated there and not yet escaped) are dropped.

import (
	"fmt"
	"go/types"
	"sort"
	"strings"

	"golang.org/x/tools/go/ssa"
)

type Effect struct {
	Root  string // "p0", "p1", … | "global:<name>" | "unknown" | "io"
	Field string // "Type.Field" | "map:Type.Field" | "*" (element / unknown)
}

func (e Effect) String() string { return e.Root + "→" + e.Field }

type Effects struct {
	Writes map[Effect]bool
}

func (c *Ctx) ensureEffects() {
	if c.effects != nil {
		return
	}
	c.effects = map[*ssa.Function]*Effects{}
	for _, fn := range c.Funcs {
		c.effects[fn] = &Effects{Writes: map[Effect]bool{}}
	}
	// direct effects
	for _, fn := range c.Funcs {
		ef := c.effects[fn]
		eachInstr(fn, func(in ssa.Instruction) {
			switch x := in.(type) {
			case *ssa.Store:
				if _, isAlloc := x.Addr.(*ssa.Alloc); isAlloc {
					return // local cell
				}
				root := c.rootClass(fn, x.Addr)
				if root == "fresh" {
					return
				}
				if _, isPhi := x.Addr.(*ssa.Phi); isPhi {
					if keys := phiFieldKeys(x.Addr); len(keys) > 0 {
						for _, k := range keys {
							ef.Writes[Effect{root, k}] = true
						}
						return
					}
				}
				ef.Writes[Effect{root, addrField(x.Addr)}] = true
			case *ssa.MapUpdate:
				root := c.rootClass(fn, x.Map)
				if root == "fresh" {
					return
				}
				owner, f, _ := loadedField(x.Map)
				fld := "map:*"
				if f != nil {
					fld = "map:" + fieldKey(owner, f)
				}
				if isZeroSizedOrTrue(x.Value) {
					fld = "mapset:" + strings.TrimPrefix(fld, "map:")
				}
				ef.Writes[Effect{root, fld}] = true
			case ssa.CallInstruction:
				com := x.Common()
				if bi, ok := com.Value.(*ssa.Builtin); ok && bi.Name() == "delete" {
					root := c.rootClass(fn, com.Args[0])
					if root == "fresh" {
						return
					}
					owner, f, _ := loadedField(com.Args[0])
					fld := "map:*"
					if f != nil {
						fld = "map:" + fieldKey(owner, f)
					}
					ef.Writes[Effect{root, fld}] = true
					return
				}
				cal := com.StaticCallee()
				if cal != nil && cal.Pkg != nil {
					switch cal.Pkg.Pkg.Path() {
					case "fmt":
						if strings.HasPrefix(cal.Name(), "Fprint") && len(com.Args) > 0 {
							root := c.rootClass(fn, com.Args[0])
							if root != "fresh" {
								ef.Writes[Effect{root, "io:writer"}] = true
							}
						}
						if strings.HasPrefix(cal.Name(), "Print") {
							ef.Writes[Effect{"io", "stdout"}] = true
						}
					case "os", "io/ioutil":
						ef.Writes[Effect{"io", cal.Name()}] = true
					}
				}
				if com.IsInvoke() && (com.Method.Name() == "Write" || com.Method.Name() == "WriteString") {
					root := c.rootClass(fn, com.Value)
					if root != "fresh" {
						ef.Writes[Effect{root, "io:writer"}] = true
					}
				}
				if cal != nil && cal.Pkg != nil && cal.Pkg.Pkg.Path() == "io" && cal.Name() == "WriteString" && len(com.Args) > 0 {
					root := c.rootClass(fn, com.Args[0])
					if root != "fresh" {
						ef.Writes[Effect{root, "io:writer"}] = true
					}
				}
			}
		})
	}
	// propagate through calls to a fixpoint
	g := c.Graph()
	for changed, iter := true, 0; changed && iter < 40; iter++ {
		changed = false
		for _, fn := range c.Funcs {
			ef := c.effects[fn]
			eachInstr(fn, func(in ssa.Instruction) {
				ci, ok := in.(ssa.CallInstruction)
				if !ok {
					return
				}
				var callees []*ssa.Function
				if f := ci.Common().StaticCallee(); f != nil {
					callees = []*ssa.Function{f}
				} else if n := g.Nodes[fn]; n != nil {
					for _, e := range n.Out {
						if e.Site == ci {
							callees = append(callees, e.Callee.Func)
						}
					}
				}
				for _, cal := range callees {
					ce := c.effects[cal]
					if ce == nil {
						continue
					}
					actual := actualArgs(ci)
					for w := range ce.Writes {
						nw := w
						if strings.HasPrefix(w.Root, "p") {
							var idx int
							fmt.Sscanf(w.Root, "p%d", &idx)
							if idx < len(actual) {
								nw.Root = c.rootClass(fn, actual[idx])
								// a store through a pointer parameter (`*slot = v`) where the caller hands in the
								// address of a field writes that field
								if w.Field == "*" {
									if fa, isFA := actual[idx].(*ssa.FieldAddr); isFA {
										if owner, f, _ := fieldOf(fa); f != nil {
											nw.Field = fieldKey(owner, f)
										}
									}
								}
							} else {
								nw.Root = "unknown"
							}
						} else if strings.HasPrefix(w.Root, "free") {
							nw.Root = "unknown"
							// closure free variable: bound at MakeClosure in the parent; treat as parent's local unless it is a param
						}
						if nw.Root == "fresh" {
							continue
						}
						if !ef.Writes[nw] {
							ef.Writes[nw] = true
							changed = true
						}
					}
				}
			})
		}
	}
}

func actualArgs(ci ssa.CallInstruction) []ssa.Value {
	com := ci.Common()
	if com.IsInvoke() {
		return append([]ssa.Value{com.Value}, com.Args...)
	}
	return com.Args
}

// rootClass abstracts the object an address/value belongs to.
func (c *Ctx) rootClass(fn *ssa.Function, v ssa.Value) string {
	class := ""
	merge := func(s string) {
		switch {
		case class == "" || class == s:
			class = s
		case class == "fresh":
			class = s
		case s == "fresh":
		default:
			class = "unknown"
		}
	}
	backSlice(v, func(x ssa.Value) bool {
		switch y := x.(type) {
		case *ssa.Parameter:
			merge(fmt.Sprintf("p%d", paramIndex(fn, y)))
			return false
		case *ssa.FreeVar:
			merge("unknown")
			return false
		case *ssa.Global:
			merge("global:" + y.Name())
			return false
		case *ssa.Alloc:
			if isStructPtr(y.Type()) || isArrayPtr(y.Type()) {
				merge("fresh")
				return false
			}
			// cell: follow stores (backSlice does); if it has no stores it is a fresh zero value
			has := false
			for _, r := range *y.Referrers() {
				if st, ok := r.(*ssa.Store); ok && st.Addr == y {
					has = true
				}
			}
			if !has {
				merge("fresh")
				return false
			}
			return true
		case *ssa.MakeMap, *ssa.MakeSlice, *ssa.MakeChan:
			merge("fresh")
			return false
		case *ssa.Call:
			cal := y.Call.StaticCallee()
			if bi, ok := y.Call.Value.(*ssa.Builtin); ok && bi.Name() == "append" {
				return true // backSlice walks the arguments
			}
			if cal != nil && c.isRepoFn(cal) {
				if idx := c.wrapperOfParam(cal); idx >= 0 && idx < len(y.Call.Args) {
					merge(c.rootClass(fn, y.Call.Args[idx]))
					return false
				}
			}
			if cal != nil && c.isRepoFn(cal) && c.isConstructor(cal) {
				merge("fresh")
			} else if cal != nil && cal.Pkg != nil && cal.Pkg.Pkg.Path() == "reflect" {
				return true
			} else {
				merge("unknown")
			}
			return false
		case *ssa.Const:
			return false
		}
		return true
	})
	if class == "" {
		class = "unknown"
	}
	return class
}

func isArrayPtr(t types.Type) bool {
	p, ok := t.Underlying().(*types.Pointer)
	if !ok {
		return false
	}
	_, ok = p.Elem().Underlying().(*types.Array)
	return ok
}

// addrField names the field (or element) an address designates.
func addrField(addr ssa.Value) string {
	switch x := addr.(type) {
	case *ssa.FieldAddr:
		owner, f, _ := fieldOf(x)
		return fieldKey(owner, f)
	case *ssa.IndexAddr:
		if owner, f, _ := loadedField(x.X); f != nil {
			return "elem:" + fieldKey(owner, f)
		}
		return "elem:*"
	}
	return "*"
}

// WritesOf returns the sorted effect list of fn.
func (c *Ctx) WritesOf(fn *ssa.Function) []Effect {
	c.ensureEffects()
	ef := c.effects[fn]
	if ef == nil {
		return nil
	}
	var out []Effect
	for w := range ef.Writes {
		out = append(out, w)
	}
	sort.Slice(out, func(i, j int) bool { return out[i].String() < out[j].String() })
	return out
}

var wrapperCache = map[*ssa.Function]int{}

// wrapperOfParam: fn returns its parameter i, or a fresh object that holds parameter i (a wrapper such as
// indent.NewWriter); returns i, or -1.
func (c *Ctx) wrapperOfParam(fn *ssa.Function) int {
	if v, ok := wrapperCache[fn]; ok {
		return v
	}
	wrapperCache[fn] = -1
	if fn.Blocks == nil || fn.Signature.Results().Len() != 1 {
		return -1
	}
	idx := -1
	okAll := true
	strip := func(v ssa.Value) ssa.Value {
		for {
			switch x := v.(type) {
			case *ssa.MakeInterface:
				v = x.X
				continue
			case *ssa.ChangeInterface:
				v = x.X
				continue
			}
			return v
		}
	}
	eachInstr(fn, func(in ssa.Instruction) {
		r, ok := in.(*ssa.Return)
		if !ok || len(r.Results) != 1 {
			return
		}
		v := strip(r.Results[0])
		switch x := v.(type) {
		case *ssa.Parameter:
			i := paramIndex(fn, x)
			if idx >= 0 && idx != i {
				okAll = false
			}
			idx = i
		case *ssa.Alloc:
			found := false
			for _, ref := range *x.Referrers() {
				if fa, okf := ref.(*ssa.FieldAddr); okf {
					for _, rr := range *fa.Referrers() {
						if st, oks := rr.(*ssa.Store); oks {
							if p, okp := strip(st.Val).(*ssa.Parameter); okp {
								i := paramIndex(fn, p)
								if idx >= 0 && idx != i {
									continue
								}
								idx = i
								found = true
							}
						}
					}
				}
			}
			if !found {
				okAll = false
			}
		default:
			okAll = false
		}
	})
	if !okAll {
		idx = -1
	}
	wrapperCache[fn] = idx
	return idx
}

package main

// Effects is filled in by effects.go proper (placeholder until the effect engine is built).
type Effects struct{}

package main

// rules_num.go: ARITH.GUARD, RANGE.PIPE, RANGE.PARENT, RANGE.STALE, ENUM.GUARD, ENUM.BOUND, ENUM.SENTINEL, ENUM.USE.

import (
	"fmt"
	"go/constant"
	"go/token"
	"go/types"
	"math/big"
	"os"
	"strings"

	"golang.org/x/tools/go/ssa"
)

func init() {
	register(&Rule{Name: "ARITH.GUARD", Props: []string{"C10", "C14", "C15", "C01"}, Floor: 10,
		Doc: "no silent wrap in Number / range / enum arithmetic: conversions, negations, narrowings and unsigned add/mul are guarded, bounded by provenance, or justified",
		Run: ruleArithGuard})
	register(&Rule{Name: "RANGE.PIPE", Props: []string{"C10"}, Floor: 5,
		Doc: "restriction parsing: reject out-of-order part → sort → coalesce → subset-of-parent → validate, on every accepting path",
		Run: ruleRangePipe})
	register(&Rule{Name: "RANGE.PARENT", Props: []string{"C10"}, Floor: 2,
		Doc: "a restriction is applied to the inherited set, so derivation chains only narrow",
		Run: ruleRangeParent})
	register(&Rule{Name: "RANGE.STALE", Props: []string{"C10"}, Floor: 1,
		Doc: "the overlap validator advances its comparand",
		Run: ruleRangeStale})
	register(&Rule{Name: "ENUM.GUARD", Props: []string{"C14"}, Floor: 5,
		Doc: "both enum map stores are dominated by the four rejections; the running maximum is updated on the same path",
		Run: ruleEnumGuard})
	register(&Rule{Name: "ENUM.BOUND", Props: []string{"C14"}, Floor: 1,
		Doc: "methods of the shared enum/bits type compare with the receiver's own bounds, not with one flavour's constants",
		Run: ruleEnumBound})
	register(&Rule{Name: "ENUM.SENTINEL", Props: []string{"C14"}, Floor: 2,
		Doc: "no constructor seeds the running maximum with a value inside its own domain",
		Run: ruleEnumSentinel})
	register(&Rule{Name: "ENUM.USE", Props: []string{"C14"}, Floor: 2,
		Doc: "the use site calls the explicit setter iff a value/position substatement is present",
		Run: ruleEnumUse})
}

// Reasoned exceptions for ARITH.GUARD: construct → reason.
var arithJustified = map[string]string{
	"yang.decimalValueFromString: convert int64→uint64": "v >= 0 after the negation arm (MinInt64 maps to 2^63 exactly)",
	"yang.pow10: mul uint64":                            "10^e fits a uint64 for e <= 19; the argument is a fraction-digits count (0..18) in every caller: Number.FractionDigits is 1..18 for decimals by RFC 7950 9.3.4 and by construction in ParseDecimal / Type.resolve (asRangeInt(1,18))",
	"yang.pow10: add uint8":                             "loop counter below e <= 255",
	"yang.(Number).frac: mul uint64":                    "Trunc()*10^f <= Value (quotient times the same divisor)",
	"yang.(Number).frac: mul uint64 #2":                 "(Value mod 10^f) * 10^(18-f) < 10^18",
	"yang.(Number).frac: sub uint64":                    "Value - Trunc()*10^f >= 0 (remainder)",
	"yang.(Number).String: convert uint8→int":           "widening",
	"yang.(*Type).resolve: convert int64→int":           "operand is the result of asRangeInt(1, 18)",
	"yang.(*Type).resolve: convert int64→uint8":         "operand is the result of asRangeInt(1, 18)",
	"yang.(*Type).resolve: convert int64→uint8 #2":      "operand is the result of asRangeInt(1, 18)",
	"yang.(*Type).resolve: convert int→uint8":           "y.FractionDigits is 0 or the result of asRangeInt(1, 18) (TYPE.COPY: inherited unchanged)",
}

// convertBoundExact decides a uint64→int64 conversion whose operand is compared with constants on
// every path to it: +1 the implied upper bound fits (2^63-1, or 2^63 when the only use is an
// immediate negation), -1 it does not, 0 no constant bound applies (other arguments are tried).
func convertBoundExact(cv *ssa.Convert) (int, string) {
	v, why, _ := convertBoundTight(cv)
	return v, why
}

// convertBoundTight: as convertBoundExact; the third result says the bound equals the limit of the target exactly
// (no representable value is refused).
func convertBoundTight(cv *ssa.Convert) (int, string, bool) {
	from, to := basicName(cv.X.Type()), basicName(cv.Type())
	if !((from == "uint64" || from == "uint") && (to == "int64" || to == "int")) {
		return 0, "", false
	}
	path := AccessPath(cv.X)
	var ub *big.Int
	for _, g := range guardsAtPS(cv.Block()) {
		if isLoopHeader(g.If.Block()) {
			continue
		}
		bo, isB := g.Cond.(*ssa.BinOp)
		if !isB {
			continue
		}
		op := bo.Op
		var k *ssa.Const
		switch {
		case AccessPath(bo.X) == path:
			k, _ = bo.Y.(*ssa.Const)
		case AccessPath(bo.Y) == path:
			k, _ = bo.X.(*ssa.Const)
			op = map[token.Token]token.Token{token.LSS: token.GTR, token.LEQ: token.GEQ, token.GTR: token.LSS, token.GEQ: token.LEQ, token.EQL: token.EQL, token.NEQ: token.NEQ}[op]
		}
		if k == nil || k.Value == nil || k.Value.Kind() != constant.Int {
			continue
		}
		kv, _ := new(big.Int).SetString(k.Value.ExactString(), 10)
		if kv == nil {
			continue
		}
		if !g.Branch { // negate
			op = map[token.Token]token.Token{token.LSS: token.GEQ, token.LEQ: token.GTR, token.GTR: token.LEQ, token.GEQ: token.LSS, token.EQL: token.NEQ, token.NEQ: token.EQL}[op]
		}
		var b *big.Int
		switch op {
		case token.LEQ, token.EQL:
			b = kv
		case token.LSS:
			b = new(big.Int).Sub(kv, big.NewInt(1))
		}
		if b != nil && (ub == nil || b.Cmp(ub) < 0) {
			ub = b
		}
	}
	if ub == nil {
		return 0, "", false
	}
	limit := new(big.Int).SetUint64(1<<63 - 1)
	what := "2^63-1"
	if refs := cv.Referrers(); refs != nil && len(*refs) == 1 {
		if u, isU := (*refs)[0].(*ssa.UnOp); isU && u.Op == token.SUB {
			limit = new(big.Int).SetUint64(1 << 63)
			what = "2^63 (the conversion is negated at once: -int64(2^63) is MinInt64 exactly)"
		}
	}
	if ub.Cmp(limit) <= 0 {
		return 1, fmt.Sprintf("the dominating comparisons bound the operand by %s <= %s", ub, what), ub.Cmp(limit) == 0
	}
	return -1, fmt.Sprintf("the dominating comparisons only bound the operand by %s, which exceeds %s: the conversion wraps to a value of the other sign with a nil error", ub, what), false
}

// exprFP renders the expression tree of v (field names, callees, operators, constants) so that a
// recorded justification can be tied to the expression it was argued for. Locals do not appear
// (SSA), so renaming or introducing variables does not change it.
func exprFP(v ssa.Value, depth int) string {
	if depth == 0 {
		return "…"
	}
	switch x := v.(type) {
	case *ssa.Const:
		if x.Value == nil {
			return "nil"
		}
		return x.Value.ExactString()
	case *ssa.Parameter:
		return "param"
	case *ssa.BinOp:
		return "(" + exprFP(x.X, depth-1) + " " + x.Op.String() + " " + exprFP(x.Y, depth-1) + ")"
	case *ssa.UnOp:
		if x.Op == token.MUL {
			return exprFP(x.X, depth)
		}
		return x.Op.String() + exprFP(x.X, depth-1)
	case *ssa.Convert:
		return basicName(x.Type()) + "(" + exprFP(x.X, depth-1) + ")"
	case *ssa.FieldAddr:
		if _, f, _ := fieldOf(x); f != nil {
			return "." + recordedFieldName(f)
		}
	case *ssa.Field:
		if st, isS := x.X.Type().Underlying().(*types.Struct); isS {
			return "." + recordedFieldName(st.Field(x.Field))
		}
	case *ssa.Call:
		name := ""
		if f := x.Call.StaticCallee(); f != nil {
			name = baseName(f)
		} else if b, isB := x.Call.Value.(*ssa.Builtin); isB {
			name = b.Name()
		} else {
			name = "dyn"
		}
		var args []string
		for _, a := range x.Call.Args {
			args = append(args, exprFP(a, depth-1))
		}
		return name + "(" + strings.Join(args, ",") + ")"
	case *ssa.Extract:
		return fmt.Sprintf("%s#%d", exprFP(x.Tuple, depth), x.Index)
	case *ssa.Phi:
		return "var"
	case *ssa.Alloc:
		return "local"
	}
	return fmt.Sprintf("%T", v)
}

// arithShape: the expression each value-level justification in arithJustified was argued for.
var arithShape = map[string]string{
	"yang.(*Type).resolve: convert int64→int":           "int(asRangeInt(.FractionDigits,1,18)#0)",
	"yang.(*Type).resolve: convert int64→uint8 #2":      "uint8(asRangeInt(.FractionDigits,1,18)#0)",
	"yang.(*Type).resolve: convert int64→uint8":         "uint8(asRangeInt(.FractionDigits,1,18)#0)",
	"yang.(*Type).resolve: convert int→uint8":           "uint8(.FractionDigits)",
	"yang.(Number).String: convert uint8→int":           "int(.FractionDigits)",
	"yang.(Number).frac: mul uint64 #2":                 "((.Value - (Trunc(…) * pow10(…))) * pow10((18 - .FractionDigits)))",
	"yang.(Number).frac: mul uint64":                    "(Trunc(local) * pow10(.FractionDigits))",
	"yang.(Number).frac: sub uint64":                    "(.Value - (Trunc(local) * pow10(.FractionDigits)))",
	"yang.decimalValueFromString: convert int64→uint64": "uint64(var)",
	"yang.pow10: add uint8":                             "(var + 1)",
	"yang.pow10: mul uint64":                            "(var * 10)",
}

func arithScope(c *Ctx, fn *ssa.Function) bool {
	if fn.Pkg == nil || shortPkg(fn.Pkg.Pkg.Path()) != "yang" {
		return false
	}
	if recv := fn.Signature.Recv(); recv != nil {
		switch n := namedOf(recv.Type()); {
		case n == nil:
		default:
			switch objName(n.Obj()) {
			case "Number", "YRange", "YangRange", "EnumType":
				return true
			}
		}
	}
	switch baseName(fn) {
	case "asRangeInt", "semCheckMaxElements", "semCheckMinElements", "decimalValueFromString", "FromInt", "FromUint", "pow10", "coalesce",
		"ParseInt", "ParseDecimal", "NewEnumType", "NewBitfield":
		return true
	}
	return false
}

func basicName(t types.Type) string {
	if b, ok := t.Underlying().(*types.Basic); ok {
		return b.Name()
	}
	return ""
}

func is64(t types.Type) bool {
	switch basicName(t) {
	case "int64", "uint64", "int", "uint":
		return true
	}
	return false
}

func ruleArithGuard(c *Ctx) []Obligation {
	const R = "ARITH.GUARD"
	var obs []Obligation
	res := c.Fn("yang.(*Type).resolve")
	// Outside the numeric helpers: any sign-changing conversion of a Number's magnitude, wherever it
	// is written (a caller that inlines Number.Int must guard like Number.Int).
	if num := c.Named("yang", "Number"); num != nil {
		fValue := FieldVar(num, "Value")
		for _, fn := range c.Funcs {
			if fn.Pkg == nil || c.Types[fn.Pkg.Pkg.Path()] == nil || arithScope(c, fn) {
				continue
			}
			seenM := map[string]int{}
			eachInstr(fn, func(in ssa.Instruction) {
				cv, isCv := in.(*ssa.Convert)
				if !isCv {
					return
				}
				from, to := basicName(cv.X.Type()), basicName(cv.Type())
				if !((from == "uint64" || from == "uint") && (to == "int64" || to == "int" || to == "int32")) {
					return
				}
				if !derivesFrom(cv.X, func(x ssa.Value) bool { _, f, _ := fieldOf(x); return f == fValue && fValue != nil }) {
					return
				}
				base := fmt.Sprintf("%s: convert %s→%s of a Number magnitude", c.FnName(fn), from, to)
				seenM[base]++
				con := base
				if seenM[base] > 1 {
					con = fmt.Sprintf("%s #%d", base, seenM[base])
				}
				verdict, why, tight := convertBoundTight(cv)
				switch {
				case verdict > 0 && !tight && c.FnName(fn) == "yang.(Number).Int":
					obs = append(obs, bad(R, con, c.InstrPos(in), why+"; but the checked conversion itself refuses magnitudes up to the limit that int64 does hold (MinInt64 / MaxInt64 are values, not overflows)"))
				case verdict > 0:
					obs = append(obs, ok(R, con, c.InstrPos(in), why))
				case verdict < 0:
					obs = append(obs, bad(R, con, c.InstrPos(in), why))
				default:
					obs = append(obs, bad(R, con, c.InstrPos(in), "the magnitude of a Number (any uint64) is converted to a signed integer with no dominating bound: values of 2^63 and above wrap to the other sign silently (Number.Int is the checked conversion)"))
				}
			})
		}
	}
	for _, fn := range c.Funcs {
		if !arithScope(c, fn) && fn != res {
			continue
		}
		seen := map[string]int{}
		eachInstr(fn, func(in ssa.Instruction) {
			kind := ""
			var operand ssa.Value
			switch x := in.(type) {
			case *ssa.Convert:
				from, to := basicName(x.X.Type()), basicName(x.Type())
				if from == "" || to == "" || from == to {
					return
				}
				if _, isConst := x.X.(*ssa.Const); isConst {
					return
				}
				risky := false
				switch {
				case (from == "uint64" || from == "uint") && (to == "int64" || to == "int"):
					risky = true
				case (from == "int64" || from == "int") && (to == "uint64" || to == "uint"):
					risky = true
				case is64(x.X.Type()) && (to == "uint8" || to == "int8" || to == "int16" || to == "uint16" || to == "int32" || to == "uint32"):
					risky = true
				case from == "int64" && to == "int", from == "uint8" && to == "int":
					risky = fn != res && false || from == "int64"
				}
				if fn == res && !(to == "uint8" || to == "int") {
					return
				}
				if fn == res && from == "int" && to == "int" {
					return
				}
				if !risky && !(fn != res && from == "uint8" && to == "int") {
					return
				}
				kind = "convert " + from + "→" + to
				if u, oku := x.X.(*ssa.UnOp); oku && u.Op == token.SUB {
					kind += " of neg"
				}
				operand = x.X
			case *ssa.UnOp:
				if x.Op != token.SUB || fn == res {
					return
				}
				if _, isConst := x.X.(*ssa.Const); isConst {
					return
				}
				t := basicName(x.Type())
				if t != "int64" && t != "int" {
					return
				}
				kind = "neg " + t
				operand = x.X
			case *ssa.BinOp:
				if fn == res {
					return
				}
				t := basicName(x.Type())
				switch x.Op {
				case token.ADD, token.MUL, token.SUB:
				default:
					return
				}
				if t != "uint64" && t != "uint8" && !(t == "int64" && x.Op != token.SUB || t == "int64" && x.Op == token.SUB) {
					return
				}
				if t == "int64" && x.Op == token.SUB {
					if _, c1 := x.X.(*ssa.Const); !c1 {
						// general int64 subtraction is not used on magnitudes here; only report const - x forms
					}
				}
				if _, c1 := x.X.(*ssa.Const); c1 {
					if _, c2 := x.Y.(*ssa.Const); c2 {
						return
					}
				}
				// loop counters (phi + 1) of int type are not in scope; uint8/uint64/int64 only
				kind = map[token.Token]string{token.ADD: "add", token.MUL: "mul", token.SUB: "sub"}[x.Op] + " " + t
				operand = x.X
			default:
				return
			}
			base := fmt.Sprintf("%s: %s", c.FnName(fn), kind)
			seen[base]++
			con := base
			if seen[base] > 1 {
				con = fmt.Sprintf("%s #%d", base, seen[base])
			}
			pos := c.InstrPos(in)
			// Sign-changing 64-bit conversions bounded by constants are decided exactly: the
			// bound the dominating comparisons give must fit the target type.
			if cv, isConv := in.(*ssa.Convert); isConv {
				if verdict, why, tight := convertBoundTight(cv); verdict != 0 {
					if verdict > 0 && !tight && c.FnName(fn) == "yang.(Number).Int" {
						obs = append(obs, bad(R, con, pos, why+"; but the checked conversion itself refuses magnitudes up to the limit that int64 does hold (MinInt64 / MaxInt64 are values, not overflows)"))
					} else if verdict > 0 {
						obs = append(obs, ok(R, con, pos, why))
					} else {
						obs = append(obs, bad(R, con, pos, why))
					}
					return
				}
			}
			if why := arithGuarded(in, operand); why != "" {
				obs = append(obs, ok(R, con, pos, why))
				return
			}
			if why := quotRemBound(in); why != "" {
				if strings.HasPrefix(why, "reasoned: ") {
					obs = append(obs, just(R, con, pos, strings.TrimPrefix(why, "reasoned: ")))
				} else {
					obs = append(obs, ok(R, con, pos, why))
				}
				return
			}
			if why, okj := jget("arithJustified", arithJustified, con); okj {
				// A justification is an argument about one expression: it applies only while the
				// expression it was written for is still the one in the code.
				fp := exprFP(in.(ssa.Value), 4)
				if os.Getenv("VERIF_DUMP_FP") != "" {
					fmt.Fprintf(os.Stderr, "FP\t%q: %q,\n", con, fp)
				}
				if want, has := arithShape[con]; has && want != fp {
					obs = append(obs, bad(R, con, pos, fmt.Sprintf("the recorded bound (%s) was argued for the expression %s; the code now computes %s, for which no bound is recorded", why, want, fp)))
					return
				}
				obs = append(obs, just(R, con, pos, why))
				return
			}
			obs = append(obs, bad(R, con, pos, "the operation can wrap around silently: no dominating comparison bounds its operand and no reasoned bound is recorded"))
		})
	}
	return obs
}

// arithGuarded: a dominating comparison with a constant (or with the other operand) bounds the operand.
func arithGuarded(in ssa.Instruction, operand ssa.Value) string {
	ops := []ssa.Value{operand}
	if bo, ok := in.(*ssa.BinOp); ok {
		ops = append(ops, bo.Y)
	}
	// look through a conversion / negation to the underlying value
	for _, o := range append([]ssa.Value{}, ops...) {
		switch y := o.(type) {
		case *ssa.Convert:
			ops = append(ops, y.X)
		case *ssa.UnOp:
			ops = append(ops, y.X)
		}
	}
	paths := map[string]bool{}
	for _, o := range ops {
		paths[AccessPath(o)] = true
	}
	for _, g := range guardsAtPS(in.Block()) {
		if isLoopHeader(g.If.Block()) {
			continue
		}
		bo, ok := g.Cond.(*ssa.BinOp)
		if !ok {
			continue
		}
		switch bo.Op {
		case token.LSS, token.LEQ, token.GTR, token.GEQ, token.EQL, token.NEQ:
		default:
			continue
		}
		if paths[AccessPath(bo.X)] || paths[AccessPath(bo.Y)] {
			return fmt.Sprintf("dominated by the comparison %s %s %s", shortPath(AccessPath(bo.X)), bo.Op, shortPath(AccessPath(bo.Y)))
		}
		// comparison on a value the operand is computed from (len(s)-1-dx > int(req))
		for _, o := range ops {
			if conv, okc := o.(*ssa.Convert); okc && AccessPath(conv.X) == AccessPath(bo.X) {
				return "dominated by a comparison on the converted expression"
			}
			if sameExpr(o, bo.X) || sameExpr(o, bo.Y) {
				return "dominated by a comparison on the same expression"
			}
		}
	}
	return ""
}

// sameExpr: structurally equal arithmetic expressions (go/ssa does no CSE).
func sameExpr(a, b ssa.Value) bool {
	if a == b {
		return true
	}
	if AccessPath(a) == AccessPath(b) && !strings.HasPrefix(AccessPath(a), "t") {
		return true
	}
	x, ok1 := a.(*ssa.BinOp)
	y, ok2 := b.(*ssa.BinOp)
	if ok1 && ok2 && x.Op == y.Op {
		return sameExpr(x.X, y.X) && sameExpr(x.Y, y.Y)
	}
	cx, ok1 := a.(*ssa.Const)
	cy, ok2 := b.(*ssa.Const)
	if ok1 && ok2 && cx.Value != nil && cy.Value != nil {
		return constant.Compare(cx.Value, token.EQL, cy.Value)
	}
	ca, ok1 := a.(*ssa.Call)
	cb, ok2 := b.(*ssa.Call)
	if ok1 && ok2 {
		ba, oka := ca.Call.Value.(*ssa.Builtin)
		bb, okb := cb.Call.Value.(*ssa.Builtin)
		if oka && okb && ba.Name() == bb.Name() && len(ca.Call.Args) == len(cb.Call.Args) {
			for i := range ca.Call.Args {
				if !sameExpr(ca.Call.Args[i], cb.Call.Args[i]) {
					return false
				}
			}
			return true
		}
		if calleeIs(ca, "strings", "Index") && calleeIs(cb, "strings", "Index") {
			return true
		}
	}
	va, ok1 := a.(*ssa.Convert)
	vb, ok2 := b.(*ssa.Convert)
	if ok1 && ok2 {
		return sameExpr(va.X, vb.X)
	}
	// same local variable (phi) reached through different loads
	if pa, ok := a.(*ssa.Phi); ok {
		if pb, ok := b.(*ssa.Phi); ok {
			return pa == pb
		}
	}
	return false
}

// ---------------------------------------------------------------- RANGE.*

func ruleRangePipe(c *Ctx) []Obligation {
	const R = "RANGE.PIPE"
	var obs []Obligation
	fn := c.Fn("yang.(YangRange).parseChildRanges")
	if fn == nil {
		return []Obligation{undecided(R, "restriction parser", "-", "(YangRange).parseChildRanges not found")}
	}
	byName := func(name string) []*ssa.Call {
		var out []*ssa.Call
		eachInstr(fn, func(in ssa.Instruction) {
			if call, ok := in.(*ssa.Call); ok {
				if cal := call.Call.StaticCallee(); cal != nil && baseName(cal) == name {
					out = append(out, call)
				}
			}
		})
		return out
	}
	succ := successReturns(fn)
	pos := c.Pos(fn.Pos())
	if len(succ) == 0 {
		return []Obligation{undecided(R, "accepting return", pos, "no success return")}
	}
	sorts, coals, conts, vals := byName("Sort"), byName("coalesce"), byName("Contains"), byName("Validate")
	// (1) out-of-order part
	con := "a part whose bounds are out of order is rejected"
	okPart := false
	for _, l := range byName("Less") {
		if loopHeaderOf(l.Block()) == nil {
			continue
		}
		for _, r := range *l.Referrers() {
			if ifi, oki := r.(*ssa.If); oki && blockReturnsError(ifi.Block().Succs[0]) {
				// Less(max, min): receiver is the max of this part, argument its min
				okPart = true
			}
		}
	}
	if okPart {
		obs = append(obs, ok(R, con, pos, "if max.Less(min) { return error } inside the per-part loop"))
	} else {
		obs = append(obs, bad(R, con, pos, "no per-part `max < min` rejection"))
	}
	// (2)-(5) order on every accepting path
	con = "every accepting path sorts, coalesces, checks containment in the parent and validates, in this order"
	if len(sorts) != 1 || len(coals) != 1 || len(conts) != 1 || len(vals) != 1 {
		obs = append(obs, bad(R, con, pos, fmt.Sprintf("sort=%d coalesce=%d contains=%d validate=%d calls", len(sorts), len(coals), len(conts), len(vals))))
		return obs
	}
	s, co, ct, v := sorts[0], coals[0], conts[0], vals[0]
	okOrder := dominates(s, co) && dominates(co, ct) && dominates(ct, v)
	for _, r := range succ {
		if !dominates(v, r) {
			okOrder = false
		}
	}
	if okOrder {
		obs = append(obs, ok(R, con, c.InstrPos(s), "Sort ≺ coalesce ≺ Contains ≺ Validate ≺ return (dominance)"))
	} else {
		obs = append(obs, bad(R, con, pos, "some accepting return is not dominated by the four steps in order"))
	}
	// data flow: coalesce(sorted r); parent.Contains(coalesced); coalesced.Validate(); return coalesced
	con = "the steps are applied to the same set: coalesce(sorted), parent.Contains(coalesced), coalesced.Validate(), return coalesced"
	flow := true
	var whyNot string
	if !sameObject(co.Call.Args[0], s.Call.Args[0]) && !sharePhiWeb(co.Call.Args[0], s.Call.Args[0]) {
		flow, whyNot = false, "coalesce is not applied to the sorted slice"
	}
	if ct.Call.Args[1] != ssa.Value(co) {
		flow, whyNot = false, "the containment test is not applied to the coalesced set"
	}
	if !isReceiver(fn, ct.Call.Args[0]) && !isParamOrSpill(ct.Call.Args[0]) {
		flow, whyNot = false, "the containment test is not against the parent (receiver) set"
	}
	if v.Call.Args[0] != ssa.Value(co) {
		flow, whyNot = false, "validation is not applied to the coalesced set"
	}
	for _, r := range succ {
		if resolveSpill(r.Results[0], r) != ssa.Value(co) {
			flow, whyNot = false, "the returned set is not the coalesced, checked one"
		}
	}
	if flow {
		obs = append(obs, ok(R, con, c.InstrPos(co), "value flow checked"))
	} else {
		obs = append(obs, bad(R, con, c.InstrPos(co), whyNot))
	}
	// error exits
	con = "a set that leaks out of the parent is rejected"
	okExit := false
	for _, r := range *ct.Referrers() {
		if ifi, oki := r.(*ssa.If); oki && blockReturnsError(ifi.Block().Succs[1]) {
			okExit = true
		}
	}
	if okExit {
		obs = append(obs, ok(R, con, c.InstrPos(ct), "if !parent.Contains(r) { return error }"))
	} else {
		obs = append(obs, bad(R, con, c.InstrPos(ct), "the containment result does not lead to an error exit"))
	}
	con = "a set that fails validation is rejected"
	okExit = false
	for _, r := range *v.Referrers() {
		if bo, okb := r.(*ssa.BinOp); okb {
			if _, isEq, okn := nilTest(bo); okn {
				for _, rr := range *bo.Referrers() {
					if ifi, oki := rr.(*ssa.If); oki {
						e := ifi.Block().Succs[0]
						if isEq {
							e = ifi.Block().Succs[1]
						}
						if tr := terminalReturn(e); tr != nil {
							if ev := retErrorOperand(tr); ev != nil && !isNilConst(ev) {
								okExit = true
							}
						}
					}
				}
			}
		}
	}
	if okExit {
		obs = append(obs, ok(R, con, c.InstrPos(v), "if err := r.Validate(); err != nil { return err }"))
	} else {
		obs = append(obs, bad(R, con, c.InstrPos(v), "the validation error is not returned"))
	}
	return obs
}

func ruleRangeParent(c *Ctx) []Obligation {
	const R = "RANGE.PARENT"
	var obs []Obligation
	res := c.MustFn("yang.(*Type).resolve")
	pcr := c.Fn("yang.(YangRange).parseChildRanges")
	yt := c.MustNamed("yang", "YangType")
	if pcr == nil {
		return []Obligation{undecided(R, "restriction parser", "-", "parseChildRanges not found")}
	}
	fRange, fLength := FieldVar(yt, "Range"), FieldVar(yt, "Length")
	var copyAlloc *ssa.Alloc
	for _, cp := range c.structCopies() {
		if cp.fn == res && cp.named == yt {
			copyAlloc = cp.alloc
		}
	}
	// the places where a restriction is parsed against a parent set: calls of the parser in resolve, and calls of a
	// function that hands two of its parameters on to the parser as parent set and restriction text
	type restrictSite struct {
		ci         ssa.CallInstruction
		recv, text ssa.Value
	}
	var sites []restrictSite
	for _, ci := range c.callsTo(res, pcr) {
		sites = append(sites, restrictSite{ci, ci.Common().Args[0], ci.Common().Args[1]})
	}
	eachInstr(res, func(in ssa.Instruction) {
		ci, isC := in.(ssa.CallInstruction)
		if !isC {
			return
		}
		w := ci.Common().StaticCallee()
		if w == nil || w == pcr || !c.isRepoFn(w) || w.Blocks == nil {
			return
		}
		for _, inner := range c.callsTo(w, pcr) {
			pr, isP1 := inner.Common().Args[0].(*ssa.Parameter)
			pt, isP2 := inner.Common().Args[1].(*ssa.Parameter)
			if !isP1 || !isP2 {
				continue
			}
			i, j := paramIndex(w, pr), paramIndex(w, pt)
			if a := ci.Common().Args; i >= 0 && j >= 0 && i < len(a) && j < len(a) {
				sites = append(sites, restrictSite{ci, a[i], a[j]})
			}
		}
	})
	for _, site := range sites {
		ci, recv := site.ci, site.recv
		// which restriction? the string argument comes from t.Range.Name or t.Length.Name
		isLen := derivesFrom(site.text, func(x ssa.Value) bool {
			_, f, _ := fieldOf(x)
			return f != nil && f.Name() == "Length" && namedOf(f.Type()) != nil && namedOf(f.Type()).Obj().Name() == "Length"
		})
		what, field := "range", fRange
		if isLen {
			what, field = "length", fLength
		}
		con := fmt.Sprintf("%s restriction is applied to the inherited %s set", what, what)
		good := true
		why := ""
		var check func(v ssa.Value, d int)
		check = func(v ssa.Value, d int) {
			if d > 4 {
				good = false
				return
			}
			switch x := v.(type) {
			case *ssa.Phi:
				for _, e := range x.Edges {
					check(e, d+1)
				}
			case *ssa.UnOp:
				if g, okg := x.X.(*ssa.Global); okg {
					if isLen && g.Name() == "Uint64Range" {
						// allowed only when the inherited length is empty: checked through the guard below
						return
					}
					good, why = false, "a built-in range ("+g.Name()+") is used as the parent instead of the inherited set: a derived type could widen its base"
					return
				}
				_, f, base := fieldOf(x.X)
				if f == field && copyAlloc != nil && rootOf(base) == ssa.Value(copyAlloc) {
					return
				}
				good, why = false, "the parent set is not the copied parent type's own "+what
			default:
				good, why = false, "cannot trace the parent set"
			}
		}
		check(recv, 0)
		if good {
			obs = append(obs, ok(R, con, c.InstrPos(ci), "receiver is y."+field.Name()+" of the whole-struct copy (or the full length range when nothing is inherited)"))
		} else {
			obs = append(obs, bad(R, con, c.InstrPos(ci), why))
		}
	}
	// decimal64 base range literal
	con := "the decimal64 base range spans the full int64 mantissa at the parsed fraction digits"
	okDec := false
	eachInstr(res, func(in ssa.Instruction) {
		st, ok := in.(*ssa.Store)
		if !ok {
			return
		}
		if k, okk := constUint(st.Val); okk && k == 1<<63 {
			if _, f, _ := fieldOf(st.Addr); f != nil && f.Name() == "Value" {
				okDec = true
			}
		}
	})
	if okDec {
		obs = append(obs, ok(R, con, c.Pos(res.Pos()), "Number{Value: AbsMinInt64, Negative: true, …} .. Number{Value: MaxInt64, …}"))
	} else {
		obs = append(obs, bad(R, con, c.Pos(res.Pos()), "the literal does not use 2^63 / 2^63-1 as its bounds"))
	}
	return obs
}

func ruleRangeStale(c *Ctx) []Obligation {
	const R = "RANGE.STALE"
	fn := c.Fn("yang.(YangRange).Validate")
	if fn == nil {
		return []Obligation{undecided(R, "overlap validator", "-", "(YangRange).Validate not found")}
	}
	con := "Validate compares each part with its predecessor"
	var verdict *Obligation
	eachInstr(fn, func(in ssa.Instruction) {
		call, isCall := in.(*ssa.Call)
		if !isCall || verdict != nil {
			return
		}
		cal := call.Call.StaticCallee()
		if cal == nil || baseName(cal) != "Less" {
			return
		}
		h := loopHeaderOf(call.Block())
		if h == nil {
			return
		}
		// the comparand (argument) must be loop-carried: derive from a phi at the loop header
		carried := derivesFrom(call.Call.Args[1], func(x ssa.Value) bool {
			phi, okp := x.(*ssa.Phi)
			return okp && phi.Block() == h && phi.Comment != "rangeindex"
		})
		// spilled struct variable: a cell stored inside the loop
		if !carried {
			carried = derivesFrom(call.Call.Args[1], func(x ssa.Value) bool {
				a, oka := x.(*ssa.Alloc)
				if !oka {
					return false
				}
				for _, r := range *a.Referrers() {
					if st, oks := r.(*ssa.Store); oks && st.Addr == ssa.Value(a) && h.Dominates(st.Block()) && st.Block() != h && blockReaches(st.Block(), h, nil) {
						// `p = p` is a store too, and advances nothing
						if ld, isLd := st.Val.(*ssa.UnOp); isLd && ld.X == ssa.Value(a) {
							continue
						}
						return true
					}
				}
				return false
			})
		}
		if carried {
			o := ok(R, con, c.InstrPos(call), "the comparand is updated in the loop")
			verdict = &o
		} else {
			o := bad(R, con, c.InstrPos(call), "the 'previous part' is set once before the loop and never advanced: every part is compared with the first only")
			verdict = &o
		}
	})
	if verdict == nil {
		return []Obligation{undecided(R, con, c.Pos(fn.Pos()), "no comparison loop found")}
	}
	return []Obligation{*verdict}
}

// ---------------------------------------------------------------- ENUM.*

func ruleEnumGuard(c *Ctx) []Obligation {
	const R = "ENUM.GUARD"
	var obs []Obligation
	et := c.MustNamed("yang", "EnumType")
	set := c.MustFn("yang.(*EnumType).Set")
	fToInt, fToString := FieldVar(et, "ToInt"), FieldVar(et, "ToString")
	fMin, fMax, fLast, fUnique := FieldVar(et, "min"), FieldVar(et, "max"), FieldVar(et, "last"), FieldVar(et, "unique")
	if fMin == nil || fMax == nil || fLast == nil || fUnique == nil {
		return []Obligation{undecided(R, "enum state fields", "-", "min/max/last/unique not found")}
	}
	var stores []*ssa.MapUpdate
	stores = append(stores, mapUpdatesOnField(set, fToInt)...)
	stores = append(stores, mapUpdatesOnField(set, fToString)...)
	if len(stores) != 2 {
		return []Obligation{bad(R, "Set records the member in both maps", c.Pos(set.Pos()), fmt.Sprintf("%d map stores", len(stores)))}
	}
	obs = append(obs, ok(R, "Set records the member in both maps", c.InstrPos(stores[0]), "ToString[value] = name; ToInt[name] = value"))
	// parameters may live in cells when a closure or defer captures them: compare through isParamN
	isName := func(v ssa.Value) bool { return isParamN(set, resolveArg(v), 1) }
	isValue := func(v ssa.Value) bool { return isParamN(set, resolveArg(v), 2) }
	type rej struct {
		con   string
		match func(ifi *ssa.If) (errSucc *ssa.BasicBlock)
	}
	loadOf := func(v ssa.Value, f *types.Var) bool {
		_, lf, _ := loadedField(v)
		return lf == f
	}
	rejs := []rej{
		{"a name already taken is rejected", func(ifi *ssa.If) *ssa.BasicBlock {
			ex, ok := ifi.Cond.(*ssa.Extract)
			if !ok || ex.Index != 1 {
				return nil
			}
			l, okl := ex.Tuple.(*ssa.Lookup)
			if okl && loadOf(l.X, fToInt) && isName(l.Index) {
				return ifi.Block().Succs[0]
			}
			return nil
		}},
		{"a value already taken is rejected for enumerations", func(ifi *ssa.If) *ssa.BasicBlock {
			// e.unique && ok  — materialised as phi #&& or as nested ifs; find the ok of ToString[value]
			found := false
			backSliceCond(ifi.Cond, func(x ssa.Value) {
				if ex, ok := x.(*ssa.Extract); ok && ex.Index == 1 {
					if l, okl := ex.Tuple.(*ssa.Lookup); okl && loadOf(l.X, fToString) && isValue(l.Index) {
						found = true
					}
				}
			})
			if !found {
				return nil
			}
			// the unique flag must participate (bits may share positions)
			uniq := false
			backSliceCond(ifi.Cond, func(x ssa.Value) {
				if loadOf(x, fUnique) {
					uniq = true
				}
			})
			for _, g := range guardsAt(ifi.Block()) {
				if loadOf(g.Cond, fUnique) && g.Branch {
					uniq = true
				}
			}
			// materialised `e.unique && ok`: the ok operand is evaluated in a block entered on unique == true
			if phi, isPhi := ifi.Cond.(*ssa.Phi); isPhi && phi.Comment == "&&" {
				for i, e := range phi.Edges {
					if _, isConst := e.(*ssa.Const); isConst {
						continue
					}
					pred := phi.Block().Preds[i]
					for _, pp := range pred.Preds {
						if pif, okp := pp.Instrs[len(pp.Instrs)-1].(*ssa.If); okp && pp.Succs[0] == pred && loadOf(pif.Cond, fUnique) {
							uniq = true
						}
					}
					// or the unique test is the phi's own first operand block
					for _, pp := range phi.Block().Preds {
						if pif, okp := pp.Instrs[len(pp.Instrs)-1].(*ssa.If); okp && loadOf(pif.Cond, fUnique) {
							uniq = true
						}
					}
				}
			}
			if !uniq {
				return nil
			}
			return ifi.Block().Succs[0]
		}},
		{"a value below the type's minimum is rejected", func(ifi *ssa.If) *ssa.BasicBlock {
			bo, ok := ifi.Cond.(*ssa.BinOp)
			if ok && bo.Op == token.LSS && isValue(bo.X) && loadOf(bo.Y, fMin) {
				return ifi.Block().Succs[0]
			}
			return nil
		}},
		{"a value above the type's maximum is rejected", func(ifi *ssa.If) *ssa.BasicBlock {
			bo, ok := ifi.Cond.(*ssa.BinOp)
			if ok && bo.Op == token.GTR && isValue(bo.X) && loadOf(bo.Y, fMax) {
				return ifi.Block().Succs[0]
			}
			return nil
		}},
	}
	for _, rj := range rejs {
		good := false
		var at ssa.Instruction
		var blocks []*ssa.BasicBlock
		blocks = append(blocks, set.Blocks...)
		for _, h := range c.helpersUnder(set) {
			blocks = append(blocks, h.Blocks...) // a test extracted into a private helper (e.checkRange(name, value))
		}
		for _, b := range blocks {
			if len(b.Instrs) == 0 {
				continue
			}
			ifi, ok := b.Instrs[len(b.Instrs)-1].(*ssa.If)
			if !ok {
				continue
			}
			es := rj.match(ifi)
			if es == nil {
				continue
			}
			at = ifi
			if ifi.Parent() != set {
				// in a helper: its error exit must be passed on by Set, and the call must come before the stores
				if h := helperOf(ifi.Parent()); h != nil && blockReturnsError(es) && errorPropagated(h.site) && dominates(h.site, stores[0]) && dominates(h.site, stores[1]) {
					good = true
				}
				continue
			}
			dom := dominates(ifi, stores[0]) && dominates(ifi, stores[1])
			if !dom {
				// `flag && test`: the test is reached only when the flag holds; the flag's own If dominates the stores
				for _, p := range ifi.Block().Preds {
					if pif, okp := p.Instrs[len(p.Instrs)-1].(*ssa.If); okp && len(ifi.Block().Preds) == 1 && dominates(pif, stores[0]) && dominates(pif, stores[1]) {
						dom = true
					}
				}
			}
			if blockReturnsError(es) && dom {
				good = true
			}
		}
		if good {
			obs = append(obs, ok(R, rj.con, c.InstrPos(at), "error exit dominating both map stores"))
		} else {
			obs = append(obs, bad(R, rj.con, c.Pos(set.Pos()), "no such test with an error exit dominates the stores: an invalid member would be recorded"))
		}
	}
	// running maximum
	con := "the running maximum is raised to every recorded value that exceeds it"
	okLast := false
	for _, st := range storesToField(set, fLast) {
		if !isValue(st.Val) {
			continue
		}
		for _, g := range guardsAt(st.Block()) {
			bo, ok := g.Cond.(*ssa.BinOp)
			if ok && g.Branch && (bo.Op == token.GEQ || bo.Op == token.GTR) && isValue(bo.X) && loadOf(bo.Y, fLast) {
				if reaches(stores[0], st) || dominates(stores[0], st) {
					okLast = true
				}
			}
		}
	}
	if okLast {
		obs = append(obs, ok(R, con, c.Pos(set.Pos()), "if value >= e.last { e.last = value } after the stores"))
	} else {
		obs = append(obs, bad(R, con, c.Pos(set.Pos()), "last is not updated from the recorded value under value >= last"))
	}
	return obs
}

func ruleEnumBound(c *Ctx) []Obligation {
	const R = "ENUM.BOUND"
	var obs []Obligation
	et := c.MustNamed("yang", "EnumType")
	flavour := map[int64]string{1<<31 - 1: "MaxEnum", -1 << 31: "MinEnum", 1<<32 - 1: "MaxBitfieldSize-1", 1 << 32: "MaxBitfieldSize"}
	n := 0
	for _, fn := range c.Funcs {
		recv := fn.Signature.Recv()
		if recv == nil || namedOf(recv.Type()) != et {
			continue
		}
		eachInstr(fn, func(in ssa.Instruction) {
			bo, ok := in.(*ssa.BinOp)
			if !ok {
				return
			}
			switch bo.Op {
			case token.EQL, token.NEQ, token.LSS, token.LEQ, token.GTR, token.GEQ:
			default:
				return
			}
			n++
			for _, side := range []ssa.Value{bo.X, bo.Y} {
				if k, okk := constInt(side); okk {
					if nm, isF := flavour[k]; isF {
						obs = append(obs, bad(R, fmt.Sprintf("%s: comparison with the constant %s", c.FnName(fn), nm), c.InstrPos(in), "the type serves enumerations and bits, each with its own bounds: comparing with one flavour's constant is wrong for the other (use the receiver's min/max)"))
					}
				}
			}
		})
	}
	obs = append(obs, ok(R, "comparisons in the shared enum/bits methods enumerated", "-", fmt.Sprintf("%d comparisons; none uses a flavour constant unless reported", n)))
	return obs
}

func ruleEnumSentinel(c *Ctx) []Obligation {
	const R = "ENUM.SENTINEL"
	var obs []Obligation
	et := c.MustNamed("yang", "EnumType")
	fMin, fMax, fLast := FieldVar(et, "min"), FieldVar(et, "max"), FieldVar(et, "last")
	for _, fn := range c.Funcs {
		if fn.Signature.Recv() != nil || fn.Signature.Results().Len() != 1 || namedOf(fn.Signature.Results().At(0).Type()) != et {
			continue
		}
		vals := map[*types.Var]*int64{}
		eachInstr(fn, func(in ssa.Instruction) {
			st, ok := in.(*ssa.Store)
			if !ok {
				return
			}
			_, f, _ := fieldOf(st.Addr)
			if f == fMin || f == fMax || f == fLast {
				if k, okk := constInt(st.Val); okk {
					v := k
					vals[f] = &v
				}
			}
		})
		con := fmt.Sprintf("%s: the running-maximum seed lies outside [min, max]", c.FnName(fn))
		mn, mx, ls := vals[fMin], vals[fMax], vals[fLast]
		var lo, hi, seed int64
		if mn != nil {
			lo = *mn
		}
		if mx != nil {
			hi = *mx
		}
		if ls != nil {
			seed = *ls
		}
		if mx == nil {
			obs = append(obs, undecided(R, con, c.Pos(fn.Pos()), "constructor does not set max with a constant"))
			continue
		}
		if seed >= lo && seed <= hi {
			obs = append(obs, bad(R, con, c.Pos(fn.Pos()), fmt.Sprintf("seed %d is a legal value of [%d, %d]: a smaller explicit first value leaves the seed as the maximum, and the next implicit value is seed+1 instead of highest+1", seed, lo, hi)))
		} else {
			obs = append(obs, ok(R, con, c.Pos(fn.Pos()), fmt.Sprintf("seed %d ∉ [%d, %d]", seed, lo, hi)))
		}
	}
	// the first implicit member is 0: SetNext special-cases the empty type
	sn := c.Fn("yang.(*EnumType).SetNext")
	if sn != nil {
		con := "the first implicit member is assigned 0"
		okFirst := false
		eachInstr(sn, func(in ssa.Instruction) {
			call, ok := in.(*ssa.Call)
			if !ok || call.Call.StaticCallee() == nil || baseName(call.Call.StaticCallee()) != "Set" {
				return
			}
			if k, okk := constInt(call.Call.Args[2]); okk && k == 0 {
				for _, g := range guardsAt(call.Block()) {
					if bo, okb := g.Cond.(*ssa.BinOp); okb && isLenOf(bo.X) && isZero(bo.Y) && bo.Op == token.EQL && g.Branch {
						okFirst = true
					}
				}
			}
		})
		// or: seed + 1 == 0 in every constructor (the historic encoding)
		if okFirst {
			obs = append(obs, ok(R, con, c.Pos(sn.Pos()), "if len(ToInt) == 0 { Set(name, 0) }"))
		} else {
			obs = append(obs, bad(R, con, c.Pos(sn.Pos()), "with the seed outside the domain, the empty type needs an explicit first value of 0"))
		}
	}
	return obs
}

func ruleEnumUse(c *Ctx) []Obligation {
	const R = "ENUM.USE"
	var obs []Obligation
	res := c.MustFn("yang.(*Type).resolve")
	// the helper closure that chooses between Set and SetNext by the presence of the value node
	var helper *ssa.Function
	// … or the function or method that took the closure's place
	cands := append([]*ssa.Function{}, res.AnonFuncs...)
	for _, cal := range c.staticReach(res, 2) {
		if cal != res {
			cands = append(cands, cal)
		}
	}
	for _, an := range cands {
		hasSet, hasNext := false, false
		eachInstr(an, func(in ssa.Instruction) {
			if call, ok := in.(*ssa.Call); ok && call.Call.StaticCallee() != nil {
				switch baseName(call.Call.StaticCallee()) {
				case "Set":
					hasSet = true
				case "SetNext":
					hasNext = true
				}
			}
		})
		if hasSet && hasNext {
			helper = an
		}
	}
	con := "explicit setter iff a value/position substatement is present"
	if helper == nil {
		return []Obligation{undecided(R, con, c.Pos(res.Pos()), "no helper calling both Set and SetNext in Type.resolve")}
	}
	valueP := ssa.Value(helper.Params[len(helper.Params)-1])
	for _, p := range helper.Params {
		if pt, isP := p.Type().(*types.Pointer); isP && namedOf(pt.Elem()) != nil && objName(namedOf(pt.Elem()).Obj()) == "Value" {
			valueP = p
		}
	}
	good := true
	// the value node: the helper's *Value parameter, or the *Value field of a structure it is handed (a member
	// description with node, name and value)
	isValueRef := func(x ssa.Value) bool {
		if x == valueP {
			return true
		}
		if p, f := structParamFieldIn(x, helper); p != nil && p.Parent() == helper {
			if pt, isP := f.Type().(*types.Pointer); isP && namedOf(pt.Elem()) != nil && objName(namedOf(pt.Elem()).Obj()) == "Value" {
				return true
			}
		}
		return false
	}
	var nilTests []*ssa.BinOp
	eachInstr(helper, func(in ssa.Instruction) {
		if bo, okb := in.(*ssa.BinOp); okb {
			if x, _, okn := nilTest(bo); okn && isValueRef(x) {
				nilTests = append(nilTests, bo)
			}
		}
	})
	eachInstr(helper, func(in ssa.Instruction) {
		call, ok := in.(*ssa.Call)
		if !ok || call.Call.StaticCallee() == nil {
			return
		}
		nm := baseName(call.Call.StaticCallee())
		if nm != "Set" && nm != "SetNext" {
			return
		}
		wantNil := nm == "SetNext"
		g := false
		for _, gd := range guardsAt(call.Block()) {
			if x, isEq, okn := nilTest(gd.Cond); okn && isValueRef(x) && (isEq == gd.Branch) == wantNil {
				g = true
			}
		}
		// Set after `if value == nil { return SetNext }`
		if !g && !wantNil {
			for _, r := range nilTests {
				if bo := r; bo != nil {
					if _, isEq, okn := nilTest(bo); okn {
						for _, rr := range *bo.Referrers() {
							if ifi, oki := rr.(*ssa.If); oki {
								nn := ifi.Block().Succs[1]
								if !isEq {
									nn = ifi.Block().Succs[0]
								}
								if nn.Dominates(call.Block()) {
									g = true
								}
							}
						}
					}
				}
			}
		}
		if !g {
			good = false
		}
	})
	if good {
		obs = append(obs, ok(R, con, c.Pos(helper.Pos()), "value == nil → SetNext; otherwise ParseInt → Int → Set"))
	} else {
		obs = append(obs, bad(R, con, c.Pos(helper.Pos()), "the setter choice is not decided by the presence of the value node"))
	}
	// both enum and bit loops use the helper with the member's own value/position
	for _, kind := range []struct{ field, arg string }{{"Enum", "Value"}, {"Bit", "Position"}} {
		con := fmt.Sprintf("%s members are set through the helper with their own %s", strings.ToLower(kind.field), strings.ToLower(kind.arg))
		okk := false
		eachInstr(res, func(in ssa.Instruction) {
			call, ok := in.(*ssa.Call)
			if !ok || len(c.Callees(call)) == 0 {
				return
			}
			for _, cal := range c.Callees(call) {
				viaHelper := cal == helper
				if !viaHelper && c.isRepoFn(cal) && cal.Blocks != nil {
					for _, f2 := range c.staticReach(cal, 1) {
						if f2 == helper {
							viaHelper = true
						}
					}
				}
				if !viaHelper {
					continue
				}
				for _, a := range call.Call.Args {
					if _, f, _ := loadedField(a); f != nil && f.Name() == kind.arg {
						okk = true
					}
					// a member description written at the call: one of its fields is given the member's value
					if ld, isL := a.(*ssa.UnOp); isL {
						if cell, isA := ld.X.(*ssa.Alloc); isA {
							st := cell.Type().Underlying().(*types.Pointer).Elem().Underlying()
							if stt, isS := st.(*types.Struct); isS {
								for i := 0; i < stt.NumFields(); i++ {
									if v, known := literalField(a, stt.Field(i)); known && v != nil {
										if _, f, _ := loadedField(v); f != nil && f.Name() == kind.arg {
											okk = true
										}
									}
								}
							}
						}
					}
				}
			}
		})
		if okk {
			obs = append(obs, ok(R, con, c.Pos(res.Pos()), "set(enumType, e.Name, e."+kind.arg+")"))
		} else {
			obs = append(obs, bad(R, con, c.Pos(res.Pos()), "the member's "+kind.arg+" is not what is passed to the setter helper"))
		}
	}
	return obs
}

// quotRemBound decides the arithmetic of taking a number apart at its decimal point, whatever function it is written
// in: with q = x / s (unsigned), q*s cannot exceed x, so x - q*s cannot go below zero and is less than s; and for
// s = pow10(f), (x - q*s) * pow10(18 - f) is less than 10^18; 18 - f is taken of a fraction-digits count (0..18 by
// the type's construction, as recorded for Number.frac).
func quotRemBound(in ssa.Instruction) string {
	bo, isB := in.(*ssa.BinOp)
	if !isB {
		return ""
	}
	quot := func(v ssa.Value) (x, s ssa.Value) {
		q, isQ := v.(*ssa.BinOp)
		if !isQ || q.Op != token.QUO || basicName(q.Type()) != "uint64" {
			return nil, nil
		}
		return q.X, q.Y
	}
	qTimesS := func(v ssa.Value) (x, s ssa.Value) {
		m, isM := v.(*ssa.BinOp)
		if !isM || m.Op != token.MUL {
			return nil, nil
		}
		if x, s := quot(m.X); x != nil && sameExpr(s, m.Y) {
			return x, s
		}
		if x, s := quot(m.Y); x != nil && sameExpr(s, m.X) {
			return x, s
		}
		return nil, nil
	}
	rem := func(v ssa.Value) (x, s ssa.Value) {
		r, isR := v.(*ssa.BinOp)
		if !isR || r.Op != token.SUB {
			return nil, nil
		}
		if x, s := qTimesS(r.Y); x != nil && sameExpr(x, r.X) {
			return x, s
		}
		return nil, nil
	}
	pow10Of := func(v ssa.Value) ssa.Value {
		call, isC := v.(*ssa.Call)
		if !isC || call.Call.StaticCallee() == nil || call.Call.StaticCallee().Name() != "pow10" || len(call.Call.Args) != 1 {
			return nil
		}
		return call.Call.Args[0]
	}
	switch bo.Op {
	case token.MUL:
		if x, _ := qTimesS(bo); x != nil {
			return "quotient times the divisor it was divided by: not above the dividend"
		}
		// remainder by 10^f, times 10^(18-f)
		for _, pair := range [][2]ssa.Value{{bo.X, bo.Y}, {bo.Y, bo.X}} {
			_, s := rem(pair[0])
			if s == nil {
				continue
			}
			f := pow10Of(s)
			g := pow10Of(pair[1])
			if f == nil || g == nil {
				continue
			}
			if cv, isCv := g.(*ssa.Convert); isCv {
				g = cv.X
			}
			if d, isD := g.(*ssa.BinOp); isD && d.Op == token.SUB {
				if k, isK := constInt(d.X); isK && k == 18 && sameExpr(d.Y, f) {
					return "a remainder below 10^f times 10^(18-f): below 10^18"
				}
			}
		}
	case token.SUB:
		if x, _ := rem(bo); x != nil {
			return "dividend minus quotient times divisor: the remainder, never below zero"
		}
		if k, isK := constInt(bo.X); isK && k == 18 && basicName(bo.Type()) == "uint8" {
			if _, f, _ := loadedField(bo.Y); f != nil && f.Name() == "FractionDigits" {
				return "reasoned: 18 - f for a fraction-digits count f in 0..18 (the field's domain: RFC 7950 9.3.4, kept by ParseDecimal and Type.resolve through asRangeInt(1,18))"
			}
		}
	}
	return ""
}

package main

// rules_wave8.go: rules written from the bug-hunt wave (hunt/h1): agents searched the UNCHANGED tree for inputs on
// which a property fails. Each repaired defect gets a rule deciding the structural condition its repair restored
// (so the defect is reported if it returns); each defect recorded rather than repaired gets a rule naming the call
// site, listed in known_findings.json.
// NUM.NEGZERO (second clause, in rules_more.go's rule), NUM.FRACBOUND, RPC.PART, TYPE.EQUALFIELDS, LEX.PEEKCONSUME,
// POS.STALELINE, NS.CARRY, DEV.TABLES.

import (
	"fmt"
	"go/token"
	"go/types"
	"sort"
	"strings"

	"golang.org/x/tools/go/ssa"
)

func init() {
	register(&Rule{Name: "NUM.ZEROSIGN", Props: []string{"C10", "C15"}, Floor: 1,
		Doc: "a zero written with a minus sign is not ordered below zero: the ordering ignores the sign of a zero magnitude, or the integer parser does not record one",
		Run: ruleNumZeroSign})
	register(&Rule{Name: "NUM.FRACBOUND", Props: []string{"C15"}, Floor: 1,
		Doc: "a counted number of fraction digits stops at the maximum (18): the counter that ends up in Number.FractionDigits is incremented only below it",
		Run: ruleNumFracBound})
	register(&Rule{Name: "NUM.FLOATCLAMP", Props: []string{"C15"}, Floor: 2,
		Doc: "the float conversion clamps a float that equals the (rounded) decimal64 bound, not only those beyond it",
		Run: ruleNumFloatClamp})
	register(&Rule{Name: "RPC.PART", Props: []string{"C17", "C12", "C07"}, Floor: 2,
		Doc: "every statement kind that can carry input/output (rpc, action) is converted to an entry with an RPC part, present even when neither is written",
		Run: ruleRPCPart})
	register(&Rule{Name: "TYPE.EQUALFIELDS", Props: []string{"C09"}, Floor: 15,
		Doc: "the type equality that decides whether a union member is already listed reads every component of the resolved type from both operands (reasoned exceptions: Name, Base, Root)",
		Run: ruleTypeEqualFields})
	register(&Rule{Name: "LEX.PEEKCONSUME", Props: []string{"C02", "C16"}, Floor: 1,
		Doc: "a rune that was only peeked at is consumed before the lexer searches for a terminator that begins with the same rune",
		Run: ruleLexPeekConsume})
	register(&Rule{Name: "POS.STALELINE", Props: []string{"C16"}, Floor: 3,
		Doc: "a lexer error position read from the cursor is read before any rune that may be a line break is consumed",
		Run: rulePosStaleLine})
	register(&Rule{Name: "NS.CARRY", Props: []string{"C12", "C17"}, Floor: 1,
		Doc: "an entry made to stand for another (the implicit case of a shorthand choice branch) takes over its namespace stamp",
		Run: ruleNsCarry})
	register(&Rule{Name: "DEV.TABLES", Props: []string{"C08"}, Floor: 1,
		Doc: "the visited-name table of the deviation pass does not span the module and the submodule name space",
		Run: ruleDevTables})
}

// ---------------------------------------------------------------- NUM.ZEROSIGN

// zeroSignCleared: the bases b (pointers to Number) for which fn has `if b.Value == 0 { b.Negative = false }`;
// the value is the test instruction.
func zeroSignCleared(fn *ssa.Function, fValue, fNeg *types.Var) map[ssa.Value]ssa.Instruction {
	out := map[ssa.Value]ssa.Instruction{}
	for _, st := range storesToField(fn, fNeg) {
		k, isK := st.Val.(*ssa.Const)
		if !isK || k.Value == nil || k.Value.String() != "false" {
			continue
		}
		_, _, base := fieldOf(st.Addr)
		for _, g := range guardsAt(st.Block()) {
			bo, okb := g.Cond.(*ssa.BinOp)
			if !okb {
				continue
			}
			_, gf, gbase := loadedField(bo.X)
			if gf != fValue || gbase != base {
				continue
			}
			z, okz := constInt(bo.Y)
			if !okz || z != 0 {
				continue
			}
			if bo.Op == token.EQL && g.Branch || bo.Op == token.NEQ && !g.Branch {
				out[base] = bo
			}
		}
	}
	return out
}

func ruleNumZeroSign(c *Ctx) []Obligation {
	const R = "NUM.ZEROSIGN"
	con := "-0 is neither less than nor different from 0"
	less := c.Fn("yang.(Number).Less")
	parse := c.Fn("yang.ParseInt")
	if less == nil || parse == nil {
		return []Obligation{undecided(R, con, "-", "(Number).Less / ParseInt not found")}
	}
	num := c.MustNamed("yang", "Number")
	fValue, fNeg := FieldVar(num, "Value"), FieldVar(num, "Negative")
	if fValue == nil || fNeg == nil {
		return []Obligation{undecided(R, con, c.Pos(less.Pos()), "Number has no Value/Negative field")}
	}
	// (a) the ordering: every read of a sign flag comes after the flag of a zero magnitude was cleared
	cleared := zeroSignCleared(less, fValue, fNeg)
	lessOK, reads := true, 0
	why := ""
	eachInstr(less, func(in ssa.Instruction) {
		v, okv := in.(ssa.Value)
		if !okv {
			return
		}
		_, f, base := loadedField(v)
		if f != fNeg {
			return
		}
		reads++
		t, has := cleared[base]
		if !has || !dominates(t, in) {
			lessOK = false
			if why == "" {
				why = "the sign flag read @ " + c.InstrPos(in) + " is not preceded by `if x.Value == 0 { x.Negative = false }` on the same operand"
			}
		}
	})
	if reads == 0 {
		lessOK = false
		why = "Less reads no sign flag"
	}
	// (b) the parser: after the magnitude is stored, a zero magnitude clears the flag
	parseOK := false
	for base, t := range zeroSignCleared(parse, fValue, fNeg) {
		for _, st := range storesToField(parse, fValue) {
			if _, _, b := fieldOf(st.Addr); b == base && dominates(st, t) {
				parseOK = true
			}
		}
	}
	// (c) the other comparisons of two numbers (Equal, …) go through the ordering, or neutralise the sign of a zero
	// themselves: FromFloat, struct literals and arithmetic can all produce a negative zero, whatever ParseInt does
	var sibs []Obligation
	for _, fn := range c.Funcs {
		if fn == less || fn.Signature.Recv() == nil || namedOf(fn.Signature.Recv().Type()) != num || fn.Parent() != nil {
			continue
		}
		sig := fn.Signature
		if sig.Params().Len() != 1 || namedOf(sig.Params().At(0).Type()) != num || sig.Results().Len() != 1 || !isBoolType(sig.Results().At(0).Type()) {
			continue
		}
		con2 := fmt.Sprintf("%s: the sign of a zero magnitude does not take part in the comparison", c.FnName(fn))
		cl := zeroSignCleared(fn, fValue, fNeg)
		bad1 := ""
		n := 0
		eachInstr(fn, func(in ssa.Instruction) {
			v, okv := in.(ssa.Value)
			if !okv {
				return
			}
			_, f, base := loadedField(v)
			if f != fNeg {
				return
			}
			n++
			if t, has := cl[base]; !has || !dominates(t, in) {
				if bad1 == "" {
					bad1 = c.InstrPos(in)
				}
			}
		})
		switch {
		case n == 0:
			sibs = append(sibs, ok(R, con2, c.Pos(fn.Pos()), "reads no sign flag (it is defined through the ordering)"))
		case bad1 == "":
			sibs = append(sibs, ok(R, con2, c.Pos(fn.Pos()), fmt.Sprintf("clears the sign of a zero operand before its %d sign reads", n)))
		default:
			sibs = append(sibs, bad(R, con2, bad1, "the sign flag is compared as it stands: -0 (from FromFloat of a tiny negative float, from arithmetic, from a literal) differs from 0 here although neither is less than the other, so Equal and Less disagree and a range -0..0 prints and compares as two values"))
		}
	}
	switch {
	case lessOK && parseOK:
		return append(sibs, ok(R, con, c.Pos(less.Pos()), fmt.Sprintf("Less clears the sign of a zero operand before its %d sign reads; ParseInt does not record the sign of a zero", reads)))
	case lessOK:
		return append(sibs, ok(R, con, c.Pos(less.Pos()), fmt.Sprintf("Less clears the sign of a zero operand before its %d sign reads", reads)))
	case parseOK && len(cleared) == 0:
		return append(sibs, ok(R, con, c.Pos(parse.Pos()), "ParseInt does not record the sign of a zero (the only producer of a Number from a signed integer text; addQuantum: NUM.NEGZERO)"))
	case parseOK:
		// Less does clear the sign of a zero, but reads a sign before it has: the clearing is in the wrong place
		return append(sibs, bad(R, con, c.Pos(less.Pos()), "Less clears the sign of a zero operand only after it has read a sign flag ("+why+"): for a negative zero — FromFloat of a tiny negative float, arithmetic, a literal — Less(-0, 0) holds and Equal(0, -0) does not, whatever ParseInt does"))
	}
	return append(sibs, bad(R, con, c.Pos(less.Pos()), "neither the ordering nor the integer parser neutralises the sign of a zero: range \"-0..10\" is refused on an unsigned type, \"0..-0\" is out of order ("+why+")"))
}

// ---------------------------------------------------------------- NUM.FRACBOUND

func ruleNumFracBound(c *Ctx) []Obligation {
	const R = "NUM.FRACBOUND"
	num := c.MustNamed("yang", "Number")
	fFD := FieldVar(num, "FractionDigits")
	maxC, _ := c.YangPkg().Scope().Lookup("MaxFractionDigits").(*types.Const)
	if fFD == nil || maxC == nil {
		return []Obligation{undecided(R, "fraction digit counter", "-", "Number.FractionDigits / MaxFractionDigits not found")}
	}
	var max int64
	fmt.Sscan(maxC.Val().ExactString(), &max)
	var obs []Obligation
	for _, fn := range c.Funcs {
		if !c.isRepoFn(fn) || fn.Blocks == nil {
			continue
		}
		for _, st := range storesToField(fn, fFD) {
			phi, isPhi := st.Val.(*ssa.Phi)
			if !isPhi {
				continue
			}
			// a counter: some edge is phi+1
			counted := false
			why := ""
			for _, e := range phi.Edges {
				if k, okk := constInt(e); okk {
					if k > max {
						why = fmt.Sprintf("starts at %d", k)
					}
					continue
				}
				bo, okb := e.(*ssa.BinOp)
				if !okb || bo.Op != token.ADD || bo.X != ssa.Value(phi) {
					continue
				}
				step, oks := constInt(bo.Y)
				if !oks || step != 1 {
					continue
				}
				counted = true
				bounded := false
				for _, g := range guardsAt(bo.Block()) {
					gb, okg := g.Cond.(*ssa.BinOp)
					if !okg || gb.X != ssa.Value(phi) {
						continue
					}
					k, okk := constInt(gb.Y)
					if !okk {
						continue
					}
					switch {
					case gb.Op == token.LSS && g.Branch && k <= max, gb.Op == token.LEQ && g.Branch && k <= max-1,
						gb.Op == token.GEQ && !g.Branch && k <= max, gb.Op == token.GTR && !g.Branch && k <= max-1,
						gb.Op == token.NEQ && g.Branch && k <= max, gb.Op == token.EQL && !g.Branch && k <= max:
						// (≠ K: the counter starts below K — checked on the constant edge — and steps by one)
						bounded = true
					case gb.Op == token.LEQ && g.Branch, gb.Op == token.LSS && g.Branch, gb.Op == token.GTR && !g.Branch, gb.Op == token.GEQ && !g.Branch:
						why = fmt.Sprintf("the counter is incremented while it is %s %d, so it can reach %d: a Number with more than %d fraction digits cannot be printed (slice bounds out of range in String)", gb.Op, k, map[bool]int64{true: k + 1, false: k}[gb.Op == token.LEQ || gb.Op == token.GTR], max)
					}
				}
				if !bounded && why == "" {
					why = "the counter is incremented without a test against the maximum"
				}
				if bounded {
					why = ""
				}
			}
			if !counted {
				continue
			}
			con := fmt.Sprintf("%s: the fraction digits counted stay ≤ MaxFractionDigits", c.FnName(fn))
			if why == "" {
				obs = append(obs, ok(R, con, c.InstrPos(st), fmt.Sprintf("incremented only under counter < %d", max)))
			} else {
				obs = append(obs, bad(R, con, c.InstrPos(st), why))
			}
		}
	}
	return obs
}

// floatClampInclusive: FromFloat's clamp tests include the bound itself. The float64 nearest to ±922337203685477580.7/8
// lies outside the decimal64 domain, so a float equal to it must be clamped too: scaled by ten it is 2^63.
func ruleNumFloatClamp(c *Ctx) []Obligation {
	const R = "NUM.FLOATCLAMP"
	fn := c.Fn("yang.FromFloat")
	if fn == nil || len(fn.Params) != 1 {
		return []Obligation{undecided(R, "float conversion", "-", "FromFloat not found")}
	}
	var obs []Obligation
	eachInstr(fn, func(in ssa.Instruction) {
		bo, okb := in.(*ssa.BinOp)
		if !okb || bo.X != ssa.Value(fn.Params[0]) {
			return
		}
		k, okk := bo.Y.(*ssa.Const)
		if !okk || k.Value == nil {
			return
		}
		bt, okt := k.Type().Underlying().(*types.Basic)
		if !okt || bt.Info()&types.IsFloat == 0 {
			return
		}
		// only the tests that lead to a clamped return: a successor returns without further computation on f
		var which string
		switch bo.Op {
		case token.GTR, token.GEQ:
			which = "upper"
		case token.LSS, token.LEQ:
			which = "lower"
		default:
			return
		}
		if kf := k.Float64(); kf > -1e17 && kf < 1e17 {
			return // the sign test
		}
		con := "FromFloat: a float equal to the " + which + " bound is clamped"
		if bo.Op == token.GEQ || bo.Op == token.LEQ {
			obs = append(obs, ok(R, con, c.InstrPos(bo), "the clamp test is "+bo.Op.String()))
		} else {
			obs = append(obs, bad(R, con, c.InstrPos(bo), "the clamp test is strict ("+bo.Op.String()+"): the float64 nearest to the bound lies outside the decimal64 domain, and a float equal to it is scaled to a mantissa of 2^63 — a Number whose printed form ParseDecimal refuses"))
		}
	})
	return obs
}

// ---------------------------------------------------------------- RPC.PART

func ruleRPCPart(c *Ctx) []Obligation {
	const R = "RPC.PART"
	toEntry := c.Fn("yang.ToEntry")
	entry := c.MustNamed("yang", "Entry")
	fRPC := FieldVar(entry, "RPC")
	add := c.Fn("yang.(*Entry).add")
	if toEntry == nil || fRPC == nil || add == nil {
		return []Obligation{undecided(R, "operation statements", "-", "ToEntry / Entry.RPC / (*Entry).add not found")}
	}
	// operation statement types: AST structs with a field of type *Input
	isOp := func(t types.Type) *types.Named {
		p, okp := t.Underlying().(*types.Pointer)
		if !okp {
			return nil
		}
		n := namedOf(p.Elem())
		if n == nil {
			return nil
		}
		st, oks := n.Underlying().(*types.Struct)
		if !oks {
			return nil
		}
		for i := 0; i < st.NumFields(); i++ {
			if typeStr(st.Field(i).Type()) == "*Input" {
				return n
			}
		}
		return nil
	}
	var obs []Obligation
	seen := map[string]bool{}
	c.eachInstrDeep(toEntry, func(in ssa.Instruction) {
		call, okc := in.(*ssa.Call)
		if !okc || call.Call.StaticCallee() != toEntry || len(call.Call.Args) != 1 {
			return
		}
		mi, okm := call.Call.Args[0].(*ssa.MakeInterface)
		if !okm {
			return
		}
		op := isOp(mi.X.Type())
		if op == nil {
			return
		}
		// only conversions whose result is linked into the tree
		var link ssa.Instruction
		for _, r := range *call.Referrers() {
			if ci, okci := r.(*ssa.Call); okci && ci.Call.StaticCallee() == add {
				link = ci
			}
		}
		if link == nil {
			return
		}
		con := fmt.Sprintf("the entry of a %s has an RPC part when it is linked into the tree", strings.ToLower(objName(op.Obj())))
		seen[con] = true
		// if x.RPC == nil { x.RPC = &RPCEntry{} } between the conversion and the link
		okk := false
		for _, st := range storesToField(call.Parent(), fRPC) {
			if _, _, base := fieldOf(st.Addr); base != ssa.Value(call) {
				continue
			}
			if isNilConst(st.Val) {
				continue
			}
			for _, g := range guardsAt(st.Block()) {
				x, isEq, okn := nilTest(g.Cond)
				if !okn || isEq != g.Branch {
					continue
				}
				if _, f, base := loadedField(x); f == fRPC && base == ssa.Value(call) && dominates(g.If, link) {
					okk = true
				}
			}
		}
		if okk {
			obs = append(obs, ok(R, con, c.InstrPos(call), "if x.RPC == nil { x.RPC = &RPCEntry{} } before the entry is added"))
		} else {
			obs = append(obs, bad(R, con, c.InstrPos(call), "the converted entry is linked without making sure it has an RPC part: the path lookup cannot step to (or create) input/output of an operation that writes neither, so a legal augment of …/input is reported as not found"))
		}
	})
	return obs
}

// ---------------------------------------------------------------- TYPE.EQUALFIELDS

var typeEqualExceptions = map[string]string{
	"Name": "the name a type was written with carries no information about its value space (stated in Equal)",
	"Root": "pointer to the built-in type at the root of the derivation; Kind is compared",
}

func ruleTypeEqualFields(c *Ctx) []Obligation {
	const R = "TYPE.EQUALFIELDS"
	eq := c.Fn("yang.(*YangType).Equal")
	yt := c.MustNamed("yang", "YangType")
	if eq == nil {
		return []Obligation{undecided(R, "type equality", "-", "(*YangType).Equal not found")}
	}
	// Equal may hand both operands on to the function that does the comparing (a worker with a memo of the pairs
	// seen, say): follow such a delegation
	for d := 0; d < 3; d++ {
		var next *ssa.Function
		calls := 0
		eachInstr(eq, func(in ssa.Instruction) {
			call, isC := in.(*ssa.Call)
			if !isC {
				return
			}
			cal := call.Call.StaticCallee()
			if cal == nil || !c.isRepoFn(cal) {
				return
			}
			calls++
			a := call.Call.Args
			if len(a) >= 2 && len(cal.Params) >= 2 && isParamN(eq, a[0], 0) && isParamN(eq, a[1], 1) {
				for _, r := range refsOf(call) {
					if _, isR := r.(*ssa.Return); isR {
						next = cal
					}
				}
			}
		})
		if next == nil || calls != 1 || next == eq {
			break
		}
		eq = next
	}
	st := yt.Underlying().(*types.Struct)
	fromRecv, fromParam := map[*types.Var]bool{}, map[*types.Var]bool{}
	c.eachInstrDeep(eq, func(in ssa.Instruction) {
		fa, okf := in.(*ssa.FieldAddr)
		if !okf {
			return
		}
		owner, f, base := fieldOf(fa)
		if owner != yt {
			return
		}
		switch {
		case isParamN(eq, base, 0):
			fromRecv[f] = true
		case isParamN(eq, base, 1):
			fromParam[f] = true
		}
	})
	var obs []Obligation
	for i := 0; i < st.NumFields(); i++ {
		f := st.Field(i)
		con := "Equal compares YangType." + f.Name()
		if why, exc := typeEqualExceptions[f.Name()]; exc {
			if fromRecv[f] && fromParam[f] {
				obs = append(obs, ok(R, con, c.Pos(eq.Pos()), "read from both operands (listed as an exception: no longer needed)"))
			} else {
				obs = append(obs, just(R, con, c.Pos(f.Pos()), why))
			}
			continue
		}
		if fromRecv[f] && fromParam[f] {
			obs = append(obs, ok(R, con, c.Pos(eq.Pos()), "read from both operands"))
		} else {
			obs = append(obs, bad(R, con, c.Pos(f.Pos()), fmt.Sprintf("Equal does not look at %s of both types: two types that differ only there compare equal, and the union resolver drops the second as already listed", f.Name())))
		}
	}
	// the comparers Equal writes for the parts go-cmp cannot look into: equal means every compared table is equal —
	// a result that is an || of comparisons lets one equal table stand for all
	for n, an := range eq.AnonFuncs {
		if an.Signature.Results().Len() != 1 || !isBoolType(an.Signature.Results().At(0).Type()) || len(an.Params) != 2 {
			continue
		}
		con := fmt.Sprintf("Equal: comparer #%d answers equal only if all the parts it compares are equal", n+1)
		verdict := ""
		for _, b := range an.Blocks {
			rt, isR := b.Instrs[len(b.Instrs)-1].(*ssa.Return)
			if !isR || len(rt.Results) != 1 {
				continue
			}
			var orIn func(v ssa.Value, depth int) bool
			orIn = func(v ssa.Value, depth int) bool {
				if depth > 6 {
					return false
				}
				if p, isP := v.(*ssa.Phi); isP {
					if p.Comment == "||" {
						return true
					}
					for _, e := range p.Edges {
						if orIn(e, depth+1) {
							return true
						}
					}
				}
				return false
			}
			if orIn(rt.Results[0], 0) {
				verdict = c.InstrPos(rt)
			}
		}
		if verdict != "" {
			obs = append(obs, bad(R, con, verdict, "the answer is an || of comparisons: two tables that agree in one part and differ in another are called equal"))
		} else {
			obs = append(obs, ok(R, con, c.Pos(an.Pos()), "no || on the way to the answer"))
		}
	}
	return obs
}

// ---------------------------------------------------------------- LEX.PEEKCONSUME

func ruleLexPeekConsume(c *Ctx) []Obligation {
	const R = "LEX.PEEKCONSUME"
	m, why := c.lexModel()
	if m == nil {
		return []Obligation{undecided(R, "lexer model", "-", why)}
	}
	skipTo := c.Fn("yang.(*lexer).skipTo")
	if skipTo == nil || m.peek == nil {
		return []Obligation{undecided(R, "terminator search", "-", "(*lexer).skipTo / peek not found")}
	}
	var obs []Obligation
	for _, fn := range m.states {
		for _, ci := range c.callsTo(fn, skipTo) {
			args := ci.Common().Args
			if len(args) < 2 {
				continue
			}
			term, okt := constString(args[1])
			if !okt || term == "" {
				continue
			}
			first := int64(term[0])
			// the peek whose result selected this branch with the terminator's first rune
			for _, g := range guardsAt(ci.Block()) {
				bo, okb := g.Cond.(*ssa.BinOp)
				if !okb || bo.Op != token.EQL || !g.Branch {
					continue
				}
				pk, okp := bo.X.(*ssa.Call)
				if !okp || pk.Call.StaticCallee() != m.peek {
					continue
				}
				if k, okk := constInt(bo.Y); !okk || k != first {
					continue
				}
				con := fmt.Sprintf("%s: the peeked %q is consumed before the search for %q", c.FnName(fn), rune(first), term)
				consumed := false
				eachInstr(fn, func(in ssa.Instruction) {
					nx, okn := in.(*ssa.Call)
					if okn && nx.Call.StaticCallee() == m.next && dominates(pk, nx) && dominates(nx, ci.(ssa.Instruction)) {
						// and after every other peek: the rune consumed is the one peeked
						consumed = true
					}
				})
				// a peek that itself follows a consuming read (l.next(); l.peek()) needs one more read after it
				if consumed {
					n := 0
					eachInstr(fn, func(in ssa.Instruction) {
						nx, okn := in.(*ssa.Call)
						if okn && nx.Call.StaticCallee() == m.next && dominates(pk, nx) && dominates(nx, ci.(ssa.Instruction)) {
							n++
						}
					})
					obs = append(obs, ok(R, con, c.InstrPos(ci.(ssa.Instruction)), fmt.Sprintf("%d rune read(s) between the peek and the search", n)))
				} else {
					obs = append(obs, bad(R, con, c.InstrPos(ci.(ssa.Instruction)), fmt.Sprintf("the search for %q starts at the rune that was only peeked at: that rune is taken for the first rune of the terminator (a comment written /*/ … */ ends after three characters and the rest of it is read as statements)", term)))
				}
			}
		}
	}
	return obs
}

// ---------------------------------------------------------------- POS.STALELINE

func rulePosStaleLine(c *Ctx) []Obligation {
	const R = "POS.STALELINE"
	m, why := c.lexModel()
	if m == nil {
		return []Obligation{undecided(R, "lexer model", "-", why)}
	}
	errAt := c.Fn("yang.(*lexer).ErrorfAt")
	fLine := FieldVar(m.lexer, "line")
	if errAt == nil || fLine == nil {
		return []Obligation{undecided(R, "lexer error positions", "-", "(*lexer).ErrorfAt / lexer.line not found")}
	}
	var obs []Obligation
	n := 0
	for _, fn := range m.states {
		for _, ci := range c.callsTo(fn, errAt) {
			args := ci.Common().Args
			if len(args) < 3 {
				continue
			}
			ld, okl := args[1].(*ssa.UnOp)
			if !okl {
				continue
			}
			if _, f, _ := loadedField(ld); f != fLine {
				continue
			}
			n++
			con := fmt.Sprintf("%s: error position #%d is read from the cursor before a possible line break is consumed", c.FnName(fn), n)
			site := ci.(ssa.Instruction)
			gs := guardsAt(site.Block())
			notNL := func(v ssa.Value) bool {
				for _, g := range gs {
					bo, okb := g.Cond.(*ssa.BinOp)
					if !okb || bo.X != v {
						continue
					}
					k, okk := constInt(bo.Y)
					if !okk {
						continue
					}
					switch {
					case bo.Op == token.EQL && g.Branch && k != '\n', bo.Op == token.EQL && !g.Branch && k == '\n',
						bo.Op == token.NEQ && g.Branch && k == '\n', bo.Op == token.NEQ && !g.Branch && k != '\n':
						return true
					}
				}
				return false
			}
			stale := ""
			eachInstr(fn, func(in ssa.Instruction) {
				nx, okn := in.(*ssa.Call)
				if !okn || nx.Call.StaticCallee() != m.next || !dominates(nx, ld) {
					return
				}
				if notNL(nx) {
					return
				}
				// a read whose result is not looked at consumes the rune a peek selected the branch with
				if len(*nx.Referrers()) == 0 {
					for _, g := range guardsAt(nx.Block()) {
						bo, okb := g.Cond.(*ssa.BinOp)
						if !okb || bo.Op != token.EQL || !g.Branch {
							continue
						}
						if pk, okp := bo.X.(*ssa.Call); okp && pk.Call.StaticCallee() == m.peek {
							if k, okk := constInt(bo.Y); okk && k != '\n' {
								return
							}
						}
					}
				}
				if stale == "" {
					stale = c.InstrPos(nx)
				}
			})
			if stale == "" {
				obs = append(obs, ok(R, con, c.InstrPos(site), "every rune consumed before the cursor is read is known not to be a line break"))
			} else {
				obs = append(obs, bad(R, con, c.InstrPos(site), "the rune read @ "+stale+" may be a line break, after which the cursor is on the next line at column 0: the error names line+1 and a negative column instead of the offending token (invalid escape: backslash at the end of a line)"))
			}
		}
	}
	return obs
}

// ---------------------------------------------------------------- NS.CARRY

func ruleNsCarry(c *Ctx) []Obligation {
	const R = "NS.CARRY"
	entry := c.MustNamed("yang", "Entry")
	fNS := c.nsField()
	fPrefix := FieldVar(entry, "Prefix")
	fParent := FieldVar(entry, "Parent")
	if fNS == nil || fPrefix == nil || fParent == nil {
		return []Obligation{undecided(R, "stand-in entries", "-", "Entry.namespace / Prefix / Parent not found")}
	}
	var obs []Obligation
	for _, fn := range c.Funcs {
		if !c.isRepoFn(fn) || fn.Blocks == nil {
			continue
		}
		eachInstr(fn, func(in ssa.Instruction) {
			al, oka := in.(*ssa.Alloc)
			if !oka || !al.Heap || namedOf(derefType(al.Type())) != entry {
				return
			}
			// a stand-in: a fresh entry that becomes the parent of an entry x that existed before it
			var wrapped ssa.Value
			for _, st := range storesToField(fn, fParent) {
				_, _, base := fieldOf(st.Addr)
				if base == nil || st.Val != ssa.Value(al) {
					continue
				}
				switch rootOf(base).(type) {
				case *ssa.Alloc, *ssa.Call:
					continue // made here, or handed out fresh by a call (a copy)
				}
				wrapped = base
			}
			if wrapped == nil {
				return
			}
			con := fmt.Sprintf("%s: the entry made to stand for another takes over its namespace stamp", c.FnName(fn))
			carried := false
			for _, st := range storesToField(fn, fNS) {
				if _, _, base := fieldOf(st.Addr); base != ssa.Value(al) {
					continue
				}
				if _, f, src := loadedField(st.Val); f == fNS && src == wrapped {
					carried = true
				}
			}
			// … and its prefix and schema node, which say which module's names the entry is looked up with: an
			// entry whose Node belongs to one module and whose Prefix names another is resolved in the wrong module
			// by every lookup that trusts the prefix
			conP := fmt.Sprintf("%s: the entry made to stand for another takes its prefix from where it takes its node", c.FnName(fn))
			fNode := FieldVar(entry, "Node")
			var nodeFrom, prefixFrom ssa.Value
			for _, st := range storesToField(fn, fNode) {
				if _, _, base := fieldOf(st.Addr); base == ssa.Value(al) {
					// copied, or built from the parts of another entry's node (a Case made of the wrapped node's
					// name, parent and statement)
					operandClosure(st.Val, func(y ssa.Value) {
						if _, f, src := loadedField(y); f == fNode && src != nil && nodeFrom == nil {
							nodeFrom = src
						}
					})
				}
			}
			for _, st := range storesToField(fn, fPrefix) {
				if _, _, base := fieldOf(st.Addr); base == ssa.Value(al) {
					if _, f, src := loadedField(st.Val); f == fPrefix {
						prefixFrom = src
					}
				}
			}
			if nodeFrom != nil {
				switch {
				case prefixFrom == nil:
					obs = append(obs, bad(R, conP, c.InstrPos(al), "the node is taken over from another entry, the prefix is not"))
				case sameObject(nodeFrom, prefixFrom):
					obs = append(obs, ok(R, conP, c.InstrPos(al), "Node and Prefix are copied from the same entry"))
				default:
					obs = append(obs, bad(R, conP, c.InstrPos(al), "Node is copied from one entry and Prefix from another: for a node that another module augmented in, the stand-in carries that module's schema node under the augmented module's prefix, and a lookup that resolves the entry's own prefix through its node ends in the wrong module"))
				}
			}
			// … but not its config: a case has no config statement, it inherits from the choice like any node
			// without one (the wrapped node keeps its own)
			conC := fmt.Sprintf("%s: the entry made to stand for another does not take over its config", c.FnName(fn))
			fConfig := FieldVar(entry, "Config")
			copied := false
			for _, st := range storesToField(fn, fConfig) {
				if _, _, base := fieldOf(st.Addr); base == ssa.Value(al) {
					if _, f, src := loadedField(st.Val); f == fConfig && src != nil && sameObject(src, wrapped) {
						copied = true
					}
				}
			}
			if copied {
				obs = append(obs, bad(R, conC, c.InstrPos(al), "the stand-in copies the config of the entry it wraps: the implicit case of `leaf a { config false; }` reports read-only where the explicit spelling `case a { leaf a { config false; } }` is read-write, and keeps saying so after a deviation changed the leaf"))
			} else {
				obs = append(obs, ok(R, conC, c.InstrPos(al), "no Config store from the wrapped entry"))
			}
			if carried {
				obs = append(obs, ok(R, con, c.InstrPos(al), "namespace: x.namespace, x being the entry it becomes the parent of"))
			} else {
				obs = append(obs, bad(R, con, c.InstrPos(al), "the new entry does not take over the namespace stamp of the entry it wraps: for a node another module augmented in, the stand-in (implicit case) reports the augmented module's namespace and instantiating module while the node itself reports the augmenting module's"))
			}
		})
	}
	return obs
}

func derefType(t types.Type) types.Type {
	if p, ok := t.Underlying().(*types.Pointer); ok {
		return p.Elem()
	}
	return t
}

// ---------------------------------------------------------------- DEV.TABLES

func ruleDevTables(c *Ctx) []Obligation {
	const R = "DEV.TABLES"
	proc := c.Fn("yang.(*Modules).Process")
	apply := c.Fn("yang.(*Entry).ApplyDeviate")
	mods := c.MustNamed("yang", "Modules")
	if proc == nil || apply == nil {
		return []Obligation{undecided(R, "deviation pass", "-", "Process / ApplyDeviate not found")}
	}
	con := "the visited-name table of the deviation pass serves one name space (modules or submodules)"
	type use struct {
		site   ssa.Instruction
		spaces map[string]bool
		pick   ssa.Instruction // where the particular map is picked from a literal list, if so
	}
	tables := map[*ssa.MakeMap][]use{}
	var order []*ssa.MakeMap
	for _, ci := range c.callsToDeep(proc, apply) {
		site := ci.(ssa.Instruction)
		fn := site.Parent()
		var tbl *ssa.MakeMap
		eachInstr(fn, func(in ssa.Instruction) {
			l, okl := in.(*ssa.Lookup)
			if !okl {
				return
			}
			mk, okm := l.X.(*ssa.MakeMap)
			if okm && l.Block().Dominates(site.Block()) && lookupAbsentGuards(l, site) {
				tbl = mk
			}
		})
		if tbl == nil {
			continue
		}
		u := use{site: site, spaces: map[string]bool{}}
		if len(ci.Common().Args) > 0 {
			operandClosure(ci.Common().Args[0], func(x ssa.Value) {
				if owner, f, _ := loadedField(x); owner == mods && f != nil {
					if _, isMap := f.Type().Underlying().(*types.Map); isMap {
						u.spaces[f.Name()] = true
					}
				}
				for _, e := range literalListElems(x) {
					if owner, f, _ := loadedField(e); owner == mods && f != nil {
						u.spaces[f.Name()] = true
						u.pick, _ = x.(ssa.Instruction)
					}
				}
			})
		}
		if _, seen := tables[tbl]; !seen {
			order = append(order, tbl)
		}
		tables[tbl] = append(tables[tbl], u)
	}
	var obs []Obligation
	for _, tbl := range order {
		all := map[string]bool{}
		perPick := true
		for _, u := range tables[tbl] {
			for s := range u.spaces {
				all[s] = true
			}
			if len(u.spaces) > 1 && (u.pick == nil || !dominates(u.pick, tbl)) {
				perPick = false
			}
		}
		if len(tables[tbl]) > 1 && len(all) > 1 {
			perPick = false
		}
		var names []string
		for s := range all {
			names = append(names, s)
		}
		sort.Strings(names)
		switch {
		case len(all) <= 1:
			obs = append(obs, ok(R, con, c.InstrPos(tbl), "one name space: "+strings.Join(names, ", ")))
		case perPick:
			obs = append(obs, ok(R, con, c.InstrPos(tbl), "the table is made anew after one of {"+strings.Join(names, ", ")+"} is picked"))
		default:
			obs = append(obs, bad(R, con, c.InstrPos(tbl), "one table keyed by bare name is shared by {"+strings.Join(names, ", ")+"}: a submodule bearing the name of a loaded module (legal, RFC 7950 5.1) is taken as handled, and its deviations are neither applied nor reported"))
		}
	}
	return obs
}

// operandClosure visits v and everything it is computed from inside its function (all operands, through calls, loads,
// indexing and phis).
func operandClosure(v ssa.Value, visit func(ssa.Value)) {
	seen := map[ssa.Value]bool{}
	var walk func(x ssa.Value)
	walk = func(x ssa.Value) {
		if x == nil || seen[x] {
			return
		}
		seen[x] = true
		visit(x)
		// what was stored into a local (a variadic pack, a literal, a spilled variable)
		if al, isA := x.(*ssa.Alloc); isA {
			for _, r := range *al.Referrers() {
				switch y := r.(type) {
				case *ssa.Store:
					if y.Addr == ssa.Value(al) {
						walk(y.Val)
					}
				case *ssa.IndexAddr, *ssa.FieldAddr:
					for _, rr := range *y.(ssa.Value).Referrers() {
						if st, isS := rr.(*ssa.Store); isS && st.Addr == y.(ssa.Value) {
							walk(st.Val)
						}
					}
				}
			}
		}
		in, ok := x.(ssa.Instruction)
		if !ok {
			// a private helper's parameter is the argument at its call site, a private closure's captured
			// variable the cell of the function that makes it (inline.go)
			if r := resolveArg(x); r != x {
				walk(r)
			}
			return
		}
		for _, op := range in.Operands(nil) {
			if op != nil && *op != nil {
				walk(*op)
			}
		}
	}
	walk(v)
}

// ---------------------------------------------------------------- LINK.PERRUN

func init() {
	register(&Rule{Name: "LINK.PERRUN", Props: []string{"C18", "C05"}, Floor: 2,
		Doc: "the import and include links are state of one run: before every linking pass they are cleared on every module and submodule of the set, linked this time or not",
		Run: ruleLinkPerRun})
}

func ruleLinkPerRun(c *Ctx) []Obligation {
	const R = "LINK.PERRUN"
	inc := c.Fn("yang.(*Modules).include")
	proc := c.Fn("yang.(*Modules).Process")
	if inc == nil || proc == nil {
		return []Obligation{undecided(R, "linker", "-", "(*Modules).include / Process not found")}
	}
	var site ssa.CallInstruction
	var host *ssa.Function
	reach := c.Reach([]*ssa.Function{proc}, nil)
	inside := c.Reach([]*ssa.Function{inc}, nil)
	for _, fn := range c.Funcs {
		if !reach[fn] || fn == inc || inside[fn] || fn.Blocks == nil {
			continue
		}
		for _, ci := range c.callsTo(fn, inc) {
			site, host = ci, fn
		}
	}
	if site == nil {
		return []Obligation{undecided(R, "linker", c.Pos(proc.Pos()), "no call of include under Process")}
	}
	// the retry loop, if linking is repeated (LINK.FIXPOINT decides that it is)
	inner := loopHeaderOf(site.Block())
	var outer *ssa.BasicBlock
	if inner != nil {
		for h := inner.Idom(); h != nil && outer == nil; h = h.Idom() {
			for _, p := range h.Preds {
				if h.Dominates(p) && blockReaches(inner, p, map[*ssa.BasicBlock]bool{h: true}) {
					outer = h
				}
			}
		}
	}
	mods := c.MustNamed("yang", "Modules")
	var obs []Obligation
	for _, tn := range []string{"Import", "Include"} {
		t := c.MustNamed("yang", tn)
		fLink := FieldVar(t, "Module")
		con := fmt.Sprintf("%s.Module is cleared on every module and submodule before each linking pass", tn)
		if fLink == nil {
			obs = append(obs, undecided(R, con, "-", tn+" has no Module field"))
			continue
		}
		spaces := map[string]bool{}
		var at ssa.Instruction
		for _, st := range c.storesToFieldDeep(host, fLink) {
			if !isNilConst(st.Val) {
				continue
			}
			fn := st.Parent()
			eachInstr(fn, func(in ssa.Instruction) {
				r, isR := in.(*ssa.Range)
				if !isR || !r.Block().Dominates(st.Block()) {
					return
				}
				if fn == host {
					// the sweep comes before the pass, inside the retry loop
					before := false
					for _, h := range fn.Blocks {
						if isLoopHeader(h) && h != outer && h != inner && h.Dominates(r.Block()) && h.Dominates(site.Block()) && (outer == nil || outer.Dominates(h)) {
							before = true
						}
					}
					if !before {
						return
					}
				} else if h := c.helpers[fn]; h == nil || len(h.sites) != 1 || !dominates(h.site.(ssa.Instruction), site.(ssa.Instruction)) || outer != nil && !outer.Dominates(h.site.Block()) {
					return
				}
				operandClosure(r.X, func(x ssa.Value) {
					if owner, f, _ := loadedField(x); owner == mods && f != nil {
						if _, isMap := f.Type().Underlying().(*types.Map); isMap {
							spaces[f.Name()] = true
							at = st
						}
					}
					for _, e := range literalListElems(x) {
						if owner, f, _ := loadedField(e); owner == mods && f != nil {
							spaces[f.Name()] = true
							at = st
						}
					}
				})
			})
		}
		switch {
		case spaces["Modules"] && spaces["SubModules"]:
			obs = append(obs, ok(R, con, c.InstrPos(at), "x.Module = nil in a sweep over Modules and SubModules that precedes the pass"))
		case len(spaces) > 0:
			var ns []string
			for s := range spaces {
				ns = append(ns, s)
			}
			obs = append(obs, bad(R, con, c.InstrPos(at), "the links are cleared only in "+strings.Join(ns, ", ")+": a loaded submodule revision that is no longer included (or a module, respectively) keeps the links of an earlier run, so loading in two steps resolves names that loading at once reports as unknown"))
		default:
			obs = append(obs, bad(R, con, c.InstrPos(site.(ssa.Instruction)), "the links are only ever set: a statement that this run does not link (its submodule revision is no longer included, or linking failed before it was reached) keeps the link of an earlier run, so loading in two steps resolves names that loading at once reports as unknown"))
		}
	}
	return obs
}

// ---------------------------------------------------------------- AUG.TARGETKIND, FIND.SUBROOT (hunt/h2/C07)

func init() {
	register(&Rule{Name: "AUG.TARGETKIND", Props: []string{"C07"}, Floor: 3,
		Doc: "an augment is merged only into a target that may have children: not into anydata, anyxml, or the entry of an rpc or action itself",
		Run: ruleAugTargetKind})
	register(&Rule{Name: "FIND.SUBROOT", Props: []string{"C07", "C17"}, Floor: 1,
		Doc: "an absolute path switches to the tree of the module its first step belongs to also when that step has no prefix and the path was written in a submodule",
		Run: ruleFindSubRoot})
}

func ruleAugTargetKind(c *Ctx) []Obligation {
	const R = "AUG.TARGETKIND"
	aug := c.Fn("yang.(*Entry).Augment")
	merge := c.mergeFn()
	entry := c.MustNamed("yang", "Entry")
	fKind, fRPC := FieldVar(entry, "Kind"), FieldVar(entry, "RPC")
	if aug == nil || merge == nil || fKind == nil || fRPC == nil {
		return []Obligation{undecided(R, "augment applier", "-", "Augment / the link function / Entry.Kind / Entry.RPC not found")}
	}
	kindConst := func(name string) (int64, bool) {
		k, _ := c.YangPkg().Scope().Lookup(name).(*types.Const)
		if k == nil {
			return 0, false
		}
		var v int64
		_, err := fmt.Sscan(k.Val().ExactString(), &v)
		return v, err == nil
	}
	var obs []Obligation
	for _, ci := range c.callsToDeep(aug, merge) {
		site := ci.(ssa.Instruction)
		if len(ci.Common().Args) == 0 {
			continue
		}
		target := resolveArg(ci.Common().Args[0])
		// what holds at the merge: the dominating conditions, and — where a condition is a call of one of the repo's
		// own predicates on the target (`if !target.holdsChildren()`) — what that predicate's result implies
		type fact struct {
			Guard
			via *ssa.Call
		}
		var gs []fact
		for _, g := range guardsAtDeep(site.Block()) {
			gs = append(gs, fact{g, nil})
			cond, br := stripNot(g.Cond, g.Branch)
			call, isC := cond.(*ssa.Call)
			if !isC {
				continue
			}
			h := call.Call.StaticCallee()
			if h == nil || !c.isRepoFn(h) || h.Blocks == nil || h.Signature.Results().Len() != 1 || !isBoolType(h.Signature.Results().At(0).Type()) {
				continue
			}
			var rets []*ssa.Return
			eachInstr(h, func(in ssa.Instruction) {
				if r, isR := in.(*ssa.Return); isR {
					rets = append(rets, r)
				}
			})
			if len(rets) != 1 {
				continue
			}
			v := rets[0].Results[0]
			gs = append(gs, fact{Guard{Cond: v, Branch: br}, call})
			for _, eg := range expandPhiGuard(v, br, nil, 0) {
				gs = append(gs, fact{eg, call})
			}
		}
		isTarget := func(base ssa.Value, via *ssa.Call) bool {
			if via == nil {
				return sameObject(base, target)
			}
			h := via.Call.StaticCallee()
			for k := range h.Params {
				if isParamN(h, base, k) && k < len(via.Call.Args) && sameObject(via.Call.Args[k], target) {
					return true
				}
			}
			return false
		}
		excludedKind := func(k int64) bool {
			for _, g := range gs {
				bo, okb := g.Cond.(*ssa.BinOp)
				if !okb {
					continue
				}
				_, f, base := loadedField(bo.X)
				if f != fKind || !isTarget(base, g.via) {
					continue
				}
				kv, okk := constInt(bo.Y)
				if !okk || kv != k {
					continue
				}
				if bo.Op == token.EQL && !g.Branch || bo.Op == token.NEQ && g.Branch {
					return true
				}
			}
			return false
		}
		for _, kn := range []string{"AnyDataEntry", "AnyXMLEntry"} {
			con := fmt.Sprintf("Augment: nothing is merged into a target of kind %s", kn)
			k, okk := kindConst(kn)
			switch {
			case !okk:
				obs = append(obs, undecided(R, con, c.InstrPos(site), "kind constant not found"))
			case excludedKind(k):
				obs = append(obs, ok(R, con, c.InstrPos(site), "the merge is reached only with target.Kind != "+kn))
			default:
				obs = append(obs, bad(R, con, c.InstrPos(site), "the only test before the merge is that the target has a directory, and entries of this kind are built with an empty one: the augment is accepted silently and the node gains children it cannot have (RFC 7950 7.17)"))
			}
		}
		con := "Augment: nothing is merged into the entry of an rpc or action itself"
		rpcOut := false
		for _, g := range gs {
			x, isEq, okn := nilTest(g.Cond)
			if !okn {
				continue
			}
			if _, f, base := loadedField(x); f == fRPC && isTarget(base, g.via) && isEq == g.Branch {
				rpcOut = true
			}
		}
		if rpcOut {
			obs = append(obs, ok(R, con, c.InstrPos(site), "the merge is reached only with target.RPC == nil"))
		} else {
			obs = append(obs, bad(R, con, c.InstrPos(site), "an rpc or action entry has an empty directory of its own, next to input and output: the augment's nodes are grafted there, where no schema path can address them, and nothing is reported"))
		}
	}
	return obs
}

func ruleFindSubRoot(c *Ctx) []Obligation {
	const R = "FIND.SUBROOT"
	find := c.Fn("yang.(*Entry).Find")
	fmp := c.Fn("yang.FindModuleByPrefix")
	gp := c.Fn("yang.getPrefix")
	con := "yang.(*Entry).Find: the module switch of an absolute path does not depend on the first step having a prefix"
	if find == nil || fmp == nil || gp == nil {
		return []Obligation{undecided(R, con, "-", "Find / FindModuleByPrefix / getPrefix not found")}
	}
	var obs []Obligation
	for _, ci := range c.callsToDeep(find, fmp) {
		site := ci.(ssa.Instruction)
		if loopHeaderOf(site.Block()) != nil {
			continue // per-step lookups, if any
		}
		// a dominating condition `prefix != ""` (prefix: first result of getPrefix) means an unprefixed path never
		// switches
		only := false
		for _, g := range guardsAtDeep(site.Block()) {
			bo, okb := g.Cond.(*ssa.BinOp)
			if !okb {
				continue
			}
			ex, okx := bo.X.(*ssa.Extract)
			if !okx || ex.Index != 0 {
				continue
			}
			call, okc := ex.Tuple.(*ssa.Call)
			if !okc || call.Call.StaticCallee() != gp {
				continue
			}
			if s, oks := constString(bo.Y); oks && s == "" && (bo.Op == token.NEQ && g.Branch || bo.Op == token.EQL && !g.Branch) {
				only = true
			}
		}
		if only {
			obs = append(obs, bad(R, con, c.InstrPos(site), "the tree of the module is entered only under prefix != \"\": a path written in a submodule without a prefix (augment \"/sc\") is resolved in the submodule's private tree — the augment is grafted onto that copy and never reaches the module, or, when the target is defined in the module itself, is reported as not found"))
		} else {
			obs = append(obs, ok(R, con, c.InstrPos(site), "the switch is also reached without a prefix (context in a submodule)"))
		}
	}
	return obs
}

// ---------------------------------------------------------------- CHOICE.AFTERAUG (hunt/h2/C04)

func init() {
	register(&Rule{Name: "CHOICE.AFTERAUG", Props: []string{"C04", "C07"}, Floor: 2,
		Doc: "every pass that applies augments is followed by a pass that inserts implicit cases: no augment can leave a non-case member in a choice",
		Run: ruleChoiceAfterAug})
}

func ruleChoiceAfterAug(c *Ctx) []Obligation {
	const R = "CHOICE.AFTERAUG"
	proc := c.Fn("yang.(*Modules).Process")
	fix := c.Fn("yang.(*Entry).FixChoice")
	aug := c.Fn("yang.(*Entry).Augment")
	if proc == nil || fix == nil || aug == nil {
		return []Obligation{undecided(R, "augment passes", "-", "Process / FixChoice / Augment not found")}
	}
	// Augment itself may insert the cases on the target
	selfFix := c.Reach([]*ssa.Function{aug}, nil)[fix]
	after1 := func(a, f ssa.Instruction) bool {
		if a.Parent() != f.Parent() {
			return false
		}
		if a.Block() == f.Block() {
			return dominates(a, f)
		}
		return blockReaches(a.Block(), f.Block(), nil) && !blockReaches(f.Block(), a.Block(), nil)
	}
	// the two calls as Process sees them, when one of them sits in a private helper (inline.go)
	after := func(a, f ssa.Instruction) bool {
		if after1(a, f) {
			return true
		}
		as, fs := liftAll(a, proc, 0), liftAll(f, proc, 0)
		if len(as) == 0 || len(fs) == 0 {
			return false
		}
		for _, la := range as {
			some := false
			for _, lf := range fs {
				if la != lf && after1(la, lf) {
					some = true
				}
			}
			if !some {
				return false
			}
		}
		return true
	}
	fixes := c.callsToDeep(proc, fix)
	var obs []Obligation
	for i, a := range c.callsToDeep(proc, aug) {
		con := fmt.Sprintf("Process: augment pass #%d is followed by a FixChoice pass", i+1)
		followed := selfFix
		for _, f := range fixes {
			if after(a.(ssa.Instruction), f.(ssa.Instruction)) {
				followed = true
			}
		}
		if followed {
			obs = append(obs, ok(R, con, c.InstrPos(a.(ssa.Instruction)), "a FixChoice call lies after the pass on every continuation"))
		} else {
			obs = append(obs, bad(R, con, c.InstrPos(a.(ssa.Instruction)), "augments applied by this pass are never followed by FixChoice: a node such an augment adds to a choice stays a direct child of the choice, without its case (an augment whose path leads through an implicit case is applied only by the pass that reports the remaining augments)"))
		}
	}
	return obs
}

package main

// rules_lex.go: LEX.DELIMS, LEX.PROGRESS, LEX.ESC, PARSE.PUSH, PARSE.PATMODE, PARSE.RET, PARSE.DEPTH, POS.STMT.

import (
	"fmt"
	"go/token"
	"go/types"
	"sort"
	"strings"

	"golang.org/x/tools/go/ssa"
)

func init() {
	register(&Rule{Name: "LEX.DELIMS", Props: []string{"C01", "C02"}, Floor: 2,
		Doc: "unquoted-token delimiters equal RFC 7950 6.1.3 and every delimiter is handled by the ground state",
		Run: ruleLexDelims})
	register(&Rule{Name: "LEX.PROGRESS", Props: []string{"C01", "C16", "C02"}, Floor: 6,
		Doc: "every loop of the lexer and parser consumes input (or a shrinking counter) on each iteration; state cycles consume",
		Run: ruleLexProgress})
	register(&Rule{Name: "LEX.ESC", Props: []string{"C02"}, Floor: 3,
		Doc: "escape table of double-quoted strings equals RFC 7950 6.1.3; other escapes are errors outside pattern mode",
		Run: ruleLexEsc})
	register(&Rule{Name: "PARSE.PUSH", Props: []string{"C02"}, Floor: 1,
		Doc: "tokens pushed back together are listed in reverse read order (LIFO)",
		Run: rulePush})
	register(&Rule{Name: "PARSE.PATMODE", Props: []string{"C02"}, Floor: 1,
		Doc: "pattern mode is switched off before a second token fetch or a return",
		Run: rulePatMode})
	register(&Rule{Name: "PARSE.RET", Props: []string{"C02"}, Floor: 3,
		Doc: "Parse returns (statements,nil) only with an empty error buffer and (nil, non-nil error) otherwise; error exits write to the buffer",
		Run: ruleParseRet})
	register(&Rule{Name: "PARSE.DEPTH", Props: []string{"C02"}, Floor: 2,
		Doc: "brace depth is incremented exactly on '{' and decremented exactly on '}'",
		Run: ruleParseDepth})
	register(&Rule{Name: "POS.STMT", Props: []string{"C16"}, Floor: 5,
		Doc: "a statement's position is its keyword token's, field for field; token positions are the start markers captured after whitespace and before consumption",
		Run: rulePosStmt})
}

const eofRune = 0x7fffffff

type lexModel struct {
	lexer, parser, tokenT, stmtT *types.Named
	ground, unquoted, qstring    *ssa.Function
	next, peek, acceptRun        *ssa.Function
	nextToken                    *ssa.Function
	pNext, pNextStmt             *ssa.Function
	states                       []*ssa.Function
}

func (c *Ctx) lexModel() (*lexModel, string) {
	m := &lexModel{lexer: c.Named("yang", "lexer"), parser: c.Named("yang", "parser"), tokenT: c.Named("yang", "token"), stmtT: c.Named("yang", "Statement")}
	if m.lexer == nil || m.parser == nil || m.tokenT == nil || m.stmtT == nil {
		return nil, "lexer/parser/token types not found"
	}
	stateFnT := c.Named("yang", "stateFn")
	if stateFnT == nil {
		return nil, "stateFn type not found"
	}
	// state functions: package-level functions of signature func(*lexer) stateFn
	for _, fn := range c.Funcs {
		if fn.Parent() != nil || fn.Signature.Recv() != nil {
			continue
		}
		sig := fn.Signature
		if sig.Params().Len() == 1 && sig.Results().Len() == 1 && namedOf(sig.Params().At(0).Type()) == m.lexer && namedOf(sig.Results().At(0).Type()) == stateFnT {
			m.states = append(m.states, fn)
		}
	}
	// the rune reader: the lexer method returning rune that stores to lexer.pos
	fPos := FieldVar(m.lexer, "pos")
	for _, fn := range c.Funcs {
		if recv := fn.Signature.Recv(); recv == nil || namedOf(recv.Type()) != m.lexer {
			continue
		}
		if fn.Signature.Results().Len() == 1 && isRune(fn.Signature.Results().At(0).Type()) && fn.Signature.Params().Len() == 0 {
			if len(storesToField(fn, fPos)) > 0 {
				m.next = fn
			}
		}
	}
	if m.next == nil {
		return nil, "rune reader (method of lexer storing pos and returning rune) not found"
	}
	// peek: rune-returning lexer method that calls next and the undo method
	for _, fn := range c.Funcs {
		if recv := fn.Signature.Recv(); recv == nil || namedOf(recv.Type()) != m.lexer || fn == m.next {
			continue
		}
		if fn.Signature.Results().Len() == 1 && isRune(fn.Signature.Results().At(0).Type()) && len(c.callsTo(fn, m.next)) > 0 {
			m.peek = fn
		}
		if fn.Signature.Params().Len() == 1 && fn.Signature.Results().Len() == 1 && len(c.callsTo(fn, m.next)) > 0 {
			if b, ok := fn.Signature.Params().At(0).Type().Underlying().(*types.Basic); ok && b.Kind() == types.String {
				if rb, ok := fn.Signature.Results().At(0).Type().Underlying().(*types.Basic); ok && rb.Kind() == types.Bool {
					m.acceptRun = fn
				}
			}
		}
	}
	if m.peek == nil {
		// … or one that decodes the rune at the cursor itself and leaves the cursor where it is
		fInput := FieldVar(m.lexer, "input")
		for _, fn := range c.Funcs {
			if recv := fn.Signature.Recv(); recv == nil || namedOf(recv.Type()) != m.lexer || fn == m.next || fn.Blocks == nil {
				continue
			}
			if fn.Signature.Results().Len() != 1 || !isRune(fn.Signature.Results().At(0).Type()) || fn.Signature.Params().Len() != 0 {
				continue
			}
			readsPos, readsInput, writes := false, false, false
			eachInstr(fn, func(in ssa.Instruction) {
				switch x := in.(type) {
				case *ssa.FieldAddr:
					if _, f, _ := fieldOf(x); f == fPos {
						readsPos = true
					} else if f == fInput && fInput != nil {
						readsInput = true
					}
				case *ssa.Store:
					if _, isAl := x.Addr.(*ssa.Alloc); !isAl {
						writes = true
					}
				}
			})
			if readsPos && readsInput && !writes {
				m.peek = fn
			}
		}
	}
	if m.peek == nil {
		return nil, "peek (rune-returning lexer method built on the rune reader) not found"
	}
	// ground: the initial state stored into lexer.state by the constructor
	fState := FieldVar(m.lexer, "state")
	for _, fn := range c.Funcs {
		for _, st := range storesToField(fn, fState) {
			if f := funcValue(st.Val); f != nil {
				if _, isAlloc := rootOf(st.Addr).(*ssa.Alloc); isAlloc {
					m.ground = f
				}
				// … or by a constructor that takes the object from somewhere (a pool) and hands it out
				res := fn.Signature.Results()
				for i := 0; i < res.Len(); i++ {
					if pt, isP := res.At(i).Type().(*types.Pointer); isP && namedOf(pt.Elem()) == m.lexer && m.ground == nil {
						m.ground = f
					}
				}
			}
		}
	}
	if m.ground == nil {
		return nil, "initial lexer state not found"
	}
	// unquoted: a state the ground state returns that compares the peeked rune with ';'
	for _, s := range m.states {
		if s == m.ground {
			continue
		}
		cmps := runeComparisons(s, m.peek, m.next)
		if cmps[';'] {
			m.unquoted = s
		}
		if cmps['\\'] {
			m.qstring = s
		}
	}
	if m.unquoted == nil && m.qstring != nil {
		// the unquoted state may test its delimiters with strings.ContainsRune: it is the remaining state the ground
		// state returns
		eachInstr(m.ground, func(in ssa.Instruction) {
			if r, ok := in.(*ssa.Return); ok && len(r.Results) == 1 {
				if f := funcValue(r.Results[0]); f != nil && f != m.ground && f != m.qstring {
					m.unquoted = f
				}
			}
		})
	}
	if m.unquoted == nil || m.qstring == nil {
		return nil, "unquoted / double-quoted lexer states not identified"
	}
	m.nextToken = c.Fn("yang.(*lexer).NextToken")
	m.pNext = c.Fn("yang.(*parser).next")
	m.pNextStmt = c.Fn("yang.(*parser).nextStatement")
	if m.nextToken == nil || m.pNext == nil || m.pNextStmt == nil {
		return nil, "token fetch functions (lexer.NextToken, parser.next, parser.nextStatement) not found"
	}
	return m, ""
}

func isRune(t types.Type) bool {
	b, ok := t.Underlying().(*types.Basic)
	return ok && b.Kind() == types.Int32
}

func funcValue(v ssa.Value) *ssa.Function {
	switch x := v.(type) {
	case *ssa.Function:
		return x
	case *ssa.ChangeType:
		return funcValue(x.X)
	case *ssa.MakeClosure:
		if f, ok := x.Fn.(*ssa.Function); ok {
			return f
		}
	}
	return nil
}

// runeComparisons: rune constants compared (==) with a result of peek/next in fn.
func runeComparisons(fn *ssa.Function, readers ...*ssa.Function) map[rune]bool {
	out := map[rune]bool{}
	eachInstr(fn, func(in ssa.Instruction) {
		bo, ok := in.(*ssa.BinOp)
		if !ok || bo.Op != token.EQL {
			return
		}
		k, okk := constInt(bo.Y)
		if !okk {
			return
		}
		if isReaderResult(bo.X, readers) {
			out[rune(k)] = true
		}
	})
	return out
}

func isReaderResult(v ssa.Value, readers []*ssa.Function) bool {
	switch x := v.(type) {
	case *ssa.Call:
		for _, r := range readers {
			if x.Call.StaticCallee() == r {
				return true
			}
		}
	case *ssa.Phi:
		for _, e := range x.Edges {
			if !isReaderResult(e, readers) {
				if _, isConst := e.(*ssa.Const); !isConst {
					return false
				}
			}
		}
		return true
	}
	return false
}

func runeSetString(m map[rune]bool) string {
	var rs []int
	for r := range m {
		rs = append(rs, int(r))
	}
	sort.Ints(rs)
	var parts []string
	for _, r := range rs {
		switch {
		case r == eofRune:
			parts = append(parts, "eof")
		case r <= ' ' || r > '~':
			parts = append(parts, fmt.Sprintf("%#x", r))
		default:
			parts = append(parts, fmt.Sprintf("%q", rune(r)))
		}
	}
	return "{" + strings.Join(parts, ",") + "}"
}

func ruleLexDelims(c *Ctx) []Obligation {
	const R = "LEX.DELIMS"
	m, why := c.lexModel()
	if m == nil {
		return []Obligation{undecided(R, "lexer model", "-", why)}
	}
	var obs []Obligation
	// D: runes at which the unquoted state stops (comparison true-edge leads to a return without consuming)
	D := map[rune]bool{}
	eachInstr(m.unquoted, func(in ssa.Instruction) {
		bo, ok2 := in.(*ssa.BinOp)
		if !ok2 || bo.Op != token.EQL {
			return
		}
		k, okk := constInt(bo.Y)
		if !okk || !isReaderResult(bo.X, []*ssa.Function{m.peek, m.next}) {
			return
		}
		for _, r := range *bo.Referrers() {
			if ifi, oki := r.(*ssa.If); oki {
				if terminalReturn(ifi.Block().Succs[0]) != nil {
					D[rune(k)] = true
				}
			}
		}
	})
	// also the strings.ContainsRune(const, c) form
	eachInstr(m.unquoted, func(in ssa.Instruction) {
		call, ok2 := in.(*ssa.Call)
		if ok2 && (calleeIs(call, "strings", "ContainsRune") || calleeIs(call, "strings", "IndexRune")) {
			if s, oks := constString(call.Call.Args[0]); oks {
				for _, r := range s {
					D[r] = true
				}
			}
		}
	})
	want := map[rune]bool{eofRune: true}
	for _, r := range specUnquotedDelims {
		want[r] = true
	}
	pos := c.Pos(m.unquoted.Pos())
	con := "unquoted token ends exactly at RFC 7950 6.1.3 delimiters"
	if runeSetString(D) == runeSetString(want) {
		obs = append(obs, ok(R, con, pos, "D = "+runeSetString(D)))
	} else {
		obs = append(obs, bad(R, con, pos, fmt.Sprintf("the unquoted state stops at %s, RFC 7950 6.1.3 says %s", runeSetString(D), runeSetString(want))))
	}
	// W: whitespace run skipped at the top of the ground state; G: runes the ground state dispatches on
	W := map[rune]bool{}
	if m.acceptRun != nil {
		for _, ci := range c.callsTo(m.ground, m.acceptRun) {
			if s, oks := constString(ci.Common().Args[len(ci.Common().Args)-1]); oks {
				for _, r := range s {
					W[r] = true
				}
			}
		}
	}
	G := runeComparisons(m.ground, m.peek, m.next)
	con = "every unquoted delimiter is consumed by the ground state (no empty-token cycle)"
	var missing []string
	for r := range D {
		if !W[r] && !G[r] {
			missing = append(missing, runeSetString(map[rune]bool{r: true}))
		}
	}
	sort.Strings(missing)
	if len(missing) == 0 {
		obs = append(obs, ok(R, con, c.Pos(m.ground.Pos()), fmt.Sprintf("D ⊆ W ∪ G with W=%s G=%s", runeSetString(W), runeSetString(G))))
	} else {
		obs = append(obs, bad(R, con, c.Pos(m.ground.Pos()), "delimiters "+strings.Join(missing, ",")+" stop the unquoted state but are neither skipped nor dispatched by the ground state: ground → unquoted → ground emits empty tokens forever"))
	}
	// the ground state must return nil (stop) on eof
	con = "ground state stops at end of input"
	okEOF := false
	eachInstr(m.ground, func(in ssa.Instruction) {
		bo, ok2 := in.(*ssa.BinOp)
		if !ok2 || bo.Op != token.EQL {
			return
		}
		if k, okk := constInt(bo.Y); okk && k == eofRune {
			for _, r := range *bo.Referrers() {
				if ifi, oki := r.(*ssa.If); oki {
					if ret := terminalReturn(ifi.Block().Succs[0]); ret != nil && len(ret.Results) == 1 && isNilConst(ret.Results[0]) {
						okEOF = true
					}
				}
			}
		}
	})
	if okEOF {
		obs = append(obs, ok(R, con, c.Pos(m.ground.Pos()), "case eof: return nil"))
	} else {
		obs = append(obs, bad(R, con, c.Pos(m.ground.Pos()), "no `eof → return nil` arm in the ground state"))
	}
	return obs
}

// progressCall: does the instruction make progress through the input?
func (m *lexModel) progressCall(c *Ctx, in ssa.Instruction) bool {
	ci, ok2 := in.(ssa.CallInstruction)
	if !ok2 {
		return false
	}
	com := ci.Common()
	if f := com.StaticCallee(); f != nil {
		switch f {
		case m.next, m.nextToken, m.pNext, m.pNextStmt:
			return true
		}
		// the parser's inner token fetch closure
		if f.Parent() == m.pNext {
			return true
		}
		// a wrapper that fetches on every path (next() → nextToken(false), a closure around the lexer's NextToken)
		return m.consumes(c, f, 0)
	}
	if com.IsInvoke() {
		return false
	}
	// dynamic call of a state function value / closure that fetches tokens
	if n := namedOf(com.Value.Type()); n != nil && objName(n.Obj()) == "stateFn" {
		return true
	}
	callees := c.Callees(ci)
	all := len(callees) > 0
	for _, cal := range callees {
		if cal.Parent() == m.pNext {
			return true
		}
		if !m.consumes(c, cal, 0) {
			all = false
		}
	}
	return all
}

var consumesMemo = map[*ssa.Function]int{} // 1 yes, 2 no, 3 in progress

// consumes: every path from the entry of fn to a return passes a call that consumes input (a wrapper of the
// token or rune fetch consumes as the fetch does).
func (m *lexModel) consumes(c *Ctx, fn *ssa.Function, depth int) bool {
	if fn == nil || fn.Blocks == nil || depth > 4 || !c.isRepoFn(fn) {
		return false
	}
	switch consumesMemo[fn] {
	case 1:
		return true
	case 2, 3:
		return false
	}
	consumesMemo[fn] = 3
	// a function that also gives back what it fetched (peek = next + backup, a parser push-back) makes no net progress
	if fn == m.peek || fn == m.acceptRun {
		consumesMemo[fn] = 2
		return false
	}
	givesBack := false
	eachInstr(fn, func(in ssa.Instruction) {
		if ci, isC := in.(ssa.CallInstruction); isC {
			if f := ci.Common().StaticCallee(); f != nil {
				switch baseName(f) {
				case "backup", "push", "unread":
					givesBack = true
				}
			}
		}
	})
	if givesBack {
		consumesMemo[fn] = 2
		return false
	}
	barrier := map[*ssa.BasicBlock]bool{}
	for _, b := range fn.Blocks {
		for _, in := range b.Instrs {
			ci, isC := in.(ssa.CallInstruction)
			if !isC {
				continue
			}
			if f := ci.Common().StaticCallee(); f != nil {
				switch f {
				case m.next, m.nextToken, m.pNext, m.pNextStmt:
					barrier[b] = true
				default:
					if f != fn && m.consumes(c, f, depth+1) {
						barrier[b] = true
					}
				}
			}
		}
	}
	escapes := false
	seen := map[*ssa.BasicBlock]bool{}
	stack := []*ssa.BasicBlock{fn.Blocks[0]}
	for len(stack) > 0 && !escapes {
		b := stack[len(stack)-1]
		stack = stack[:len(stack)-1]
		if seen[b] || barrier[b] {
			continue
		}
		seen[b] = true
		if _, isR := b.Instrs[len(b.Instrs)-1].(*ssa.Return); isR {
			escapes = true
		}
		stack = append(stack, b.Succs...)
	}
	if escapes {
		consumesMemo[fn] = 2
		return false
	}
	consumesMemo[fn] = 1
	return true
}

func ruleLexProgress(c *Ctx) []Obligation {
	const R = "LEX.PROGRESS"
	m, why := c.lexModel()
	if m == nil {
		return []Obligation{undecided(R, "lexer model", "-", why)}
	}
	var obs []Obligation
	// (c) every loop in lexer/parser functions makes progress on each iteration
	inScope := func(fn *ssa.Function) bool {
		root := fn
		for root.Parent() != nil {
			root = root.Parent()
		}
		if recv := root.Signature.Recv(); recv != nil {
			n := namedOf(recv.Type())
			return n == m.lexer || n == m.parser
		}
		for _, s := range m.states {
			if root == s {
				return true
			}
		}
		return c.FnName(root) == "yang.Parse"
	}
	for _, fn := range c.Funcs {
		if !inScope(fn) {
			continue
		}
		for _, h := range fn.Blocks {
			var backPreds []*ssa.BasicBlock
			for _, p := range h.Preds {
				if h.Dominates(p) {
					backPreds = append(backPreds, p)
				}
			}
			if len(backPreds) == 0 {
				continue
			}
			con := fmt.Sprintf("%s: loop #%d makes progress on every iteration", c.FnName(fn), loopOrdinal(fn, h))
			pos := c.InstrPos(h.Instrs[0])
			// barrier blocks: contain a progress call, a receive, or a decrement of a counter tested by the loop
			barrier := map[*ssa.BasicBlock]bool{}
			witness := ""
			for _, b := range fn.Blocks {
				if !h.Dominates(b) {
					continue
				}
				for _, in := range b.Instrs {
					if m.progressCall(c, in) {
						barrier[b] = true
						if witness == "" {
							witness = "call that consumes input"
						}
					}
					if isShrinkingCounter(in, h) {
						barrier[b] = true
						witness = "strictly decreasing counter bounded by the loop condition"
					}
					if isGrowingCounter(in, h) {
						barrier[b] = true
						witness = "strictly increasing counter tested against a bound fixed outside the loop"
					}
				}
			}
			// range loops over finite collections are fine
			if isRangeLoop(h) {
				o := ok(R, con, pos, "range over a finite collection")
				o.Trivial = true
				obs = append(obs, o)
				continue
			}
			// is there a path h → … → h inside the loop avoiding barriers?
			leak := false
			seen := map[*ssa.BasicBlock]bool{}
			var stack []*ssa.BasicBlock
			if !barrier[h] {
				stack = append(stack, h.Succs...)
			}
			for len(stack) > 0 && !leak {
				b := stack[len(stack)-1]
				stack = stack[:len(stack)-1]
				if b == h {
					leak = true
					break
				}
				if seen[b] || !h.Dominates(b) || barrier[b] {
					continue
				}
				seen[b] = true
				stack = append(stack, b.Succs...)
			}
			if leak {
				if why, okj := jget("progressJustified", progressJustified, con); okj {
					obs = append(obs, just(R, con, pos, why))
				} else {
					obs = append(obs, bad(R, con, pos, "an iteration can complete without consuming a rune or token and without shrinking a bounded counter: the loop may spin forever"))
				}
			} else {
				obs = append(obs, ok(R, con, pos, witness))
			}
		}
	}
	// (b) state graph: edges that do not consume must not form a cycle other than ground ↔ unquoted (discharged by LEX.DELIMS)
	type edge struct{ from, to *ssa.Function }
	nonConsuming := map[edge]bool{}
	for _, s := range m.states {
		eachInstr(s, func(in ssa.Instruction) {
			r, ok2 := in.(*ssa.Return)
			if !ok2 || len(r.Results) != 1 {
				return
			}
			to := funcValue(r.Results[0])
			if to == nil {
				return
			}
			// consuming iff every path entry→return passes a rune reader / skip call
			consumed := true
			seen := map[*ssa.BasicBlock]bool{}
			var walk func(b *ssa.BasicBlock) bool // returns true if return reachable from b avoiding consumers
			walk = func(b *ssa.BasicBlock) bool {
				if seen[b] {
					return false
				}
				seen[b] = true
				for _, x := range b.Instrs {
					if x == ssa.Instruction(r) {
						return true
					}
					if call, okc := x.(*ssa.Call); okc {
						if f := call.Call.StaticCallee(); f == m.next {
							return false
						}
					}
				}
				for _, sx := range b.Succs {
					if walk(sx) {
						return true
					}
				}
				return false
			}
			if walk(s.Blocks[0]) {
				consumed = false
			}
			if !consumed {
				nonConsuming[edge{s, to}] = true
			}
		})
	}
	g := map[*ssa.Function][]*ssa.Function{}
	for e := range nonConsuming {
		if (e.from == m.ground && e.to == m.unquoted) || (e.from == m.unquoted && e.to == m.ground) {
			continue
		}
		g[e.from] = append(g[e.from], e.to)
	}
	con := "lexer state graph: every cycle consumes input"
	if cyc := findCycle(g); cyc != nil {
		var ns []string
		for _, f := range cyc {
			ns = append(ns, c.FnName(f))
		}
		obs = append(obs, bad(R, con, c.Pos(cyc[0].Pos()), "state cycle without a consuming call: "+strings.Join(ns, " → ")))
	} else {
		obs = append(obs, ok(R, con, c.Pos(m.ground.Pos()), fmt.Sprintf("%d states; the only non-consuming cycle is ground ↔ unquoted, which LEX.DELIMS discharges", len(m.states))))
	}
	// ground → unquoted is taken only on a rune that is not a delimiter: the unquoted loop then consumes it (default arm calls the rune reader)
	con = "unquoted state consumes every non-delimiter rune"
	consumes := false
	for _, ci := range c.callsTo(m.unquoted, m.next) {
		if loopHeaderOf(ci.Block()) != nil {
			consumes = true
		}
	}
	if consumes {
		obs = append(obs, ok(R, con, c.Pos(m.unquoted.Pos()), "the loop's fall-through arm calls the rune reader"))
	} else {
		obs = append(obs, bad(R, con, c.Pos(m.unquoted.Pos()), "no rune reader call inside the unquoted loop"))
	}
	return obs
}

var progressJustified = map[string]string{}

func loopOrdinal(fn *ssa.Function, h *ssa.BasicBlock) int {
	n := 0
	for _, b := range fn.Blocks {
		isH := false
		for _, p := range b.Preds {
			if b.Dominates(p) {
				isH = true
			}
		}
		if isH {
			n++
		}
		if b == h {
			return n
		}
	}
	return n
}

func isRangeLoop(h *ssa.BasicBlock) bool {
	for _, in := range h.Instrs {
		switch x := in.(type) {
		case *ssa.Next:
			return true
		case *ssa.Phi:
			if x.Comment == "rangeindex" {
				return true
			}
		}
	}
	return false
}

// isShrinkingCounter: `i = i - 1` feeding a phi at the loop header whose value is tested `> 0` by the loop condition.
// isGrowingCounter: i = i + 1 on a loop-carried i that the loop tests with i < bound (or <=, !=), the bound being
// fixed outside the loop (a value defined before it, or the length of one).
func isGrowingCounter(in ssa.Instruction, h *ssa.BasicBlock) bool {
	bo, ok2 := in.(*ssa.BinOp)
	if !ok2 || bo.Op != token.ADD {
		return false
	}
	if k, okk := constInt(bo.Y); !okk || k != 1 {
		return false
	}
	phi, okp := bo.X.(*ssa.Phi)
	if !okp || phi.Block() != h {
		return false
	}
	outside := func(v ssa.Value) bool {
		if _, isK := v.(*ssa.Const); isK {
			return true
		}
		if _, isP := v.(*ssa.Parameter); isP {
			return true
		}
		in2, isI := v.(ssa.Instruction)
		return isI && in2.Block() != h && !h.Dominates(in2.Block())
	}
	for _, r := range *phi.Referrers() {
		c2, okc := r.(*ssa.BinOp)
		if !okc || c2.X != ssa.Value(phi) || (c2.Op != token.LSS && c2.Op != token.LEQ && c2.Op != token.NEQ) {
			continue
		}
		if outside(c2.Y) {
			return true
		}
		if call, isC := c2.Y.(*ssa.Call); isC {
			if bi, isB := call.Call.Value.(*ssa.Builtin); isB && bi.Name() == "len" && outside(call.Call.Args[0]) {
				return true
			}
		}
	}
	return false
}

func isShrinkingCounter(in ssa.Instruction, h *ssa.BasicBlock) bool {
	bo, ok2 := in.(*ssa.BinOp)
	if !ok2 || bo.Op != token.SUB {
		return false
	}
	if k, okk := constInt(bo.Y); !okk || k != 1 {
		return false
	}
	phi, okp := bo.X.(*ssa.Phi)
	if !okp || phi.Block() != h {
		return false
	}
	// the phi must be compared > 0 (or != 0 / >= 1) to stay in the loop
	for _, r := range *phi.Referrers() {
		if c2, okc := r.(*ssa.BinOp); okc && (c2.Op == token.GTR || c2.Op == token.NEQ || c2.Op == token.GEQ) {
			return true
		}
	}
	return false
}

func ruleLexEsc(c *Ctx) []Obligation {
	const R = "LEX.ESC"
	m, why := c.lexModel()
	if m == nil {
		return []Obligation{undecided(R, "lexer model", "-", why)}
	}
	var obs []Obligation
	q := m.qstring
	pos := c.Pos(q.Pos())
	// the escape reader: a call to the rune reader that is reached only under (first rune == '\\')
	var escCalls []*ssa.Call
	eachInstr(q, func(in ssa.Instruction) {
		call, ok2 := in.(*ssa.Call)
		if !ok2 || call.Call.StaticCallee() != m.next {
			return
		}
		for _, g := range guardsAt(call.Block()) {
			if bo, okb := g.Cond.(*ssa.BinOp); okb && bo.Op == token.EQL && g.Branch {
				if k, okk := constInt(bo.Y); okk && k == '\\' {
					escCalls = append(escCalls, call)
				}
			}
		}
	})
	if len(escCalls) != 1 {
		return []Obligation{undecided(R, "escape reader found", pos, fmt.Sprintf("%d rune reads under a backslash test", len(escCalls)))}
	}
	esc := escCalls[0]
	// escape characters compared
	got := map[rune]bool{}
	var cmps []*ssa.BinOp
	// the region that handles an unknown escape begins where pattern mode is consulted: comparisons of the escaped
	// rune inside it (a line break after the kept backslash) treat the rune as text, they do not define an escape
	var unknownRegion []*ssa.BasicBlock
	if fp := FieldVar(m.lexer, "inPattern"); fp != nil {
		eachInstr(q, func(in ssa.Instruction) {
			if v, okv := in.(ssa.Value); okv {
				if _, fl, _ := loadedField(v); fl == fp {
					unknownRegion = append(unknownRegion, in.Block())
				}
			}
		})
	}
	inUnknown := func(b *ssa.BasicBlock) bool {
		for _, u := range unknownRegion {
			if u.Dominates(b) {
				return true
			}
		}
		return false
	}
	for _, r := range *esc.Referrers() {
		if bo, okb := r.(*ssa.BinOp); okb && bo.Op == token.EQL && !inUnknown(bo.Block()) {
			if k, okk := constInt(bo.Y); okk {
				got[rune(k)] = true
				cmps = append(cmps, bo)
			}
		}
	}
	want := map[rune]bool{}
	for k := range specEscapes {
		want[k] = true
	}
	con := "escape characters are exactly n t \" \\"
	if runeSetString(got) == runeSetString(want) {
		obs = append(obs, ok(R, con, c.InstrPos(esc), runeSetString(got)))
	} else {
		obs = append(obs, bad(R, con, c.InstrPos(esc), fmt.Sprintf("the lexer recognises %s, RFC 7950 6.1.3 defines %s", runeSetString(got), runeSetString(want))))
	}
	// substitution: the appended rune is a phi; on the 'n' edge it is LF, on the 't' edge HT, otherwise the rune itself
	con = "escape substitution table (\\n→LF, \\t→HT, \\\"→\", \\\\→\\)"
	var phi *ssa.Phi
	for _, r := range *esc.Referrers() {
		if p, okp := r.(*ssa.Phi); okp {
			phi = p
		}
	}
	if phi == nil {
		obs = append(obs, undecided(R, con, c.InstrPos(esc), "no phi merging the substituted rune"))
	} else {
		okSub := true
		detail := []string{}
		nConst := 0
		for i, e := range phi.Edges {
			pred := phi.Block().Preds[i]
			which := rune(0)
			for _, bo := range cmps {
				for _, r := range *bo.Referrers() {
					if ifi, oki := r.(*ssa.If); oki && (ifi.Block().Succs[0] == pred || ifi.Block() == pred && ifi.Block().Succs[0] == phi.Block()) {
						k, _ := constInt(bo.Y)
						which = rune(k)
					}
				}
			}
			if k, okk := constInt(e); okk {
				nConst++
				if which == 0 || specEscapes[which] != rune(k) {
					okSub = false
					detail = append(detail, fmt.Sprintf("edge for %q carries %#x", which, k))
				}
			} else if e != ssa.Value(esc) {
				_, isPhi := e.(*ssa.Phi)
				if call, isCall := e.(*ssa.Call); !isPhi && !(isCall && call.Call.StaticCallee() == m.next) {
					okSub = false
					detail = append(detail, "edge carries an unexpected value")
				}
			} else if which == 'n' || which == 't' {
				okSub = false
				detail = append(detail, fmt.Sprintf("\\%c is not substituted", which))
			}
		}
		if okSub && nConst == 2 {
			obs = append(obs, ok(R, con, c.InstrPos(phi), "φ edges: 'n'→0xa, 't'→0x9, others unchanged"))
		} else {
			obs = append(obs, bad(R, con, c.InstrPos(phi), "substitution differs from RFC 7950 6.1.3: "+strings.Join(detail, "; ")))
		}
	}
	// unknown escape → error unless pattern mode
	con = "an unknown escape is an error outside pattern mode"
	fInPat := FieldVar(m.lexer, "inPattern")
	okErr := false
	eachInstr(q, func(in ssa.Instruction) {
		call, ok2 := in.(*ssa.Call)
		if !ok2 {
			return
		}
		f := call.Call.StaticCallee()
		if f == nil || !strings.HasPrefix(f.Name(), "Errorf") {
			return
		}
		// guarded by !inPattern and by all escape comparisons false
		patGuard := false
		for _, g := range guardsAt(call.Block()) {
			cond, br := stripNot(g.Cond, g.Branch)
			if _, fl, _ := loadedField(cond); fl == fInPat && fInPat != nil && !br {
				patGuard = true
			}
		}
		allFalse := 0
		for _, g := range guardsAt(call.Block()) {
			for _, bo := range cmps {
				if g.Cond == ssa.Value(bo) && !g.Branch {
					allFalse++
				}
			}
		}
		// no further condition may narrow the error: guards introduced after the escape was read must be exactly
		// the failed comparisons plus the pattern-mode test
		base := map[*ssa.If]bool{}
		for _, g := range guardsAt(esc.Block()) {
			base[g.If] = true
		}
		extra := map[*ssa.If]bool{}
		for _, g := range guardsAt(call.Block()) {
			if !base[g.If] {
				extra[g.If] = true
			}
		}
		if patGuard && allFalse == len(cmps) && len(cmps) > 0 && len(extra) == len(cmps)+1 {
			okErr = true
		}
	})
	if okErr {
		obs = append(obs, ok(R, con, pos, "error call reached exactly when no escape matched and inPattern is false"))
	} else {
		obs = append(obs, bad(R, con, pos, "no error call guarded by (no escape matched ∧ !inPattern)"))
	}
	return obs
}

func rulePush(c *Ctx) []Obligation {
	const R = "PARSE.PUSH"
	m, why := c.lexModel()
	if m == nil {
		return []Obligation{undecided(R, "lexer model", "-", why)}
	}
	var obs []Obligation
	push := c.Fn("yang.(*parser).push")
	if push == nil {
		return []Obligation{undecided(R, "push-back function", "-", "(*parser).push not found")}
	}
	for _, fn := range c.Funcs {
		for _, ci := range c.callsTo(fn, push) {
			args := ci.Common().Args
			if len(args) < 2 {
				continue
			}
			sl, ok2 := args[1].(*ssa.Slice)
			if !ok2 {
				continue
			}
			a, ok2 := sl.X.(*ssa.Alloc)
			if !ok2 {
				continue
			}
			elems := map[int64]ssa.Value{}
			for _, r := range *a.Referrers() {
				if ia, oki := r.(*ssa.IndexAddr); oki {
					idx, _ := constInt(ia.Index)
					for _, rr := range *ia.Referrers() {
						if st, oks := rr.(*ssa.Store); oks {
							elems[idx] = st.Val
						}
					}
				}
			}
			con := fmt.Sprintf("%s: push of %d token(s)", c.FnName(fn), len(elems))
			pos := c.InstrPos(ci)
			if len(elems) < 2 {
				o := ok(R, con, pos, "single token")
				o.Trivial = true
				obs = append(obs, o)
				continue
			}
			// element i+1 must have been read before element i (LIFO: last listed is returned first)
			good := true
			for i := int64(0); i+1 < int64(len(elems)); i++ {
				a0, ok0 := elems[i].(ssa.Instruction)
				a1, ok1 := elems[i+1].(ssa.Instruction)
				if !ok0 || !ok1 || !dominates(a1, a0) {
					good = false
				}
			}
			if good {
				obs = append(obs, ok(R, con, pos, "listed in reverse read order: the token read first is listed last and so is returned first"))
			} else {
				obs = append(obs, bad(R, con, pos, "tokens are not listed in reverse read order: they would re-enter the stream out of order"))
			}
		}
	}
	return obs
}

func rulePatMode(c *Ctx) []Obligation {
	const R = "PARSE.PATMODE"
	m, why := c.lexModel()
	if m == nil {
		return []Obligation{undecided(R, "lexer model", "-", why)}
	}
	var obs []Obligation
	fInPat := FieldVar(m.lexer, "inPattern")
	if fInPat == nil {
		return []Obligation{undecided(R, "pattern flag", "-", "lexer.inPattern not found")}
	}
	for _, fn := range c.Funcs {
		for _, st := range storesToField(fn, fInPat) {
			if k, okk := st.Val.(*ssa.Const); okk && k.Value != nil && k.Value.String() == "false" {
				continue
			}
			con := fmt.Sprintf("%s: pattern mode switched on", c.FnName(fn))
			pos := c.InstrPos(st)
			// forward search: (block, index, fetches)
			type state struct {
				b *ssa.BasicBlock
				n int
			}
			leak := ""
			seen := map[state]bool{}
			var walk func(b *ssa.BasicBlock, from int, fetches int)
			walk = func(b *ssa.BasicBlock, from int, fetches int) {
				if leak != "" {
					return
				}
				for i := from; i < len(b.Instrs); i++ {
					in := b.Instrs[i]
					if s2, oks := in.(*ssa.Store); oks {
						if _, f2, _ := fieldOf(s2.Addr); f2 == fInPat {
							if k, okk := s2.Val.(*ssa.Const); okk && k.Value != nil && k.Value.String() == "false" {
								return // switched off
							}
						}
					}
					if m.progressCall(c, in) {
						fetches++
						if fetches >= 2 {
							leak = "a second token is fetched while pattern mode is still on"
							return
						}
					}
					if _, isRet := in.(*ssa.Return); isRet {
						leak = "the function returns with pattern mode still on"
						return
					}
				}
				for _, sx := range b.Succs {
					k := state{sx, fetches}
					if !seen[k] {
						seen[k] = true
						walk(sx, 0, fetches)
					}
				}
			}
			walk(st.Block(), instrIndex(st)+1, 0)
			if leak == "" {
				obs = append(obs, ok(R, con, pos, "switched off again before a second token fetch or a return, on every path"))
			} else {
				obs = append(obs, bad(R, con, pos, leak+": escapes in later strings would be read with the pattern rule"))
			}
			// … and not too early: the argument of a pattern may be written as several strings joined by +; the
			// fetch that is made under pattern mode is the fetch of the whole argument, i.e. it contains the join
			tokText := FieldVar(m.tokenT, "Text")
			var joinFn *ssa.Function
			var joinIn ssa.Instruction
			for _, f2 := range c.Funcs {
				if f2.Blocks == nil || !c.isRepoFn(f2) {
					continue
				}
				for _, s3 := range storesToField(f2, tokText) {
					if bo, isB := s3.Val.(*ssa.BinOp); isB && bo.Op == token.ADD {
						_, fx, _ := loadedField(bo.X)
						_, fy, _ := loadedField(bo.Y)
						if fx == tokText && fy == tokText {
							joinFn, joinIn = f2, s3
						}
					}
				}
			}
			if joinFn != nil {
				con2 := fmt.Sprintf("%s: pattern mode stays on while the whole (possibly concatenated) argument is fetched", c.FnName(fn))
				covered := false
				// fetch calls between the switch-on and the switch-off
				var resets []*ssa.Store
				for _, s2 := range storesToField(fn, fInPat) {
					if k, okk := s2.Val.(*ssa.Const); okk && k.Value != nil && k.Value.String() == "false" {
						resets = append(resets, s2)
					}
				}
				eachInstr(fn, func(in ssa.Instruction) {
					ci, isC := in.(ssa.CallInstruction)
					if !isC || !dominates(st, in) {
						return
					}
					for _, r := range resets {
						if dominates(r, in) {
							return // after the switch-off
						}
					}
					for _, cal := range c.Callees(ci) {
						if cal == joinFn || c.Reach([]*ssa.Function{cal}, nil)[joinFn] {
							covered = true
						}
					}
				})
				if joinFn == fn || rootFn(joinFn) == fn {
					afterReset := false
					for _, r := range resets {
						if joinIn.Parent() == fn && dominates(r, joinIn) {
							afterReset = true
						}
					}
					if !afterReset {
						covered = true
					}
				}
				if covered {
					obs = append(obs, ok(R, con2, pos, "the fetch made under pattern mode contains the join of concatenated strings"))
				} else {
					obs = append(obs, bad(R, con2, pos, "pattern mode is switched off before the strings that continue the argument (\"…\" + \"…\") are fetched: a regular-expression escape in a later piece of a concatenated pattern is rejected as an invalid escape"))
				}
			}
		}
	}
	return obs
}

func ruleParseRet(c *Ctx) []Obligation {
	const R = "PARSE.RET"
	m, why := c.lexModel()
	if m == nil {
		return []Obligation{undecided(R, "lexer model", "-", why)}
	}
	var obs []Obligation
	parse := c.MustFn("yang.Parse")
	fErrout := FieldVar(m.parser, "errout")
	fLexErrout := FieldVar(m.lexer, "errout")
	isBufLen := func(v ssa.Value) bool {
		call, ok2 := v.(*ssa.Call)
		if !ok2 || !calleeIs(call, "bytes", "Len") {
			return false
		}
		return derivesFrom(call.Call.Args[0], func(x ssa.Value) bool { return isFieldRef(x, fErrout) })
	}
	eachInstr(parse, func(in ssa.Instruction) {
		r, ok2 := in.(*ssa.Return)
		if !ok2 || len(r.Results) != 2 {
			return
		}
		pos := c.InstrPos(r)
		if isNilConst(r.Results[1]) {
			con := "Parse success return is reached only with an empty error buffer"
			guarded := false
			for _, g := range guardsAt(r.Block()) {
				if bo, okb := g.Cond.(*ssa.BinOp); okb && isBufLen(bo.X) {
					if k, okk := constInt(bo.Y); okk && k == 0 && ((bo.Op == token.EQL && g.Branch) || (bo.Op == token.NEQ && !g.Branch) || (bo.Op == token.GTR && !g.Branch)) {
						guarded = true
					}
				}
			}
			if guarded {
				obs = append(obs, ok(R, con, pos, "dominated by errout.Len() == 0"))
			} else {
				obs = append(obs, bad(R, con, pos, "statements are returned without testing the error buffer"))
			}
			return
		}
		con := "Parse failure return carries no statements and a non-empty error"
		if isNilConst(r.Results[0]) && definitelyNonNilErr(r.Results[1]) {
			obs = append(obs, ok(R, con, pos, "return nil, errors.New(buffer text)"))
		} else {
			obs = append(obs, bad(R, con, pos, "a failing Parse returns statements or a possibly nil error"))
		}
	})
	// lexer errors go to the same buffer
	con := "lexer errors are written to the parser's error buffer"
	okWire := false
	for _, st := range storesToField(parse, fLexErrout) {
		if derivesFrom(st.Val, func(x ssa.Value) bool { return isFieldRef(x, fErrout) }) {
			okWire = true
		}
	}
	if okWire {
		obs = append(obs, ok(R, con, c.Pos(parse.Pos()), "p.lex.errout = p.errout"))
	} else {
		obs = append(obs, bad(R, con, c.Pos(parse.Pos()), "the lexer's error output is not the parser's buffer: lexical errors would not fail Parse"))
	}
	// every error-recovery exit of the statement reader wrote to the buffer
	ignore := c.SSA[modPath+"/pkg/yang"].Var("ignoreMe")
	nRecov := 0
	for _, fn := range []*ssa.Function{m.pNextStmt} {
		eachInstr(fn, func(in ssa.Instruction) {
			r, ok2 := in.(*ssa.Return)
			if !ok2 || len(r.Results) != 1 {
				return
			}
			u, oku := r.Results[0].(*ssa.UnOp)
			if !oku || ignore == nil || u.X != ssa.Value(ignore) {
				return
			}
			nRecov++
			con := fmt.Sprintf("%s: error-recovery return #%d wrote an error", c.FnName(fn), nRecov)
			wrote := false
			eachInstr(fn, func(in2 ssa.Instruction) {
				call, okc := in2.(*ssa.Call)
				if okc && calleeIs(call, "fmt", "Fprintf") && dominates(in2, r) && in2.Block() == r.Block() {
					if derivesFrom(call.Call.Args[0], func(x ssa.Value) bool { return isFieldRef(x, fErrout) }) {
						wrote = true
					}
				}
			})
			if wrote {
				obs = append(obs, ok(R, con, c.InstrPos(r), "Fprintf(p.errout, …) precedes the sentinel return"))
			} else {
				obs = append(obs, bad(R, con, c.InstrPos(r), "the recovery sentinel is returned without recording an error: a malformed text could be accepted"))
			}
		})
	}
	return obs
}

func ruleParseDepth(c *Ctx) []Obligation {
	const R = "PARSE.DEPTH"
	m, why := c.lexModel()
	if m == nil {
		return []Obligation{undecided(R, "lexer model", "-", why)}
	}
	var obs []Obligation
	fDepth := FieldVar(m.parser, "statementDepth")
	if fDepth == nil {
		return []Obligation{undecided(R, "depth counter", "-", "parser.statementDepth not found")}
	}
	inc, dec := 0, 0
	for _, fn := range c.Funcs {
		for _, st := range storesToField(fn, fDepth) {
			bo, okb := st.Val.(*ssa.BinOp)
			con := fmt.Sprintf("%s: depth update", c.FnName(fn))
			pos := c.InstrPos(st)
			if !okb {
				obs = append(obs, bad(R, con, pos, "depth counter is assigned something other than ±1"))
				continue
			}
			k, _ := constInt(bo.Y)
			var wantCode int64
			switch {
			case bo.Op == token.ADD && k == 1:
				wantCode = '{'
				inc++
			case bo.Op == token.SUB && k == 1:
				wantCode = '}'
				dec++
			default:
				obs = append(obs, bad(R, con, pos, "depth counter changes by something other than ±1"))
				continue
			}
			guarded := false
			for _, g := range guardsAt(st.Block()) {
				if b2, ok2 := g.Cond.(*ssa.BinOp); ok2 && b2.Op == token.EQL && g.Branch {
					if kk, okk := constInt(b2.Y); okk && kk == wantCode {
						guarded = true
					}
				}
			}
			con = fmt.Sprintf("%s: depth %s exactly on %q", c.FnName(fn), map[bool]string{true: "incremented", false: "decremented"}[wantCode == '{'], rune(wantCode))
			if guarded {
				obs = append(obs, ok(R, con, pos, "guarded by the token code test"))
			} else {
				obs = append(obs, bad(R, con, pos, "the update is not under the matching brace token test"))
			}
		}
	}
	if inc != 1 || dec != 1 {
		obs = append(obs, bad(R, "one increment and one decrement of the depth counter", "-", fmt.Sprintf("%d increments, %d decrements", inc, dec)))
	}
	return obs
}

func rulePosStmt(c *Ctx) []Obligation {
	const R = "POS.STMT"
	m, why := c.lexModel()
	if m == nil {
		return []Obligation{undecided(R, "lexer model", "-", why)}
	}
	var obs []Obligation
	fn := m.pNextStmt
	// the keyword token: the first token fetch of the statement reader
	var kwTok ssa.Value
	for _, ci := range c.callsTo(fn, m.pNext) {
		if ci.Block() == fn.Blocks[0] {
			kwTok = ci.Value()
		}
	}
	if kwTok == nil {
		return []Obligation{undecided(R, "keyword token", c.Pos(fn.Pos()), "no token fetch in the entry block of the statement reader")}
	}
	pairs := []struct{ sf, tf string }{{"file", "File"}, {"line", "Line"}, {"col", "Col"}, {"Keyword", "Text"}}
	// the Statement literal that receives the keyword (not the hitBrace sentinel)
	var lit *ssa.Alloc
	eachInstr(fn, func(in ssa.Instruction) {
		if a, ok2 := in.(*ssa.Alloc); ok2 && namedOf(a.Type()) == m.stmtT {
			lit = a
		}
	})
	if lit == nil {
		return []Obligation{undecided(R, "statement literal", c.Pos(fn.Pos()), "no Statement allocation in the statement reader")}
	}
	for _, p := range pairs {
		con := fmt.Sprintf("Statement.%s is the keyword token's %s", p.sf, p.tf)
		sf, tf := FieldVar(m.stmtT, p.sf), FieldVar(m.tokenT, p.tf)
		found := false
		good := false
		var at ssa.Instruction
		for _, r := range *lit.Referrers() {
			fa, okf := r.(*ssa.FieldAddr)
			if !okf {
				continue
			}
			if _, f, _ := fieldOf(fa); f != sf {
				continue
			}
			for _, rr := range *fa.Referrers() {
				if st, oks := rr.(*ssa.Store); oks && st.Addr == fa {
					found = true
					at = st
					if _, lf, base := loadedField(st.Val); lf == tf && base == kwTok {
						good = true
					}
				}
			}
		}
		switch {
		case !found:
			obs = append(obs, bad(R, con, c.Pos(fn.Pos()), "the statement literal does not set this field"))
		case good:
			obs = append(obs, ok(R, con, c.InstrPos(at), "copied from the first token fetched (the keyword)"))
		default:
			obs = append(obs, bad(R, con, c.InstrPos(at), "the field is not copied from the same-named field of the keyword token"))
		}
	}
	// token positions: emit copies sline / scol+1 / file
	emit := c.Fn("yang.(*lexer).emitText")
	if emit == nil {
		obs = append(obs, undecided(R, "token emitter", "-", "(*lexer).emitText not found"))
	} else {
		tp := []struct {
			tf, lf string
			plus   int64
		}{{"Line", "sline", 0}, {"Col", "scol", 1}, {"File", "file", 0}}
		for _, p := range tp {
			con := fmt.Sprintf("token.%s is the start marker lexer.%s%s", p.tf, p.lf, map[bool]string{true: "+1", false: ""}[p.plus == 1])
			tf, lf := FieldVar(m.tokenT, p.tf), FieldVar(m.lexer, p.lf)
			good := false
			for _, st := range storesToField(emit, tf) {
				v := st.Val
				if p.plus == 1 {
					if bo, okb := v.(*ssa.BinOp); okb && bo.Op == token.ADD {
						if k, okk := constInt(bo.Y); okk && k == 1 {
							v = bo.X
						} else {
							continue
						}
					} else {
						continue
					}
				}
				if _, f, _ := loadedField(v); f == lf {
					good = true
				}
			}
			if good {
				obs = append(obs, ok(R, con, c.Pos(emit.Pos()), "field-for-field copy"))
			} else {
				obs = append(obs, bad(R, con, c.Pos(emit.Pos()), "the token position is not taken from the start marker"))
			}
		}
	}
	// start markers: stored in the ground state after the whitespace run and before any other rune read
	for _, p := range []struct{ mark, cur string }{{"sline", "line"}, {"scol", "col"}} {
		con := fmt.Sprintf("start marker lexer.%s is captured from lexer.%s after the whitespace run and before the token is read", p.mark, p.cur)
		fm, fc := FieldVar(m.lexer, p.mark), FieldVar(m.lexer, p.cur)
		sts := c.storesToFieldDeep(m.ground, fm)
		if len(sts) != 1 {
			obs = append(obs, bad(R, con, c.Pos(m.ground.Pos()), fmt.Sprintf("%d stores to the marker in the ground state", len(sts))))
			continue
		}
		st := sts[0]
		_, lf, _ := loadedField(st.Val)
		afterWS := false
		if m.acceptRun != nil {
			for _, ci := range c.callsTo(m.ground, m.acceptRun) {
				if dominates(ci, st) {
					afterWS = true
				}
			}
		}
		before := true
		eachInstr(m.ground, func(in ssa.Instruction) {
			call, okc := in.(*ssa.Call)
			if !okc || in == ssa.Instruction(st) {
				return
			}
			f := call.Call.StaticCallee()
			if f == m.next || f == m.peek {
				if !dominates(st, in) {
					before = false
				}
			}
		})
		if lf == fc && afterWS && before {
			obs = append(obs, ok(R, con, c.InstrPos(st), "dominance order: skip whitespace → capture → read"))
		} else {
			obs = append(obs, bad(R, con, c.InstrPos(st), "the marker is not captured between the whitespace run and the first read of the token"))
		}
	}
	// stores to the markers elsewhere would move a token's reported position
	for _, p := range []string{"sline", "scol"} {
		fm := FieldVar(m.lexer, p)
		for _, fn2 := range c.Funcs {
			if fn2 == m.ground || c.inlineRoot(fn2) == m.ground {
				continue // the ground state itself, or a private helper of it (l.markStart())
			}
			for _, st := range storesToField(fn2, fm) {
				if _, isAlloc := rootOf(st.Addr).(*ssa.Alloc); isAlloc {
					continue
				}
				obs = append(obs, bad(R, fmt.Sprintf("%s: writes start marker lexer.%s", c.FnName(fn2), p), c.InstrPos(st), "only the ground state may capture the token start"))
			}
		}
	}
	return obs
}

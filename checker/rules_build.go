package main

// rules_build.go: SCHEMA.CARD (builder closures) and SCHEMA.FLOW (build, Modules.add, Modules.Parse).

import (
	"fmt"
	"go/token"
	"go/types"
	"sort"

	"golang.org/x/tools/go/ssa"
)

func init() {
	register(&Rule{Name: "SCHEMA.CARD", Props: []string{"C03"}, Floor: 6,
		Doc: "single-valued slots refuse a second value; multi-valued slots append in order; name/statement/parent closures store the right operand",
		Run: ruleSchemaCard})
	register(&Rule{Name: "SCHEMA.FLOW", Props: []string{"C03", "C01"}, Floor: 8,
		Doc: "unknown unprefixed keyword → error; prefixed → extension list; required checks on every accepting path; non-module top level rejected",
		Run: ruleSchemaFlow})
}

// resolveSpill: named results are spilled when the function defers; a Return then
// loads them. Find the value last stored to the cell before `at` in the same block.
func resolveSpill(v ssa.Value, at ssa.Instruction) ssa.Value {
	u, ok := v.(*ssa.UnOp)
	if !ok || u.Op != token.MUL {
		return v
	}
	a, ok := u.X.(*ssa.Alloc)
	if !ok {
		return v
	}
	b := at.Block()
	idx := instrIndex(at)
	for i := idx - 1; i >= 0; i-- {
		if st, ok := b.Instrs[i].(*ssa.Store); ok && st.Addr == a {
			return st.Val
		}
	}
	return v
}

// blockReturnsError: following jumps from b we reach a Return whose (spill-resolved) error operand is not nil.
func blockReturnsError(b *ssa.BasicBlock) bool {
	r := terminalReturn(b)
	if r == nil {
		return false
	}
	e := retErrorOperand(r)
	if e == nil {
		return false
	}
	e = resolveSpill(e, r)
	if isNilConst(e) {
		return false
	}
	if definitelyNonNilErr(e) {
		return true
	}
	return knownNonNilByGuard(r, AccessPath(e)) || len(e.Type().String()) > 0 && errGuarded(r, e)
}

// errGuarded: e is an error value tested `e != nil` on a dominating branch.
func errGuarded(at ssa.Instruction, e ssa.Value) bool {
	for _, g := range guardsAt(at.Block()) {
		if x, isEq, ok := nilTest(g.Cond); ok && x == e && isEq != g.Branch {
			return true
		}
	}
	return false
}

func successReturns(fn *ssa.Function) []*ssa.Return {
	var out []*ssa.Return
	eachInstr(fn, func(in ssa.Instruction) {
		r, ok := in.(*ssa.Return)
		if !ok {
			return
		}
		if b := r.Block(); fn.Recover == b {
			return
		}
		e := retErrorOperand(r)
		if e == nil {
			return
		}
		if isNilConst(resolveSpill(e, r)) {
			out = append(out, r)
		}
	})
	return out
}

func reflectCall(v ssa.Value, name string) *ssa.Call {
	c, ok := v.(*ssa.Call)
	if ok && calleeIs(c, "reflect", name) {
		return c
	}
	return nil
}

// isFieldOfElem: v is (reflect.Value).Field((reflect.Value).Elem(x), i).
func isFieldOfElem(v ssa.Value, x ssa.Value) bool {
	f := reflectCall(v, "Field")
	if f == nil || len(f.Call.Args) < 2 {
		return false
	}
	e := reflectCall(f.Call.Args[0], "Elem")
	return e != nil && len(e.Call.Args) >= 1 && e.Call.Args[0] == x
}

func ruleSchemaCard(c *Ctx) []Obligation {
	const R = "SCHEMA.CARD"
	var obs []Obligation
	it := c.Fn("yang.initTypes")
	build := c.Fn("yang.build")
	if it == nil || build == nil {
		return []Obligation{undecided(R, "builder generator present", "-", "yang.initTypes or yang.build not found")}
	}
	nPtr, nSlice, nName, nStmt, nParent, nExt := 0, 0, 0, 0, 0, 0
	for _, cl := range it.AnonFuncs {
		// classify the closure by what it does
		var buildCalls, setCalls, appendCalls, setStringCalls, isNilCalls []*ssa.Call
		eachInstr(cl, func(in ssa.Instruction) {
			call, ok := in.(*ssa.Call)
			if !ok {
				return
			}
			switch {
			case call.Call.StaticCallee() == build:
				buildCalls = append(buildCalls, call)
			case calleeIs(call, "reflect", "Set"):
				setCalls = append(setCalls, call)
			case calleeIs(call, "reflect", "Append"):
				appendCalls = append(appendCalls, call)
			case calleeIs(call, "reflect", "SetString"):
				setStringCalls = append(setStringCalls, call)
			case calleeIs(call, "reflect", "IsNil"):
				isNilCalls = append(isNilCalls, call)
			}
		})
		pos := c.Pos(cl.Pos())
		if len(cl.Params) < 2 {
			continue // descend helper
		}
		stmtP, vP := ssa.Value(cl.Params[0]), ssa.Value(cl.Params[1])
		var pP ssa.Value
		if len(cl.Params) > 2 {
			pP = cl.Params[2]
		}
		switch {
		case len(buildCalls) > 0 && len(appendCalls) == 0:
			// single-valued slot
			nPtr++
			con := "single-valued slot builder refuses a second value"
			if len(setCalls) != 1 || len(buildCalls) != 1 {
				obs = append(obs, undecided(R, con, pos, fmt.Sprintf("%d Set / %d build calls", len(setCalls), len(buildCalls))))
				break
			}
			set := setCalls[0]
			guarded := false
			for _, g := range guardsAt(set.Block()) {
				cond, br := stripNot(g.Cond, g.Branch)
				call, ok := cond.(*ssa.Call)
				if !ok || !calleeIs(call, "reflect", "IsNil") || !br {
					continue
				}
				if len(call.Call.Args) < 1 || !isFieldOfElem(call.Call.Args[0], vP) {
					continue
				}
				// the other branch must return a non-nil error
				other := g.If.Block().Succs[1]
				if !g.Branch {
					// guard holds on false edge of the (possibly negated) cond: other edge is Succs[0]
					other = g.If.Block().Succs[0]
				}
				if g.Branch {
					other = g.If.Block().Succs[1]
				}
				if blockReturnsError(other) {
					guarded = true
				}
			}
			// build must also come after the IsNil test (a rejected duplicate must not register typedefs)
			if guarded && len(set.Call.Args) >= 2 && isFieldOfElem(set.Call.Args[0], vP) && isExtractOf(set.Call.Args[1], buildCalls[0], 0) {
				obs = append(obs, ok(R, con, pos, "Set(field, build result) is reached only when field.IsNil(); the other branch returns an error"))
			} else {
				obs = append(obs, bad(R, con, pos, "the Set of a pointer-kinded field is not guarded by an IsNil test with an error exit: a second occurrence of a single-valued substatement would silently overwrite the first"))
			}
			// parent link: build(stmt, v, types) — the node under construction is the parent of the substatement
			con2 := "single-valued slot builder passes the node under construction as parent"
			if len(buildCalls[0].Call.Args) >= 2 && buildCalls[0].Call.Args[0] == stmtP && buildCalls[0].Call.Args[1] == vP {
				obs = append(obs, ok(R, con2, pos, "build(stmt, v, …)"))
			} else {
				obs = append(obs, bad(R, con2, pos, "build is not called with (substatement, node under construction)"))
			}
		case len(buildCalls) > 0 && len(appendCalls) > 0:
			nSlice++
			con := "multi-valued slot builder appends in source order"
			good := false
			if len(setCalls) == 1 && len(appendCalls) == 1 && len(buildCalls) == 1 {
				set, app := setCalls[0], appendCalls[0]
				if len(set.Call.Args) >= 2 && set.Call.Args[1] == ssa.Value(app) && isFieldOfElem(set.Call.Args[0], vP) &&
					len(app.Call.Args) >= 2 && isFieldOfElem(app.Call.Args[0], vP) && sameReflectField(app.Call.Args[0], set.Call.Args[0]) &&
					variadicHoldsOnly(app.Call.Args[1], func(x ssa.Value) bool { return isExtractOf(x, buildCalls[0], 0) }) {
					good = true
				}
			}
			if good {
				obs = append(obs, ok(R, con, pos, "field.Set(reflect.Append(field, build result))"))
			} else {
				obs = append(obs, bad(R, con, pos, "the stored value is not reflect.Append(old field value, new node): earlier occurrences would be dropped or reordered"))
			}
			con2 := "multi-valued slot builder passes the node under construction as parent"
			if len(buildCalls[0].Call.Args) >= 2 && buildCalls[0].Call.Args[0] == stmtP && buildCalls[0].Call.Args[1] == vP {
				obs = append(obs, ok(R, con2, pos, "build(stmt, v, …)"))
			} else {
				obs = append(obs, bad(R, con2, pos, "build is not called with (substatement, node under construction)"))
			}
		case len(setStringCalls) > 0:
			nName++
			con := "Name slot stores the statement's argument"
			good := false
			for _, s := range setStringCalls {
				if len(s.Call.Args) >= 2 && isFieldOfElem(s.Call.Args[0], vP) {
					if _, f, base := loadedField(s.Call.Args[1]); f != nil && f.Name() == "Argument" && base == stmtP {
						good = true
					}
				}
			}
			if good {
				obs = append(obs, ok(R, con, pos, "SetString(stmt.Argument)"))
			} else {
				obs = append(obs, bad(R, con, pos, "Name slot is not set from stmt.Argument"))
			}
		case len(appendCalls) > 0 && len(buildCalls) == 0:
			nExt++
			con := "extension slot appends the prefixed statement"
			good := false
			if len(setCalls) == 1 && len(appendCalls) == 1 {
				set, app := setCalls[0], appendCalls[0]
				if len(set.Call.Args) >= 2 && set.Call.Args[1] == ssa.Value(app) && isFieldOfElem(set.Call.Args[0], vP) &&
					len(app.Call.Args) >= 2 && sameReflectField(app.Call.Args[0], set.Call.Args[0]) &&
					variadicHoldsOnly(app.Call.Args[1], func(x ssa.Value) bool {
						vo := reflectCall(x, "ValueOf")
						if vo == nil {
							return false
						}
						mi, ok := vo.Call.Args[0].(*ssa.MakeInterface)
						return ok && mi.X == stmtP
					}) {
					good = true
				}
			}
			if good {
				obs = append(obs, ok(R, con, pos, "field.Set(reflect.Append(field, ValueOf(stmt)))"))
			} else {
				obs = append(obs, bad(R, con, pos, "extension statements are not appended to the Ext slot in order"))
			}
		case len(setCalls) == 1:
			set := setCalls[0]
			if len(set.Call.Args) < 2 || !isFieldOfElem(set.Call.Args[0], vP) {
				obs = append(obs, undecided(R, "closure with a Set of unknown shape", pos, "cannot classify"))
				break
			}
			arg := set.Call.Args[1]
			if arg == pP {
				nParent++
				obs = append(obs, ok(R, "Parent slot stores the enclosing node", pos, "Set(p)"))
			} else if vo := reflectCall(arg, "ValueOf"); vo != nil {
				nStmt++
				mi, okm := vo.Call.Args[0].(*ssa.MakeInterface)
				if okm && mi.X == stmtP {
					obs = append(obs, ok(R, "Statement slot stores the statement itself", pos, "Set(ValueOf(stmt))"))
				} else {
					obs = append(obs, bad(R, "Statement slot stores the statement itself", pos, "Set argument is not ValueOf(stmt)"))
				}
			} else {
				obs = append(obs, bad(R, "Parent/Statement slot stores the right operand", pos, "Set argument is neither the parent parameter nor ValueOf(stmt)"))
			}
		}
	}
	for _, k := range []struct {
		n    int
		what string
	}{{nPtr, "single-valued slot builder"}, {nSlice, "multi-valued slot builder"}, {nName, "Name slot closure"}, {nStmt, "Statement slot closure"}, {nParent, "Parent slot closure"}, {nExt, "extension closure"}} {
		if k.n == 0 {
			obs = append(obs, undecided(R, k.what+" exists", c.Pos(it.Pos()), "no closure of this role found in initTypes; the builder's shape changed beyond what this rule understands"))
		}
	}
	return obs
}

func isExtractOf(v ssa.Value, call *ssa.Call, idx int) bool {
	e, ok := v.(*ssa.Extract)
	return ok && e.Tuple == ssa.Value(call) && e.Index == idx
}

// sameReflectField: a and b are both v.Elem().Field(i) for the same v and i (syntactically the same index source).
func sameReflectField(a, b ssa.Value) bool {
	if a == b {
		return true
	}
	fa, fb := reflectCall(a, "Field"), reflectCall(b, "Field")
	if fa == nil || fb == nil {
		return false
	}
	ea, eb := reflectCall(fa.Call.Args[0], "Elem"), reflectCall(fb.Call.Args[0], "Elem")
	if ea == nil || eb == nil || ea.Call.Args[0] != eb.Call.Args[0] {
		return false
	}
	return AccessPath(fa.Call.Args[1]) == AccessPath(fb.Call.Args[1])
}

// variadicHoldsOnly: v is `slice t[:]` of a fresh array whose every element store satisfies pred (≥1 element).
func variadicHoldsOnly(v ssa.Value, pred func(ssa.Value) bool) bool {
	sl, ok := v.(*ssa.Slice)
	if !ok {
		return false
	}
	a, ok := sl.X.(*ssa.Alloc)
	if !ok {
		return false
	}
	n := 0
	for _, r := range *a.Referrers() {
		ia, ok := r.(*ssa.IndexAddr)
		if !ok {
			continue
		}
		for _, rr := range *ia.Referrers() {
			if st, ok := rr.(*ssa.Store); ok && st.Addr == ia {
				if !pred(st.Val) {
					return false
				}
				n++
			}
		}
	}
	return n >= 1
}

// loopHeaderOf returns the header of the innermost natural loop containing b, or nil.
func loopHeaderOf(b *ssa.BasicBlock) *ssa.BasicBlock {
	// the natural loop of a back edge p→h: h and every block that reaches p without passing through h. (Reaching p
	// by leaving the loop and coming round an outer loop does not make a block a member: a block after an inner loop
	// belongs to the outer one.)
	for h := b; h != nil; h = h.Idom() {
		for _, p := range h.Preds {
			if !h.Dominates(p) {
				continue
			}
			if b == h || blockReaches(b, p, map[*ssa.BasicBlock]bool{h: true}) {
				return h
			}
		}
	}
	return nil
}

func ruleSchemaFlow(c *Ctx) []Obligation {
	const R = "SCHEMA.FLOW"
	var obs []Obligation
	build := c.Fn("yang.build")
	ys := c.Named("yang", "yangStatement")
	stT := c.Named("yang", "Statement")
	if build == nil || ys == nil || stT == nil {
		return []Obligation{undecided(R, "AST builder present", "-", "yang.build / yangStatement not found")}
	}
	fFuncs := FieldByType(ys, "map[string]func(*Statement, reflect.Value, reflect.Value, *typeDictionary) error")
	fRequired := FieldByType(ys, "[]string")
	fSReq := FieldByType(ys, "map[string][]string")
	fAddext := FieldByType(ys, "func(*Statement, reflect.Value, reflect.Value) error")
	fKeyword := FieldVar(stT, "Keyword")
	fStatements := FieldByType(stT, "[]*Statement")
	if fFuncs == nil || fRequired == nil || fSReq == nil || fAddext == nil || fKeyword == nil || fStatements == nil {
		return []Obligation{undecided(R, "builder tables present", c.Pos(build.Pos()), "yangStatement fields not identifiable by type")}
	}
	pos := c.Pos(build.Pos())

	// the dispatch lookup: y.funcs[ss.Keyword] with ss an element of stmt.statements
	var dispatch *ssa.Lookup
	eachInstr(build, func(in ssa.Instruction) {
		l, ok := in.(*ssa.Lookup)
		if !ok {
			return
		}
		if _, f, _ := loadedField(l.X); f != fFuncs {
			return
		}
		if derivesFrom(l.Index, func(x ssa.Value) bool { return isFieldRef(x, fStatements) }) && derivesFrom(l.Index, func(x ssa.Value) bool { return isFieldRef(x, fKeyword) }) {
			dispatch = l
		}
	})
	if dispatch == nil {
		return append(obs, undecided(R, "substatement dispatch found", pos, "no lookup of the builder table keyed by a substatement's keyword"))
	}
	header := loopHeaderOf(dispatch.Block())
	if header == nil {
		return append(obs, undecided(R, "substatement loop found", pos, "dispatch is not inside a loop"))
	}
	// the If on dispatch != nil
	var nilIf *ssa.If
	var nilSucc *ssa.BasicBlock
	// the value tested may be the lookup itself or a variable that holds the lookup or nil
	// (fn := table[kw]; if reserved(kw) { fn = nil }; if fn != nil …)
	tested := map[ssa.Value]bool{dispatch: true}
	var refs []ssa.Instruction
	refs = append(refs, *dispatch.Referrers()...)
	for _, r := range *dispatch.Referrers() {
		if phi, isPhi := r.(*ssa.Phi); isPhi {
			only := true
			for _, e := range phi.Edges {
				if e != ssa.Value(dispatch) && !isNilConst(e) {
					only = false
				}
			}
			if only {
				tested[phi] = true
				refs = append(refs, *phi.Referrers()...)
			}
		}
	}
	for _, r := range refs {
		bo, ok := r.(*ssa.BinOp)
		if !ok {
			continue
		}
		if x, isEq, okn := nilTest(bo); okn && tested[x] {
			for _, rr := range *bo.Referrers() {
				if ifi, ok := rr.(*ssa.If); ok {
					nilIf = ifi
					if isEq {
						nilSucc = ifi.Block().Succs[0]
					} else {
						nilSucc = ifi.Block().Succs[1]
					}
				}
			}
		}
	}
	// the builder's own entries: constant keys it looks up itself (Name, Statement, Parent). They are not
	// keywords; a substatement spelled like one must not be dispatched to them.
	{
		fTable := dispatch.X
		_, tf, _ := loadedField(fTable)
		own := map[string]string{}
		eachInstr(build, func(in ssa.Instruction) {
			l, isL := in.(*ssa.Lookup)
			if !isL || l == dispatch {
				return
			}
			if _, lf, _ := loadedField(l.X); lf != tf || tf == nil {
				return
			}
			if k, isK := constString(l.Index); isK {
				own[k] = c.InstrPos(in)
			}
		})
		excluded := map[string]bool{}
		keyPath := AccessPath(dispatch.Index)
		eachInstr(build, func(in ssa.Instruction) {
			bo, isB := in.(*ssa.BinOp)
			if !isB || bo.Op != token.EQL {
				return
			}
			var k string
			var other ssa.Value
			if s, isK := constString(bo.Y); isK {
				k, other = s, bo.X
			} else if s, isK := constString(bo.X); isK {
				k, other = s, bo.Y
			} else {
				return
			}
			if (other == dispatch.Index || AccessPath(other) == keyPath) && header.Dominates(in.Block()) && len(tested) > 1 {
				excluded[k] = true
			}
		})
		var names []string
		for k := range own {
			names = append(names, k)
		}
		sort.Strings(names)
		for _, k := range names {
			con := fmt.Sprintf("the builder's own table entry %q is not reachable as a substatement keyword", k)
			if excluded[k] {
				obs = append(obs, ok(R, con, own[k], "the dispatch variable is set to nil when the substatement's keyword equals this name"))
			} else {
				obs = append(obs, bad(R, con, own[k], "a substatement whose keyword is spelled "+k+" finds the entry that fills the node from the statement itself: it is accepted as a known substatement instead of being rejected as unknown"))
			}
		}
	}
	con := "known keyword: builder call is guarded by a non-nil table entry"
	if nilIf == nil {
		obs = append(obs, bad(R, con, c.InstrPos(dispatch), "the table entry is called without a nil test"))
		return obs
	}
	obs = append(obs, ok(R, con, c.InstrPos(nilIf), "if fn != nil"))

	// addext calls: dynamic calls of a value loaded from yangStatement.addext
	isAddextCall := func(in ssa.Instruction) bool {
		call, ok := in.(*ssa.Call)
		if !ok || call.Call.IsInvoke() || call.Call.StaticCallee() != nil {
			return false
		}
		_, f, _ := loadedField(call.Call.Value)
		return f == fAddext
	}
	// unknown keyword path: from nilSucc, every path must hit an error return or an addext call before the loop header / a success return
	con = "unknown unprefixed keyword leaves the builder through an error return"
	{
		seen := map[*ssa.BasicBlock]bool{}
		stack := []*ssa.BasicBlock{nilSucc}
		var leak string
		nAddext := 0
		for len(stack) > 0 && leak == "" {
			b := stack[len(stack)-1]
			stack = stack[:len(stack)-1]
			if seen[b] {
				continue
			}
			seen[b] = true
			if b == header {
				leak = "a path returns to the substatement loop without recording the statement or an error (statement silently dropped)"
				break
			}
			hasAddext := false
			for _, in := range b.Instrs {
				if isAddextCall(in) {
					hasAddext = true
				}
			}
			if hasAddext {
				nAddext++
				// must be guarded by a "has prefix" test
				if !prefixedGuard(b, fKeyword) {
					leak = "the extension handler is reached without a test that the keyword is prefixed: unknown unprefixed keywords would be filed as extensions"
				}
				continue
			}
			if r, ok := b.Instrs[len(b.Instrs)-1].(*ssa.Return); ok {
				e := retErrorOperand(r)
				if e == nil || isNilConst(resolveSpill(e, r)) {
					leak = "a path returns success for an unknown keyword"
				}
				continue
			}
			stack = append(stack, b.Succs...)
		}
		switch {
		case leak != "":
			obs = append(obs, bad(R, con, c.InstrPos(nilIf), leak))
		case nAddext == 0:
			obs = append(obs, bad(R, "prefixed unknown keyword is stored as an extension", c.InstrPos(nilIf), "no call of the extension handler on the unknown-keyword path"))
			obs = append(obs, ok(R, con, c.InstrPos(nilIf), "every path from fn==nil ends in an error return"))
		default:
			obs = append(obs, ok(R, con, c.InstrPos(nilIf), "every path from fn==nil ends in an error return or the prefixed-extension handler"))
			obs = append(obs, ok(R, "prefixed unknown keyword is stored as an extension", c.InstrPos(nilIf), "extension handler called under a has-prefix test"))
		}
	}

	// found[kw] = true on every iteration
	var foundMap ssa.Value
	eachInstr(build, func(in ssa.Instruction) {
		if mu, ok := in.(*ssa.MapUpdate); ok {
			if _, isMake := mu.Map.(*ssa.MakeMap); isMake && derivesFrom(mu.Key, func(x ssa.Value) bool { return isFieldRef(x, fKeyword) }) {
				if mu.Block() == dispatch.Block() || mu.Block().Dominates(dispatch.Block()) {
					foundMap = mu.Map
				}
			}
		}
	})
	con = "every substatement keyword is recorded as present before dispatch"
	if foundMap == nil {
		obs = append(obs, bad(R, con, pos, "no presence-map update dominating the dispatch; required-substatement checks would misfire"))
		return obs
	}
	obs = append(obs, ok(R, con, pos, "found[ss.Keyword] = true dominates the dispatch"))

	// required checks
	succ := successReturns(build)
	if len(succ) == 0 {
		obs = append(obs, undecided(R, "accepting return found", pos, "no success return in build"))
		return obs
	}
	type chk struct {
		con      string
		field    *types.Var
		viaRange bool // key derives from a map iteration (other-kind loop)
		errOn    bool // which truth value of found[k] leads to the error
	}
	checks := []chk{
		{"missing `required` substatement is rejected on every accepting path", fRequired, false, false},
		{"missing `required=KIND` substatement of the statement's own kind is rejected on every accepting path", fSReq, false, false},
		{"substatement required by the other kind (module vs submodule) is rejected on every accepting path", fSReq, true, true},
	}
	for _, ck := range checks {
		var hit *ssa.Lookup
		c.eachInstrDeep(build, func(in ssa.Instruction) {
			l, ok := in.(*ssa.Lookup)
			if !ok || resolveArg(l.X) != foundMap {
				return
			}
			if !derivesFrom(l.Index, func(x ssa.Value) bool { return isFieldRef(x, ck.field) }) {
				return
			}
			viaRange := derivesFrom(l.Index, func(x ssa.Value) bool { _, isNext := x.(*ssa.Next); return isNext })
			if viaRange != ck.viaRange {
				return
			}
			// find the If that tests this lookup for presence (any of the forms presenceOf knows)
			for _, blk := range l.Parent().Blocks {
				ifi, ok := blk.Instrs[len(blk.Instrs)-1].(*ssa.If)
				if !ok {
					continue
				}
				pl, presentOnTrue, isP := presenceOf(ifi.Cond)
				if !isP || pl != l {
					continue
				}
				// the error is raised when presence == ck.errOn
				errBlk := ifi.Block().Succs[1]
				if presentOnTrue == ck.errOn {
					errBlk = ifi.Block().Succs[0]
				}
				if blockReturnsError(errBlk) {
					// inside a private helper the error must also be passed on by the caller
					if l.Parent() == build {
						hit = l
					} else if h := helperOf(l.Parent()); h != nil && errorPropagated(h.site) {
						hit = l
					}
				}
			}
		})
		if hit == nil {
			obs = append(obs, bad(R, ck.con, pos, "no presence test with an error exit derived from the builder's "+ck.field.Name()+" table"))
			continue
		}
		// must-pass-through: the load of the table field that feeds this check dominates every success return
		var load ssa.Instruction
		backSlice(hit.Index, func(x ssa.Value) bool {
			if isFieldRef(x, ck.field) {
				if in, ok := x.(ssa.Instruction); ok {
					load = in
				}
				return false
			}
			return true
		})
		all := load != nil
		for _, r := range succ {
			if load == nil || !dominates(load, r) {
				all = false
			}
		}
		if all {
			obs = append(obs, ok(R, ck.con, c.InstrPos(hit), "presence test with error exit; its table load dominates every success return"))
		} else {
			obs = append(obs, bad(R, ck.con, c.InstrPos(hit), "some accepting return is not dominated by this check"))
		}
	}
	// the kind-specific own-kind check must look the table up by the statement's own keyword
	// (covered by derivation from sRequired + not via range)

	// ---- Modules.add: only module/submodule kinds are filed
	add := c.Fn("yang.(*Modules).add")
	mods := c.MustNamed("yang", "Modules")
	fMods, fSub := FieldVar(mods, "Modules"), FieldVar(mods, "SubModules")
	con = "a top-level statement that is neither module nor submodule is rejected before any store"
	if add == nil {
		obs = append(obs, undecided(R, con, "-", "(*Modules).add not found"))
	} else {
		// every MapUpdate whose map derives from ms.Modules/ms.SubModules must be unreachable from the entry
		// without passing a successful comparison of Kind() with "module"/"submodule"
		var stores []*ssa.MapUpdate
		eachInstr(add, func(in ssa.Instruction) {
			if mu, ok := in.(*ssa.MapUpdate); ok {
				if derivesFrom(mu.Map, func(x ssa.Value) bool { return isFieldRef(x, fMods) || isFieldRef(x, fSub) }) {
					stores = append(stores, mu)
				}
			}
		})
		if len(stores) == 0 {
			obs = append(obs, undecided(R, con, c.Pos(add.Pos()), "no store into the module maps found in add"))
		}
		// default path: the block reached when kind equals neither constant returns an error
		var kindCmps []*ssa.BinOp
		eachInstr(add, func(in ssa.Instruction) {
			if bo, ok := in.(*ssa.BinOp); ok && bo.Op == token.EQL {
				if s, isc := constString(bo.Y); isc && (s == "module" || s == "submodule") {
					if call, okc := bo.X.(*ssa.Call); okc && invokeName(call) == "Kind" {
						kindCmps = append(kindCmps, bo)
					}
				}
			}
		})
		okDefault := false
		if len(kindCmps) == 2 {
			// the false successor of the last comparison in the chain
			for _, bo := range kindCmps {
				for _, r := range *bo.Referrers() {
					if ifi, ok := r.(*ssa.If); ok {
						f := ifi.Block().Succs[1]
						if blockReturnsError(f) {
							okDefault = true
						}
					}
				}
			}
		}
		storesGuarded := true
		for _, mu := range stores {
			g := false
			for _, gd := range guardsAt(mu.Block()) {
				if bo, ok := gd.Cond.(*ssa.BinOp); ok && gd.Branch {
					for _, k := range kindCmps {
						if k == bo {
							g = true
						}
					}
				}
			}
			// stores after the switch: reachable only through a case arm — the default arm returns
			if !g && !okDefault {
				storesGuarded = false
			}
		}
		if okDefault && storesGuarded && len(stores) > 0 {
			obs = append(obs, ok(R, con, c.Pos(add.Pos()), fmt.Sprintf("Kind() compared with \"module\"/\"submodule\"; the default arm returns an error; %d stores", len(stores))))
		} else if len(stores) > 0 {
			obs = append(obs, bad(R, con, c.Pos(add.Pos()), "the kind switch has no error-returning default before the map stores"))
		}
	}
	return obs
}

// prefixedGuard: block b is reached only under a condition derived from strings.{Split,SplitN,Contains,Index,IndexByte,Cut}
// applied to a statement keyword.
func prefixedGuard(b *ssa.BasicBlock, fKeyword *types.Var) bool {
	for _, g := range guardsAt(b) {
		hit := false
		backSliceCond(g.Cond, func(x ssa.Value) {
			call, ok := x.(*ssa.Call)
			if !ok {
				return
			}
			for _, n := range []string{"Split", "SplitN", "Contains", "Index", "IndexByte", "Cut", "ContainsRune"} {
				if calleeIs(call, "strings", n) && len(call.Call.Args) > 0 &&
					derivesFrom(call.Call.Args[0], func(y ssa.Value) bool { return isFieldRef(y, fKeyword) }) {
					hit = true
				}
			}
		})
		if hit {
			return true
		}
	}
	return false
}

// backSliceCond walks a boolean/arith expression tree (BinOp, UnOp, builtin len, calls) shallowly.
func backSliceCond(v ssa.Value, visit func(ssa.Value)) {
	seen := map[ssa.Value]bool{}
	var walk func(ssa.Value, int)
	walk = func(x ssa.Value, d int) {
		if x == nil || seen[x] || d > 8 {
			return
		}
		seen[x] = true
		visit(x)
		switch y := x.(type) {
		case *ssa.BinOp:
			walk(y.X, d+1)
			walk(y.Y, d+1)
		case *ssa.UnOp:
			walk(y.X, d+1)
		case *ssa.Call:
			if b, ok := y.Call.Value.(*ssa.Builtin); ok && (b.Name() == "len" || b.Name() == "cap") {
				walk(y.Call.Args[0], d+1)
			}
			// a private predicate: what it returns (inline.go)
			if cal := y.Call.StaticCallee(); cal != nil && exactHelper(cal) != nil {
				for _, b := range cal.Blocks {
					if r, isR := b.Instrs[len(b.Instrs)-1].(*ssa.Return); isR && b != cal.Recover {
						for _, res := range r.Results {
							walk(resolveSpill(res, r), d+1)
						}
					}
				}
			}
		case *ssa.Extract:
			walk(y.Tuple, d+1)
		case *ssa.IndexAddr:
			walk(y.X, d+1)
		case *ssa.Index:
			walk(y.X, d+1)
		case *ssa.Phi:
			for _, e := range y.Edges {
				walk(e, d+1)
			}
			// the conditions that select among the edges (a && chain materialised as a phi of constants)
			for _, p := range y.Block().Preds {
				if ifi, isIf := p.Instrs[len(p.Instrs)-1].(*ssa.If); isIf {
					walk(ifi.Cond, d+1)
				}
			}
		}
	}
	walk(v, 0)
}

package main

// inline.go: seeing through private helpers. Extracting a few statements into a helper that has one call site is
// a behaviour-preserving edit; rules that look for a store, a guard or an order of events inside one function would
// lose sight of them. A *private helper* is an unexported, non-recursive repo function with exactly one static
// call site and no use as a value. For such a function the analysis behaves as if it were inlined at that site:
//   - eachInstrDeep / storesToFieldDeep / mapUpdatesOnFieldDeep / callsInDeep also visit the helper's instructions;
//   - dominates(a, b) relates instructions across the call (a before the call ⇒ a before everything in the helper;
//     an instruction on every path of the helper and the call before b ⇒ before b);
//   - guardsAt(block in helper) also yields the guards that hold at the call site;
//   - backSlice continues from a helper's parameter to the argument at its call site, and from the call to the
//     helper's returned values; AccessPath names a helper's parameter by the argument's path.
// Nothing changes for code without such helpers.

import (
	"fmt"
	"os"
	"go/types"
	"unicode"

	"golang.org/x/tools/go/ssa"
)

var curCtx *Ctx

type helperInfo struct {
	site    ssa.CallInstruction   // the first call site
	sites   []ssa.CallInstruction // all call sites: all of them in the same function
	caller  *ssa.Function
	closure *ssa.MakeClosure // for a private closure with captured variables: where it is made
}

func (c *Ctx) buildHelperIndex() {
	c.helpers = map[*ssa.Function]*helperInfo{}
	sites := map[*ssa.Function][]ssa.CallInstruction{}
	asValue := map[*ssa.Function]bool{}
	for _, fn := range c.Funcs {
		eachInstr(fn, func(in ssa.Instruction) {
			ci, isCall := in.(ssa.CallInstruction)
			var callee *ssa.Function
			if isCall {
				callee = ci.Common().StaticCallee()
				if callee != nil {
					sites[callee] = append(sites[callee], ci)
				}
			}
			for _, op := range in.Operands(nil) {
				if f, isF := (*op).(*ssa.Function); isF {
					if isCall && f == callee && *op == ci.Common().Value {
						continue
					}
					asValue[f] = true
				}
			}
		})
	}
	for _, fn := range c.Funcs {
		if fn.Parent() != nil || fn.Blocks == nil || asValue[fn] || len(sites[fn]) == 0 || len(sites[fn]) > 4 {
			continue
		}
		sameCaller := true
		for _, st := range sites[fn] {
			if rootFn(st.Parent()) != rootFn(sites[fn][0].Parent()) {
				sameCaller = false
			}
			if _, isGo := st.(*ssa.Go); isGo {
				sameCaller = false
			}
			if _, isDefer := st.(*ssa.Defer); isDefer {
				sameCaller = false
			}
		}
		if !sameCaller {
			continue
		}
		r := []rune(fn.Name())
		if len(r) == 0 || !unicode.IsLower(r[0]) || fn.Name() == "init" || fn.Name() == "main" {
			continue
		}
		site := sites[fn][0]
		caller := site.Parent()
		if caller == fn || rootFn(caller) == fn {
			continue
		}
		if _, isGo := site.(*ssa.Go); isGo {
			continue
		}
		if _, isDefer := site.(*ssa.Defer); isDefer {
			continue
		}
		c.helpers[fn] = &helperInfo{site: site, sites: sites[fn], caller: caller}
	}
	// private closures: a function literal that is only ever called, directly, from the function that makes it
	// (`file := func(...) {...}; file(a); file(b)`) is a helper written in place. A literal that is stored, passed,
	// returned, deferred, started as a goroutine or reassigned is not.
	for _, fn := range c.Funcs {
		if fn.Parent() == nil || fn.Blocks == nil || len(sites[fn]) == 0 || len(sites[fn]) > 4 {
			continue
		}
		var mc *ssa.MakeClosure
		okUse := true
		made := 0
		eachInstr(fn.Parent(), func(in ssa.Instruction) {
			if m, isM := in.(*ssa.MakeClosure); isM && m.Fn == fn {
				mc = m
				made++
			}
		})
		if made > 1 {
			continue
		}
		if mc != nil {
			for _, r := range *mc.Referrers() {
				call, isCall := r.(*ssa.Call)
				if !isCall || call.Call.Value != mc {
					okUse = false
					break
				}
				for _, a := range call.Call.Args {
					if a == mc {
						okUse = false
					}
				}
			}
		} else if asValue[fn] {
			okUse = false
		}
		if !okUse {
			continue
		}
		for _, st := range sites[fn] {
			if _, isCall := st.(*ssa.Call); !isCall || st.Parent() != fn.Parent() {
				okUse = false
			}
		}
		if !okUse {
			continue
		}
		c.helpers[fn] = &helperInfo{site: sites[fn][0], sites: sites[fn], caller: fn.Parent(), closure: mc}
	}
	defer func() {
		if os.Getenv("VERIF_DEBUG_HELPERS") != "" {
			c.dumpHelpers()
		}
	}()
	// drop helpers on a cycle (a calls b calls a through single sites)
	for fn := range c.helpers {
		seen := map[*ssa.Function]bool{}
		for f := fn; f != nil; {
			if seen[f] {
				delete(c.helpers, fn)
				break
			}
			seen[f] = true
			h := c.helpers[f]
			if h == nil {
				break
			}
			f = rootFn(h.caller)
		}
	}
}

func (c *Ctx) dumpHelpers() {
	for fn, h := range c.helpers {
		fmt.Printf("HELPER %s sites=%d caller=%s closure=%v\n", fn.String(), len(h.sites), h.caller.String(), h.closure != nil)
	}
}

func helperOf(fn *ssa.Function) *helperInfo {
	if curCtx == nil || fn == nil {
		return nil
	}
	if h := curCtx.helpers[fn]; h != nil {
		return h
	}
	return curCtx.helpers[rootFn(fn)]
}

// exactHelper: fn itself is a private helper — a top-level one or a private closure — not merely a function
// literal inside one.
func exactHelper(fn *ssa.Function) *helperInfo {
	if curCtx == nil || fn == nil {
		return nil
	}
	return curCtx.helpers[fn]
}

// liftTo: the instruction of `top` at which `in` (an instruction of top or of a private helper below it) happens;
// nil if `in` is not under top.
func liftTo(in ssa.Instruction, top *ssa.Function) ssa.Instruction {
	for d := 0; d < 6; d++ {
		if in.Parent() == top {
			return in
		}
		h := exactHelper(in.Parent())
		if h == nil {
			return nil
		}
		in = h.site
	}
	return nil
}

// liftAll: every instruction of `top` at which `in` can happen (one per call site of each helper on the way).
func liftAll(in ssa.Instruction, top *ssa.Function, depth int) []ssa.Instruction {
	if in.Parent() == top {
		return []ssa.Instruction{in}
	}
	if depth > 5 {
		return nil
	}
	h := exactHelper(in.Parent())
	if h == nil {
		return nil
	}
	var out []ssa.Instruction
	for _, st := range h.sites {
		l := liftAll(st, top, depth+1)
		if l == nil {
			return nil
		}
		out = append(out, l...)
	}
	return out
}

// onEveryPath: the instruction is executed on every path through its (helper) function that returns normally.
func onEveryPath(in ssa.Instruction) bool {
	fn := in.Parent()
	for _, b := range fn.Blocks {
		if b == fn.Recover {
			continue
		}
		if _, isR := b.Instrs[len(b.Instrs)-1].(*ssa.Return); isR {
			if !(in.Block() == b || in.Block().Dominates(b)) {
				return false
			}
		}
	}
	return true
}

// onEverySuccessPath: the instruction is executed on every path through its function that returns a nil error.
func onEverySuccessPath(in ssa.Instruction) bool {
	fn := in.Parent()
	res := fn.Signature.Results()
	if res.Len() == 0 || !isErrorType(res.At(res.Len()-1).Type()) {
		return false
	}
	n := 0
	for _, b := range fn.Blocks {
		if b == fn.Recover {
			continue
		}
		r, isR := b.Instrs[len(b.Instrs)-1].(*ssa.Return)
		if !isR {
			continue
		}
		_ = r
		if blockReturnsError(b) {
			continue // leaves with an error for certain
		}
		n++
		if !(in.Block() == b || in.Block().Dominates(b)) {
			return false
		}
	}
	return n > 0
}

// helpersUnder: the private helpers called (transitively, depth ≤ 3) from fn.
func (c *Ctx) helpersUnder(fn *ssa.Function) []*ssa.Function {
	var out []*ssa.Function
	var visit func(f *ssa.Function, d int)
	visit = func(f *ssa.Function, d int) {
		if d > 3 {
			return
		}
		for h, info := range c.helpers {
			if rootFn(info.caller) == f {
				out = append(out, h)
				visit(h, d+1)
			}
		}
	}
	visit(fn, 0)
	return out
}

func (c *Ctx) eachInstrDeep(fn *ssa.Function, f func(ssa.Instruction)) {
	eachInstr(fn, f)
	for _, h := range c.helpersUnder(fn) {
		eachInstr(h, f)
	}
}

func (c *Ctx) storesToFieldDeep(fn *ssa.Function, f *types.Var) []*ssa.Store {
	out := storesToField(fn, f)
	for _, h := range c.helpersUnder(fn) {
		out = append(out, storesToField(h, f)...)
	}
	return out
}

func (c *Ctx) mapUpdatesOnFieldDeep(fn *ssa.Function, f *types.Var) []*ssa.MapUpdate {
	out := mapUpdatesOnField(fn, f)
	for _, h := range c.helpersUnder(fn) {
		out = append(out, mapUpdatesOnField(h, f)...)
	}
	return out
}

func (c *Ctx) callsInDeep(fn *ssa.Function, pred func(ssa.CallInstruction) bool) []ssa.CallInstruction {
	out := callsIn(fn, pred)
	for _, h := range c.helpersUnder(fn) {
		out = append(out, callsIn(h, pred)...)
	}
	return out
}

// resolveArg: a private helper's parameter stands for the argument at its only call site.
func resolveArg(v ssa.Value) ssa.Value {
	for d := 0; d < 4; d++ {
		if fv, isFV := v.(*ssa.FreeVar); isFV {
			h := exactHelper(fv.Parent())
			if h == nil || h.closure == nil {
				return v
			}
			idx := -1
			for k, x := range fv.Parent().FreeVars {
				if x == fv {
					idx = k
				}
			}
			if idx < 0 || idx >= len(h.closure.Bindings) {
				return v
			}
			v = h.closure.Bindings[idx]
			continue
		}
		p, isP := v.(*ssa.Parameter)
		if !isP {
			return v
		}
		h := exactHelper(p.Parent())
		if h == nil {
			return v
		}
		idx := paramIndex(p.Parent(), p)
		if idx < 0 || idx >= len(h.site.Common().Args) {
			return v
		}
		v = h.site.Common().Args[idx]
	}
	return v
}

// errorPropagated: the error result of the call is tested and, when non-nil, returned by the caller as its error.
func errorPropagated(site ssa.CallInstruction) bool {
	v := site.Value()
	if v == nil {
		return false
	}
	var errVals []ssa.Value
	if isErrorType(v.Type()) {
		errVals = append(errVals, v)
	}
	for _, r := range refsOf(v) {
		if ex, isE := r.(*ssa.Extract); isE && isErrorType(ex.Type()) {
			errVals = append(errVals, ex)
		}
	}
	for _, ev := range errVals {
		for _, r := range refsOf(ev) {
			bo, isB := r.(*ssa.BinOp)
			if !isB {
				continue
			}
			x, isEq, isT := nilTest(bo)
			if !isT || x != ev {
				continue
			}
			for _, rr := range refsOf(bo) {
				ifi, isIf := rr.(*ssa.If)
				if !isIf {
					continue
				}
				nonNil := ifi.Block().Succs[0]
				if isEq {
					nonNil = ifi.Block().Succs[1]
				}
				if blockReturnsError(nonNil) {
					return true
				}
			}
		}
	}
	return false
}

// inlineRoot: the function a private helper (transitively) belongs to; for other functions, rootFn.
func (c *Ctx) inlineRoot(fn *ssa.Function) *ssa.Function {
	fn = rootFn(fn)
	for d := 0; d < 6; d++ {
		h := c.helpers[fn]
		if h == nil {
			return fn
		}
		fn = rootFn(h.caller)
	}
	return fn
}

// commonInlineRoot: the lowest function that contains all of fns once private helpers are inlined; nil if none.
func (c *Ctx) commonInlineRoot(fns []*ssa.Function) *ssa.Function {
	chain := func(fn *ssa.Function) []*ssa.Function {
		out := []*ssa.Function{rootFn(fn)}
		for d := 0; d < 6; d++ {
			h := c.helpers[out[len(out)-1]]
			if h == nil {
				break
			}
			out = append(out, rootFn(h.caller))
		}
		return out
	}
	if len(fns) == 0 {
		return nil
	}
	first := chain(fns[0])
	for _, cand := range first {
		all := true
		for _, fn := range fns[1:] {
			in := false
			for _, x := range chain(fn) {
				if x == cand {
					in = true
				}
			}
			if !in {
				all = false
			}
		}
		if all {
			return cand
		}
	}
	return nil
}

func (c *Ctx) callsToDeep(fn, target *ssa.Function) []ssa.CallInstruction {
	out := c.callsTo(fn, target)
	for _, h := range c.helpersUnder(fn) {
		if h == target {
			continue
		}
		out = append(out, c.callsTo(h, target)...)
	}
	return out
}

// rootClassDeep: rootClass of v in its own function; a class "p<i>" of a private helper is the class of the
// argument at the helper's call site.
func (c *Ctx) rootClassDeep(v ssa.Value) string {
	fn := valueFn(v)
	if fn == nil {
		return "unknown"
	}
	cl := c.rootClass(fn, v)
	for d := 0; d < 4; d++ {
		var idx int
		if n, _ := fmt.Sscanf(cl, "p%d", &idx); n != 1 {
			return cl
		}
		h := exactHelper(fn)
		if h == nil || len(h.sites) != 1 || idx >= len(h.site.Common().Args) {
			return cl
		}
		fn = h.site.Parent()
		cl = c.rootClass(fn, h.site.Common().Args[idx])
	}
	return cl
}

func valueFn(v ssa.Value) *ssa.Function {
	switch x := v.(type) {
	case ssa.Instruction:
		return x.Parent()
	case *ssa.Parameter:
		return x.Parent()
	case *ssa.FreeVar:
		return x.Parent()
	}
	return nil
}

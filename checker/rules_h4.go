package main

// rules_h4.go: rules written from the fourth bug-hunt wave (hunt/h4, DESIGN §5.2b).

import (
	"fmt"
	"go/token"
	"go/types"
	"strings"

	"golang.org/x/tools/go/ssa"
)

func init() {
	register(&Rule{Name: "FIND.DOTSTEP", Props: []string{"C17", "C07", "C08"}, Floor: 1,
		Doc: "what is left of a path step once its prefix is taken off is a name: a `.` (or `..`, or nothing) there makes the lookup fail — `p:.` is not `stay here`",
		Run: ruleFindDotStep})
	register(&Rule{Name: "FIND.LAZYCTX", Props: []string{"C17", "C07"}, Floor: 1,
		Doc: "an entry the lookup makes on demand without a schema node can itself start an absolute lookup: the node that resolves the first prefix falls back to an ancestor's",
		Run: ruleFindLazyCtx})
	register(&Rule{Name: "DEV.ABSPATH", Props: []string{"C08"}, Floor: 1,
		Doc: "the target of a deviation is looked up only if its path is absolute; a relative path would be resolved, prefixes ignored, in the deviating module's own tree",
		Run: ruleDevAbsPath})
	register(&Rule{Name: "DEF.MANDATORY", Props: []string{"C08"}, Floor: 1,
		Doc: "the effective default of a leaf asks the entry, which deviations change, whether the leaf is mandatory — not the statement the entry was made of",
		Run: ruleDefMandatory})
	register(&Rule{Name: "DEV.PROPKIND", Props: []string{"C08", "C04"}, Floor: 3,
		Doc: "a deviation gives a default, mandatory or units only to a node of a kind that can have it: a test of the target's kind with an error exit precedes the store",
		Run: ruleDevPropKind})
	register(&Rule{Name: "DEV.ERRRETURN", Props: []string{"C04", "C08"}, Floor: 1,
		Doc: "a deviate not-supported whose node is not a child of its parent is an error ApplyDeviate returns; it is not left to the removal helper, which records it on the parent, a node a later deviation may remove",
		Run: ruleDevErrReturn})
	register(&Rule{Name: "AUG.NOTSELF", Props: []string{"C04", "C07"}, Floor: 1,
		Doc: "a node of the augment itself is no target: the lookup result is dropped when the augment is among its ancestors",
		Run: ruleAugNotSelf})
	register(&Rule{Name: "INCL.NOHEADER", Props: []string{"C13", "C12"}, Floor: 1,
		Doc: "the nodes of a submodule are merged from an entry without the submodule's own extensions and extras, which the link function hands on to every child",
		Run: ruleInclNoHeader})
	register(&Rule{Name: "ID.ENTRYLIST", Props: []string{"C11", "C13"}, Floor: 2,
		Doc: "the identity list of a module's entry takes over the identities of the submodules merged into it, and the module's own identities are added to it, not stored over it",
		Run: ruleIDEntryList})
	register(&Rule{Name: "INCL.BELONGS", Props: []string{"C12", "C13"}, Floor: 1,
		Doc: "an include is linked only after the belongs-to of the submodule it names was compared with the including module's (own or belongs-to) name",
		Run: ruleInclBelongs})
	register(&Rule{Name: "FILE.DIRFIRST", Props: []string{"C13", "C05"}, Floor: 1,
		Doc: "the recursive file search looks at all files of a directory before it descends: which file is chosen does not depend on how a subdirectory's name sorts among the file names",
		Run: ruleFileDirFirst})
}

// errorMadeFrom: some block reachable from s (not entering a block of avoid) makes an error value.
func errorMadeFrom(s *ssa.BasicBlock, avoid map[*ssa.BasicBlock]bool) bool {
	seen := map[*ssa.BasicBlock]bool{}
	stack := []*ssa.BasicBlock{s}
	for len(stack) > 0 {
		x := stack[len(stack)-1]
		stack = stack[:len(stack)-1]
		if seen[x] || avoid[x] {
			continue
		}
		seen[x] = true
		for _, in := range x.Instrs {
			if v, isV := in.(ssa.Value); isV && isErrorType(v.Type()) {
				switch in.(type) {
				case *ssa.Call, *ssa.MakeInterface:
					return true
				}
			}
		}
		stack = append(stack, x.Succs...)
	}
	return false
}

// iterationAvoid: the headers of the loops around b — reaching them means the iteration is over.
func iterationAvoid(b *ssa.BasicBlock) map[*ssa.BasicBlock]bool {
	avoid := map[*ssa.BasicBlock]bool{}
	for h := loopHeaderOf(b); h != nil; {
		avoid[h] = true
		if h.Idom() == nil {
			break
		}
		h = loopHeaderOf(h.Idom())
	}
	return avoid
}

// ---------------------------------------------------------------- FIND.DOTSTEP

func ruleFindDotStep(c *Ctx) []Obligation {
	const R = "FIND.DOTSTEP"
	find := c.Fn("yang.(*Entry).Find")
	gp := c.Fn("yang.getPrefix")
	con := "Find: a step that is `.` once its prefix is taken off names nothing"
	if find == nil || gp == nil {
		return []Obligation{undecided(R, con, "-", "Find / getPrefix not found")}
	}
	// comparisons of the name part of a step (second result of getPrefix) with "."
	var obs []Obligation
	n := 0
	c.eachInstrDeep(find, func(in ssa.Instruction) {
		bo, isB := in.(*ssa.BinOp)
		if !isB || bo.Op != token.EQL {
			return
		}
		s, isS := constString(bo.Y)
		if !isS || s != "." {
			return
		}
		stripped := false
		operandClosure(bo.X, func(x ssa.Value) {
			if ex, isE := x.(*ssa.Extract); isE && ex.Index == 1 {
				if call, isC := ex.Tuple.(*ssa.Call); isC && call.Call.StaticCallee() == gp {
					stripped = true
				}
			}
		})
		if !stripped || loopHeaderOf(bo.Block()) == nil {
			return
		}
		n++
		// the true branch ends in `return nil` without assigning the cursor
		var yes *ssa.BasicBlock
		for _, r := range refsOf(bo) {
			if ifi, isIf := r.(*ssa.If); isIf {
				yes = ifi.Block().Succs[0]
			}
		}
		rt := (*ssa.Return)(nil)
		if yes != nil {
			rt = terminalReturn(yes)
		}
		if rt != nil && len(rt.Results) == 1 && isNilConst(resolveSpill(rt.Results[0], rt)) {
			obs = append(obs, ok(R, con, c.InstrPos(bo), "the arm returns nil"))
		} else {
			obs = append(obs, bad(R, con, c.InstrPos(bo), "the arm for a stripped `.` does not fail the lookup: Find(\"/a:c/a:.\") returns /a/c, and an augment or deviation written with such a step is applied to the node before it"))
		}
	})
	if n == 0 {
		// no arm of its own: the name falls through to the child lookup, where "." names no child
		o := ok(R, con, c.Pos(find.Pos()), "no arm treats a stripped `.` specially: it is looked up as a child name and not found")
		obs = append(obs, o)
	}
	return obs
}

// ---------------------------------------------------------------- FIND.LAZYCTX

func ruleFindLazyCtx(c *Ctx) []Obligation {
	const R = "FIND.LAZYCTX"
	find := c.Fn("yang.(*Entry).Find")
	fbp := c.Fn("yang.FindModuleByPrefix")
	m := c.entryModel()
	con := "Find: an entry made on demand without a node can start an absolute lookup"
	if find == nil || fbp == nil {
		return []Obligation{undecided(R, con, "-", "Find / FindModuleByPrefix not found")}
	}
	// entries Find makes (directly or in a private helper / constructor it calls) that get no Node
	nodeless := ""
	check := func(fn *ssa.Function) {
		eachInstr(fn, func(in ssa.Instruction) {
			al, isA := in.(*ssa.Alloc)
			if !isA || !al.Heap || namedOf(derefType(al.Type())) != m.entry || nodeless != "" {
				return
			}
			hasNode := false
			for _, r := range *al.Referrers() {
				if fa, isFA := r.(*ssa.FieldAddr); isFA {
					if _, f, _ := fieldOf(fa); f == m.fNode {
						hasNode = true
					}
				}
			}
			if !hasNode {
				nodeless = c.InstrPos(al)
			}
		})
	}
	check(find)
	for _, h := range c.helpersUnder(find) {
		check(h)
	}
	eachInstr(find, func(in ssa.Instruction) {
		if ci, isC := in.(ssa.CallInstruction); isC {
			if cal := ci.Common().StaticCallee(); cal != nil && c.isRepoFn(cal) && cal != find && c.isConstructor(cal) {
				check(cal)
			}
		}
	})
	if nodeless == "" {
		o := ok(R, con, c.Pos(find.Pos()), "Find makes no entry without a node")
		return []Obligation{o}
	}
	calls := c.callsToDeep(find, fbp)
	if len(calls) != 1 {
		return []Obligation{undecided(R, con, c.Pos(find.Pos()), fmt.Sprintf("%d FindModuleByPrefix calls", len(calls)))}
	}
	ctx := resolveArg(calls[0].Common().Args[0])
	// the context is more than the receiver's own node: some other entry's Node is among what it can be
	fallback := false
	seen := map[ssa.Value]bool{}
	var walk func(v ssa.Value)
	walk = func(v ssa.Value) {
		if v == nil || seen[v] {
			return
		}
		seen[v] = true
		if p, isP := v.(*ssa.Phi); isP {
			for _, e := range p.Edges {
				walk(e)
			}
			return
		}
		for _, r := range helperReturns(v) {
			walk(r)
		}
		if _, f, base := loadedField(v); f == m.fNode && base != nil && !isParamN(find, resolveArg(rootOf(base)), 0) {
			fallback = true
		}
	}
	walk(ctx)
	if fallback {
		return []Obligation{ok(R, con, c.InstrPos(calls[0]), "entries are made without a node ("+nodeless+"), and the node that resolves the first prefix can come from another entry (an ancestor) when the start has none")}
	}
	return []Obligation{bad(R, con, c.InstrPos(calls[0]), "Find makes entries without a schema node ("+nodeless+": the input or output of an rpc or action that writes none) and resolves the first prefix of an absolute path through the node of the entry it starts at only: from such an entry every absolute prefixed path comes back nil, its own included")}
}

// ---------------------------------------------------------------- DEV.ABSPATH

func ruleDevAbsPath(c *Ctx) []Obligation {
	const R = "DEV.ABSPATH"
	m, why := c.devModel()
	con := "ApplyDeviate: the target is looked up only for a path that begins with `/`"
	if m == nil {
		return []Obligation{undecided(R, con, "-", why)}
	}
	guarded := false
	for _, g := range guardsAtDeep(m.find.Block()) {
		cond, br := stripNot(g.Cond, g.Branch)
		call, isC := cond.(*ssa.Call)
		if !isC || !br {
			continue
		}
		if calleeIs(call, "strings", "HasPrefix") && len(call.Call.Args) == 2 {
			if s, isS := constString(call.Call.Args[1]); isS && s == "/" && sameObject(call.Call.Args[0], m.find.Call.Args[len(m.find.Call.Args)-1]) {
				guarded = true
			}
		}
	}
	// or the first byte is compared with '/'
	for _, g := range guardsAtDeep(m.find.Block()) {
		bo, isB := g.Cond.(*ssa.BinOp)
		if !isB {
			continue
		}
		if k, isK := constInt(bo.Y); isK && k == '/' && (bo.Op == token.EQL && g.Branch || bo.Op == token.NEQ && !g.Branch) {
			guarded = true
		}
	}
	if guarded {
		return []Obligation{ok(R, con, c.InstrPos(m.find), "under strings.HasPrefix(path, \"/\")")}
	}
	return []Obligation{bad(R, con, c.InstrPos(m.find), "any path goes to the lookup, which resolves one without a leading slash relative to the deviating module's own root and ignores every prefix: `deviation a:c/a:x { deviate not-supported; }` written in module d removes d's own /c/x, silently")}
}

// ---------------------------------------------------------------- DEF.MANDATORY

func ruleDefMandatory(c *Ctx) []Obligation {
	const R = "DEF.MANDATORY"
	dv := c.Fn("yang.(*Entry).DefaultValues")
	entry := c.MustNamed("yang", "Entry")
	leafT := c.Named("yang", "Leaf")
	con := "DefaultValues: whether the leaf is mandatory is read from the entry"
	if dv == nil || leafT == nil {
		return []Obligation{undecided(R, con, "-", "DefaultValues / Leaf not found")}
	}
	fEM, fLM := FieldVar(entry, "Mandatory"), FieldVar(leafT, "Mandatory")
	fromEntry, fromAST := "", ""
	c.eachInstrDeep(dv, func(in ssa.Instruction) {
		fa, isFA := in.(*ssa.FieldAddr)
		if !isFA {
			return
		}
		switch _, f, _ := fieldOf(fa); f {
		case fEM:
			fromEntry = c.InstrPos(in)
		case fLM:
			fromAST = c.InstrPos(in)
		}
	})
	switch {
	case fromAST != "":
		return []Obligation{bad(R, con, fromAST, "the mandatory substatement of the leaf's AST node decides: a deviation that adds or replaces mandatory changes Entry.Mandatory only, so a leaf made mandatory by a deviation still reports its type's default and one made optional reports none")}
	case fromEntry != "":
		return []Obligation{ok(R, con, fromEntry, "Entry.Mandatory")}
	}
	return []Obligation{undecided(R, con, c.Pos(dv.Pos()), "DefaultValues reads no mandatory flag")}
}

// ---------------------------------------------------------------- DEV.PROPKIND

func ruleDevPropKind(c *Ctx) []Obligation {
	const R = "DEV.PROPKIND"
	m, why := c.devModel()
	if m == nil {
		return []Obligation{undecided(R, "deviation applier model", "-", why)}
	}
	entry := c.MustNamed("yang", "Entry")
	fKind := FieldVar(entry, "Kind")
	var obs []Obligation
	for _, prop := range []string{"Default", "Mandatory", "Units"} {
		fP := FieldVar(entry, prop)
		con := fmt.Sprintf("ApplyDeviate: add/replace gives the target a %s only after a test of its kind with an error exit", strings.ToLower(prop))
		if fP == nil || fKind == nil {
			obs = append(obs, undecided(R, con, "-", "Entry."+prop+" / Entry.Kind not found"))
			continue
		}
		// the stores of the add/replace arms: a non-nil, non-zero value into target.P
		var stores []*ssa.Store
		for _, st := range c.storesToFieldDeep(m.fn, fP) {
			_, _, base := fieldOf(st.Addr)
			if base == nil || !sameObject(resolveArg(base), m.target) {
				continue
			}
			if isNilConst(st.Val) || isZero(st.Val) {
				continue // the delete arm
			}
			ks := m.kindsAt(st.Block())
			if ks != nil && !ks["add"] && !ks["replace"] {
				continue
			}
			stores = append(stores, st)
		}
		if len(stores) == 0 {
			o := ok(R, con, c.Pos(m.fn.Pos()), "no such store")
			obs = append(obs, o)
			continue
		}
		bad1 := ""
		for _, st := range stores {
			sb := st.Block()
			if l := liftTo(st, m.fn); l != nil {
				sb = l.Block()
			}
			avoid := iterationAvoid(sb)
			found := false
			for _, b := range m.fn.Blocks {
				ifi, isIf := b.Instrs[len(b.Instrs)-1].(*ssa.If)
				if !isIf || found {
					continue
				}
				// the test dominates the store, or is a later operand of a && whose first operand does (the operands
				// after the first sit in blocks of their own, entered from the one before)
				domOK := b.Dominates(sb)
				for p, d := b, 0; !domOK && d < 4 && len(p.Preds) == 1; d++ {
					p = p.Preds[0]
					if p.Dominates(sb) {
						domOK = true
					}
				}
				if !domOK {
					continue
				}
				// a test of the add/replace arm, not one that every deviation passes (target found, path absolute)
				if ks := m.kindsAt(b); ks == nil || !ks["add"] && !ks["replace"] {
					continue
				}
				// the condition (with what selects it, for a && chain) looks at the target's kind and at the
				// deviate statement's property
				kind, propSeen := false, false
				backSliceCond(ifi.Cond, func(x ssa.Value) {
					if _, f, base := loadedField(x); f == fKind && base != nil && sameObject(resolveArg(base), m.target) {
						kind = true
					}
					if call, isC := x.(*ssa.Call); isC {
						if cal := call.Call.StaticCallee(); cal != nil && c.isRepoFn(cal) && len(call.Call.Args) > 0 && sameObject(resolveArg(call.Call.Args[0]), m.target) {
							eachInstr(cal, func(in ssa.Instruction) {
								if v, isV := in.(ssa.Value); isV {
									if _, f, _ := loadedField(v); f == fKind {
										kind = true
									}
								}
							})
						}
					}
					if _, f, base := loadedField(x); f == fP && base != nil && !sameObject(resolveArg(base), m.target) {
						propSeen = true
					}
				})
				// a local that holds the kind test (`leafish := target.Kind == LeafEntry`)
				if !kind {
					operandClosure(ifi.Cond, func(x ssa.Value) {
						if _, f, base := loadedField(x); f == fKind && base != nil && sameObject(resolveArg(base), m.target) {
							kind = true
						}
					})
				}
				if !propSeen {
					operandClosure(ifi.Cond, func(x ssa.Value) {
						if _, f, base := loadedField(x); f == fP && base != nil && !sameObject(resolveArg(base), m.target) {
							propSeen = true
						}
					})
					// the conditions that lead to this test (the && chain compiled to branches)
					for _, g := range guardsAt(b) {
						operandClosure(g.Cond, func(x ssa.Value) {
							if _, f, base := loadedField(x); f == fP && base != nil && !sameObject(resolveArg(base), m.target) {
								propSeen = true
							}
						})
					}
				}
				if !kind {
					// … or the kind was tested on the way to this test (`!can && spec.P != unset`)
					for _, g := range guardsAt(b) {
						backSliceCond(g.Cond, func(x ssa.Value) {
							if _, f, base := loadedField(x); f == fKind && base != nil && sameObject(resolveArg(base), m.target) {
								kind = true
							}
							if call, isC := x.(*ssa.Call); isC {
								if cal := call.Call.StaticCallee(); cal != nil && c.isRepoFn(cal) && len(call.Call.Args) > 0 && sameObject(resolveArg(call.Call.Args[0]), m.target) {
									eachInstr(cal, func(in ssa.Instruction) {
										if v, isV := in.(ssa.Value); isV {
											if _, f, _ := loadedField(v); f == fKind {
												kind = true
											}
										}
									})
								}
							}
						})
					}
				}
				if !kind || !propSeen {
					continue
				}
				for _, s := range b.Succs {
					if s != sb && !blockReaches(s, sb, avoid) && errorMadeUnder(s, avoid) && !m.storesToTargetFrom(s, avoid) {
						found = true
					}
				}
			}
			// … or the tests sit in a helper that answers with an error: a call handed the target, whose result
			// is tested by a dominating branch that makes an error and skips the store, and in which some
			// error return is under conditions that look at the kind of that argument and at the property
			if !found {
				for _, b := range m.fn.Blocks {
					ifi, isIf := b.Instrs[len(b.Instrs)-1].(*ssa.If)
					if !isIf || !b.Dominates(sb) || found {
						continue
					}
					x, _, okn := nilTest(ifi.Cond)
					if !okn || !isErrorType(x.Type()) {
						continue
					}
					call, isC := x.(*ssa.Call)
					if !isC {
						continue
					}
					h := call.Call.StaticCallee()
					if h == nil || !c.isRepoFn(h) || h.Blocks == nil {
						continue
					}
					skips := false
					for _, sc := range b.Succs {
						// (the error was made by the helper; the branch hands it on)
						if sc != sb && !blockReaches(sc, sb, avoid) {
							skips = true
						}
					}
					if !skips {
						continue
					}
					tIdx := -1
					for i, a := range call.Call.Args {
						if sameObject(resolveArg(a), m.target) {
							tIdx = i
						}
					}
					if tIdx < 0 {
						continue
					}
					for _, hb := range h.Blocks {
						if _, isR := hb.Instrs[len(hb.Instrs)-1].(*ssa.Return); !isR || !blockReturnsError(hb) {
							continue
						}
						kind, propSeen := false, false
						for _, g := range guardsAt(hb) {
							operandClosure(g.Cond, func(y ssa.Value) {
								if _, f, base := loadedField(y); f == fKind && base != nil && isParamN(h, rootOf(base), tIdx) {
									kind = true
								}
								if _, f, base := loadedField(y); f == fP && base != nil && !isParamN(h, rootOf(base), tIdx) {
									propSeen = true
								}
								if cl, isCl := y.(*ssa.Call); isCl {
									if cc := cl.Call.StaticCallee(); cc != nil && c.isRepoFn(cc) && len(cl.Call.Args) > 0 && isParamN(h, cl.Call.Args[0], tIdx) {
										eachInstr(cc, func(in ssa.Instruction) {
											if v, isV := in.(ssa.Value); isV {
												if _, f, _ := loadedField(v); f == fKind {
													kind = true
												}
											}
										})
									}
								}
							})
						}
						if kind && propSeen {
							found = true
						}
					}
				}
			}
			if !found {
				bad1 = c.InstrPos(st)
			}
		}
		if bad1 == "" {
			obs = append(obs, ok(R, con, c.InstrPos(stores[0]), "a test of the target's kind together with the deviate statement's "+strings.ToLower(prop)+" dominates the store; one branch of it makes an error and skips the rest of the statement"))
		} else {
			obs = append(obs, bad(R, con, bad1, "the "+strings.ToLower(prop)+" of the deviate statement is copied to a target of any kind: on a container (or list, rpc, …) the deviation is accepted and leaves an entry that no module text can produce"))
		}
	}
	return obs
}

// ---------------------------------------------------------------- DEV.ERRRETURN

func ruleDevErrReturn(c *Ctx) []Obligation {
	const R = "DEV.ERRRETURN"
	m, why := c.devModel()
	con := "ApplyDeviate: the removal of a node that is not a child of its parent is an error it returns"
	if m == nil {
		return []Obligation{undecided(R, con, "-", why)}
	}
	entry := c.MustNamed("yang", "Entry")
	fDir, fErrs := FieldVar(entry, "Dir"), FieldVar(entry, "Errors")
	// the removal helpers: repo methods on *Entry that delete from Dir and can record an error
	var obs []Obligation
	n := 0
	for _, ci := range c.callsInDeep(m.fn, func(ci ssa.CallInstruction) bool {
		cal := ci.Common().StaticCallee()
		if cal == nil || !c.isRepoFn(cal) || cal == m.fn {
			return false
		}
		deletes, records := false, false
		eachInstr(cal, func(in ssa.Instruction) {
			if call, isC := in.(*ssa.Call); isC {
				if bi, isB := call.Call.Value.(*ssa.Builtin); isB && bi.Name() == "delete" {
					if _, f, _ := loadedField(call.Call.Args[0]); f == fDir {
						deletes = true
					}
				}
			}
		})
		for f := range c.Reach([]*ssa.Function{cal}, nil) {
			if c.isRepoFn(f) && len(storesToField(f, fErrs)) > 0 {
				records = true
			}
		}
		return deletes && records
	}) {
		n++
		site := ci.(ssa.Instruction)
		// a dominating comparison of parent.Dir[name] with the target, whose other branch makes an error
		guarded := false
		for _, g := range guardsAtDeep(site.Block()) {
			bo, isB := g.Cond.(*ssa.BinOp)
			if !isB {
				continue
			}
			lookup := false
			operandClosure(bo, func(x ssa.Value) {
				if lk, isL := x.(*ssa.Lookup); isL {
					if _, f, _ := loadedField(lk.X); f == fDir {
						lookup = true
					}
				}
			})
			if !lookup {
				continue
			}
			other := g.If.Block().Succs[0]
			if g.Branch {
				other = g.If.Block().Succs[1]
			}
			if errorMadeFrom(other, iterationAvoid(site.Block())) {
				guarded = true
			}
		}
		c2 := con
		if n > 1 {
			c2 = fmt.Sprintf("%s #%d", con, n)
		}
		if guarded {
			obs = append(obs, ok(R, c2, c.InstrPos(site), "the removal is under a test that the parent's child of that name is the target; the other branch makes an error for the returned list"))
		} else {
			obs = append(obs, bad(R, c2, c.InstrPos(site), "the removal helper records `unknown child key` on the parent entry when the node is not its child (a second deviate not-supported of one node, the input of an rpc): a later deviation that removes the parent takes the error with it and Process returns a clean result"))
		}
	}
	if n == 0 {
		o := ok(R, con, c.Pos(m.fn.Pos()), "ApplyDeviate calls no removal helper that records errors")
		obs = append(obs, o)
	}
	return obs
}

// ---------------------------------------------------------------- AUG.NOTSELF

func ruleAugNotSelf(c *Ctx) []Obligation {
	const R = "AUG.NOTSELF"
	aug := c.Fn("yang.(*Entry).Augment")
	find := c.Fn("yang.(*Entry).Find")
	m := c.entryModel()
	con := "Augment: a lookup result inside the augment itself is not taken for a target"
	if aug == nil || find == nil {
		return []Obligation{undecided(R, con, "-", "Augment / Find not found")}
	}
	finds := c.callsToLookup(aug, find)
	if len(finds) != 1 {
		return []Obligation{undecided(R, con, c.Pos(aug.Pos()), fmt.Sprintf("%d target lookups", len(finds)))}
	}
	res := finds[0].Value()
	recv := finds[0].Common().Args[0] // the augment entry the lookup starts at
	// a comparison of (a cursor that climbs Parent from) the result with the augment entry, one branch of which
	// leads to the result being replaced by nil or to the augment being kept / reported
	ok1 := false
	at := ""
	c.eachInstrDeep(aug, func(in ssa.Instruction) {
		bo, isB := in.(*ssa.BinOp)
		if !isB || bo.Op != token.EQL && bo.Op != token.NEQ || ok1 {
			return
		}
		var other ssa.Value
		switch {
		case sameObject(resolveArg(bo.X), recv):
			other = bo.Y
		case sameObject(resolveArg(bo.Y), recv):
			other = bo.X
		default:
			return
		}
		fromRes := false
		seen := map[ssa.Value]bool{}
		var walk func(v ssa.Value)
		walk = func(v ssa.Value) {
			if v == nil || seen[v] {
				return
			}
			seen[v] = true
			if v == res || refinedTarget(res) == v {
				fromRes = true
				return
			}
			if r := resolveArg(v); r != v {
				walk(r)
				return
			}
			if p, isP := v.(*ssa.Phi); isP {
				for _, e := range p.Edges {
					walk(e)
				}
				return
			}
			if _, f, base := loadedField(v); f == m.fParent {
				walk(base)
			}
		}
		walk(other)
		if fromRes {
			ok1 = true
			at = c.InstrPos(in)
		}
	})
	if ok1 && refinedTarget(res) != res {
		return []Obligation{ok(R, con, at, "the ancestors of the result are compared with the augment; the result is replaced by nil when it is among them")}
	}
	if ok1 {
		return []Obligation{bad(R, con, at, "the ancestors of the result are compared with the augment, but the result is used as it is whatever the comparison says")}
	}
	return []Obligation{bad(R, con, c.InstrPos(finds[0].(ssa.Instruction)), "the lookup starts at the augment's own entry, so a relative path (`augment \"c\" { container c { … } }`, the slash forgotten) finds a node the augment defines: the augment is merged into that detached node, counted as applied, and its nodes are in no tree")}
}

// ---------------------------------------------------------------- INCL.NOHEADER

func ruleInclNoHeader(c *Ctx) []Obligation {
	const R = "INCL.NOHEADER"
	toEntry := c.Fn("yang.ToEntry")
	merge := c.mergeFn()
	entry := c.MustNamed("yang", "Entry")
	incT := c.Named("yang", "Include")
	con := "ToEntry: a submodule's nodes are merged from an entry without the submodule's own extensions and extras"
	if toEntry == nil || merge == nil || incT == nil {
		return []Obligation{undecided(R, con, "-", "ToEntry / the link function / Include not found")}
	}
	fLink := FieldVar(incT, "Module")
	fExts, fExtra := FieldVar(entry, "Exts"), FieldVar(entry, "Extra")
	// does the link function hand these on at all?
	hands := false
	c.eachInstrDeep(merge, func(in ssa.Instruction) {
		if v, isV := in.(ssa.Value); isV {
			if _, f, base := loadedField(v); (f == fExts || f == fExtra) && base != nil && isParamN(merge, resolveArg(rootOf(base)), len(merge.Params)-1) {
				hands = true
			}
		}
	})
	if !hands {
		return []Obligation{ok(R, con, c.Pos(merge.Pos()), "the link function does not hand the merged entry's extensions or extras on")}
	}
	var obs []Obligation
	n := 0
	for _, ci := range c.callsToDeep(toEntry, merge) {
		args := ci.Common().Args
		src := args[len(args)-1]
		fromInclude := false
		operandClosure(src, func(x ssa.Value) {
			if _, f, _ := loadedField(x); f == fLink {
				fromInclude = true
			}
		})
		if !fromInclude {
			continue
		}
		n++
		// the entry handed over is a copy whose two fields were set to nil
		cleared := map[*types.Var]bool{}
		if al, isA := rootOf(src).(*ssa.Alloc); isA {
			for _, r := range *al.Referrers() {
				if fa, isFA := r.(*ssa.FieldAddr); isFA {
					_, f, _ := fieldOf(fa)
					for _, rr := range *fa.Referrers() {
						if st, isS := rr.(*ssa.Store); isS && isNilConst(st.Val) && dominates(st, ci.(ssa.Instruction)) {
							cleared[f] = true
						}
					}
				}
			}
		}
		if cleared[fExts] && cleared[fExtra] {
			obs = append(obs, ok(R, con, c.InstrPos(ci.(ssa.Instruction)), "a copy with Exts and Extra set to nil is merged"))
		} else {
			obs = append(obs, bad(R, con, c.InstrPos(ci.(ssa.Instruction)), "the submodule's entry is merged as it is, and the link function copies the merged entry's extensions and extras onto each child: every top-level node that comes from a submodule carries the submodule's own extension statements, belongs-to, revision, organization, contact and reference as if written on the node"))
		}
	}
	if n == 0 {
		obs = append(obs, undecided(R, con, c.Pos(toEntry.Pos()), "no merge of an included module's entry found"))
	}
	return obs
}

// ---------------------------------------------------------------- ID.ENTRYLIST

func ruleIDEntryList(c *Ctx) []Obligation {
	const R = "ID.ENTRYLIST"
	toEntry := c.Fn("yang.ToEntry")
	entry := c.MustNamed("yang", "Entry")
	incT := c.Named("yang", "Include")
	if toEntry == nil || incT == nil {
		return []Obligation{undecided(R, "module entry identities", "-", "ToEntry / Include not found")}
	}
	fIDs := FieldVar(entry, "Identities")
	fLink := FieldVar(incT, "Module")
	con1 := "ToEntry: the identities of a merged submodule are added to the module entry's list"
	con2 := "ToEntry: the module's own identities are added to the list, not stored over it"
	takes, over := "", ""
	added := ""
	for _, st := range c.storesToFieldDeep(toEntry, fIDs) {
		readsOwn, fromSub := false, false
		operandClosure(st.Val, func(x ssa.Value) {
			if _, f, base := loadedField(x); f == fIDs && base != nil {
				sub := false
				operandClosure(base, func(y ssa.Value) {
					if _, f2, _ := loadedField(y); f2 == fLink {
						sub = true
					}
				})
				if sub {
					fromSub = true
				} else {
					readsOwn = true
				}
			}
		})
		switch {
		case fromSub && readsOwn:
			takes = c.InstrPos(st)
		case readsOwn:
			added = c.InstrPos(st)
		case !fromSub:
			over = c.InstrPos(st)
		}
	}
	var obs []Obligation
	if takes != "" {
		obs = append(obs, ok(R, con1, takes, "e.Identities = append(e.Identities, <submodule entry>.Identities…)"))
	} else {
		obs = append(obs, bad(R, con1, c.Pos(toEntry.Pos()), "the module entry lists the identities written in the module's own file only: moving an identity into a submodule makes it vanish from ToEntry(module).Identities although it is filed, resolved and listed as a value under the module's name"))
	}
	switch {
	case over != "":
		obs = append(obs, bad(R, con2, over, "a store of the module's own identities replaces the list: what the include case took over from the submodules is lost (the struct fields are visited last to first, so the include case has run)"))
	case added != "":
		obs = append(obs, ok(R, con2, added, "the store is built from the list that is there"))
	default:
		obs = append(obs, undecided(R, con2, c.Pos(toEntry.Pos()), "no store of the module's own identities found"))
	}
	return obs
}

// ---------------------------------------------------------------- INCL.BELONGS

func ruleInclBelongs(c *Ctx) []Obligation {
	const R = "INCL.BELONGS"
	inc := c.Fn("yang.(*Modules).include")
	incT := c.Named("yang", "Include")
	modT := c.Named("yang", "Module")
	con := "include: an include is linked only after the submodule's belongs-to was compared with the includer"
	if inc == nil || incT == nil || modT == nil {
		return []Obligation{undecided(R, con, "-", "(*Modules).include / Include / Module not found")}
	}
	fLink := FieldVar(incT, "Module")
	fBelongs := FieldVar(modT, "BelongsTo")
	var obs []Obligation
	n := 0
	for _, st := range c.storesToFieldDeep(inc, fLink) {
		if isNilConst(st.Val) {
			continue
		}
		n++
		guarded := false
		for _, g := range guardsAtDeep(st.Block()) {
			// a comparison of names one side of which comes from the found module's belongs-to
			bo, isB := g.Cond.(*ssa.BinOp)
			if !isB {
				continue
			}
			cmpBelongs := false
			operandClosure(bo, func(x ssa.Value) {
				if _, f, base := loadedField(x); f == fBelongs && base != nil && sameObject(resolveArg(base), resolveArg(st.Val)) {
					cmpBelongs = true
				}
			})
			if !cmpBelongs || isNilTestOnly(bo) {
				continue
			}
			other := g.If.Block().Succs[0]
			if g.Branch {
				other = g.If.Block().Succs[1]
			}
			if blockReturnsError(other) || errorMadeFrom(other, iterationAvoid(st.Block())) {
				guarded = true
			}
		}
		c2 := con
		if n > 1 {
			c2 = fmt.Sprintf("%s #%d", con, n)
		}
		if guarded {
			obs = append(obs, ok(R, c2, c.InstrPos(st), "the link is stored on the branch where the names agree; the other branch leaves with an error"))
		} else {
			obs = append(obs, bad(R, c2, c.InstrPos(st), "an include is linked whatever the submodule's belongs-to says: `module a { include s; }` with s declaring `belongs-to b` is accepted, the nodes of s land in a's tree under a's namespace and are missing from b's"))
		}
	}
	if n == 0 {
		obs = append(obs, undecided(R, con, c.Pos(inc.Pos()), "no store of Include.Module found"))
	}
	return obs
}

// isNilTestOnly: the comparison is a test against nil.
func isNilTestOnly(bo *ssa.BinOp) bool {
	_, _, okn := nilTest(bo)
	return okn
}

// ---------------------------------------------------------------- FILE.DIRFIRST (recorded finding)

func ruleFileDirFirst(c *Ctx) []Obligation {
	const R = "FILE.DIRFIRST"
	fn := c.Fn("yang.findInDir")
	con := "yang.findInDir: the files of a directory are all looked at before a subdirectory is entered"
	if fn == nil {
		return []Obligation{undecided(R, con, "-", "findInDir not found")}
	}
	self := c.callsTo(fn, fn)
	if len(self) == 0 {
		return []Obligation{ok(R, con, c.Pos(fn.Pos()), "the search does not recurse")}
	}
	// the loop the recursive call sits in also decides about files (returns a joined file name under a name
	// comparison): files and subdirectories are taken as the sorted listing mixes them
	mixed := ""
	for _, ci := range self {
		h := loopHeaderOf(ci.(ssa.Instruction).Block())
		if h == nil {
			continue
		}
		eachInstr(fn, func(in ssa.Instruction) {
			bo, isB := in.(*ssa.BinOp)
			if !isB || bo.Op != token.EQL || mixed != "" || loopHeaderOf(bo.Block()) != h {
				return
			}
			if b, isBasic := bo.X.Type().Underlying().(*types.Basic); !isBasic || b.Info()&types.IsString == 0 {
				return
			}
			mixed = c.InstrPos(ci.(ssa.Instruction))
		})
	}
	if mixed == "" {
		return []Obligation{ok(R, con, c.Pos(fn.Pos()), "the descent is in a pass of its own")}
	}
	return []Obligation{bad(R, con, mixed, "one pass over the sorted listing returns an exact file name match, remembers dated files and descends into subdirectories as it meets them: with root/m.yang and root/<sub>/m@2000-01-01.yang an import of m binds to the old file when <sub> sorts before \"m.yang\" and to the new one when it sorts after")}
}

// helperReturns: the values a call of a private helper (inline.go) can hand back.
func helperReturns(v ssa.Value) []ssa.Value {
	call, isC := v.(*ssa.Call)
	if !isC {
		return nil
	}
	cal := call.Call.StaticCallee()
	if cal == nil || exactHelper(cal) == nil || cal.Signature.Results().Len() != 1 {
		return nil
	}
	var out []ssa.Value
	for _, b := range cal.Blocks {
		if r, isR := b.Instrs[len(b.Instrs)-1].(*ssa.Return); isR && b != cal.Recover && len(r.Results) == 1 {
			out = append(out, resolveSpill(r.Results[0], r))
		}
	}
	return out
}

// errorMadeUnder: an error value is made in a block that s dominates — on the branch itself, not somewhere the
// branch merely leads on to (the next case of a switch, the statements after an if).
func errorMadeUnder(s *ssa.BasicBlock, avoid map[*ssa.BasicBlock]bool) bool {
	seen := map[*ssa.BasicBlock]bool{}
	stack := []*ssa.BasicBlock{s}
	for len(stack) > 0 {
		x := stack[len(stack)-1]
		stack = stack[:len(stack)-1]
		if seen[x] || avoid[x] || !s.Dominates(x) {
			continue
		}
		seen[x] = true
		for _, in := range x.Instrs {
			if v, isV := in.(ssa.Value); isV && isErrorType(v.Type()) {
				switch in.(type) {
				case *ssa.Call, *ssa.MakeInterface:
					return true
				}
			}
		}
		stack = append(stack, x.Succs...)
	}
	return false
}

// storesToTargetFrom: from block s (not passing the avoided blocks) a store into a field of the deviation's target can
// be reached — the branch goes on applying the statement, it does not refuse it.
func (m *devModel) storesToTargetFrom(s *ssa.BasicBlock, avoid map[*ssa.BasicBlock]bool) bool {
	seen := map[*ssa.BasicBlock]bool{}
	stack := []*ssa.BasicBlock{s}
	for len(stack) > 0 {
		x := stack[len(stack)-1]
		stack = stack[:len(stack)-1]
		if seen[x] || avoid[x] {
			continue
		}
		seen[x] = true
		for _, in := range x.Instrs {
			if st, isS := in.(*ssa.Store); isS {
				if _, ok := m.targetFieldPath(st.Addr); ok {
					return true
				}
			}
		}
		stack = append(stack, x.Succs...)
	}
	return false
}

package main

// rules_err.go: ERR.LAST, ERR.SORTED, ERR.DROP.

import (
	"fmt"
	"go/types"
	"sort"
	"strings"

	"golang.org/x/tools/go/ssa"
)

func init() {
	register(&Rule{Name: "ERR.SORTED", Props: []string{"C04", "C05"}, Floor: 3,
		Doc: "every error list returned by Process / GetErrors flows through the sorting, de-duplicating helper",
		Run: ruleErrSorted})
	register(&Rule{Name: "ERR.LAST", Props: []string{"C04", "C07", "C08"}, Floor: 3,
		Doc: "after the last call that may record an error on an entry, Process sweeps all modules and submodules",
		Run: ruleErrLast})
	register(&Rule{Name: "ERR.DROP", Props: []string{"C04", "C08"}, Floor: 10,
		Doc: "no error result of a repo function is discarded",
		Run: ruleErrDrop})
}

func ruleErrSorted(c *Ctx) []Obligation {
	const R = "ERR.SORTED"
	var obs []Obligation
	sortFn := c.Fn("yang.errorSort")
	if sortFn == nil {
		return []Obligation{undecided(R, "error sorter", "-", "yang.errorSort not found")}
	}
	// every exported function or method of the library that hands a list of errors to its caller
	var apis []*ssa.Function
	for _, fn := range c.Funcs {
		if !c.isRepoFn(fn) || fn.Parent() != nil || fn.Object() == nil || !fn.Object().Exported() || fn.Blocks == nil {
			continue
		}
		if recv := fn.Signature.Recv(); recv != nil {
			if n := namedOf(recv.Type()); n == nil || !n.Obj().Exported() {
				continue
			}
		}
		res := fn.Signature.Results()
		for i := 0; i < res.Len(); i++ {
			if isErrorSlice(res.At(i).Type()) {
				apis = append(apis, fn)
				break
			}
		}
	}
	sort.Slice(apis, func(i, j int) bool { return c.FnName(apis[i]) < c.FnName(apis[j]) })
	isAPI := map[*ssa.Function]bool{}
	for _, fn := range apis {
		isAPI[fn] = true
	}
	for _, fn := range apis {
		name := c.FnName(fn)
		n := 0
		eachInstr(fn, func(in ssa.Instruction) {
			r, ok2 := in.(*ssa.Return)
			if !ok2 {
				return
			}
			for _, v := range r.Results {
				if !isErrorSlice(v.Type()) {
					continue
				}
				v = resolveSpill(v, r)
				n++
				con := fmt.Sprintf("%s: return #%d is sorted and de-duplicated", name, n)
				if isNilConst(v) {
					o := ok(R, con, c.InstrPos(r), "returns nil")
					o.Trivial = true
					obs = append(obs, o)
					continue
				}
				if ex, isE := v.(*ssa.Extract); isE {
					v = ex.Tuple
				}
				call, okc := v.(*ssa.Call)
				// a list written on the spot with one element has no order
				if sl, isSl := v.(*ssa.Slice); isSl {
					if al, isA := sl.X.(*ssa.Alloc); isA {
						if at, isArr := al.Type().Underlying().(*types.Pointer).Elem().Underlying().(*types.Array); isArr && at.Len() == 1 {
							o := ok(R, con, c.InstrPos(r), "a list of one error")
							obs = append(obs, o)
							continue
						}
					}
				}
				switch {
				case okc && call.Call.StaticCallee() == sortFn:
					obs = append(obs, ok(R, con, c.InstrPos(r), "return errorSort(…)"))
				case okc && call.Call.StaticCallee() != nil && isAPI[call.Call.StaticCallee()]:
					obs = append(obs, ok(R, con, c.InstrPos(r), "hands on the list of "+c.FnName(call.Call.StaticCallee())+", which is held to the same"))
				default:
					if why, okj := jget("errSortedJustified", errSortedJustified, name); okj {
						obs = append(obs, just(R, con, c.InstrPos(r), why))
					} else {
						obs = append(obs, bad(R, con, c.InstrPos(r), "an error list is returned without passing through errorSort: its order (and duplicates) follow the order of loading or of map iteration, not file, line and column"))
					}
				}
			}
		})
	}
	// the sorter itself: sorts, and drops adjacent duplicates
	con := "errorSort sorts and removes duplicates"
	sorts, dedups := false, false
	eachInstr(sortFn, func(in ssa.Instruction) {
		if call, okc := in.(*ssa.Call); okc {
			if calleeIs(call, "sort", "Sort") || calleeIs(call, "sort", "Stable") || calleeIs(call, "sort", "Slice") || calleeIs(call, "sort", "SliceStable") {
				sorts = true
			}
			if calleeIs(call, "reflect", "DeepEqual") {
				dedups = true
			}
		}
	})
	if sorts && dedups {
		obs = append(obs, ok(R, con, c.Pos(sortFn.Pos()), "sort.Sort + DeepEqual against the previous kept element"))
	} else {
		obs = append(obs, bad(R, con, c.Pos(sortFn.Pos()), fmt.Sprintf("sorts=%v dedups=%v", sorts, dedups)))
	}
	return obs
}

// errRecorders: functions that may (transitively) append to Entry.Errors.
func (c *Ctx) errRecorders() map[*ssa.Function]bool {
	m := c.entryModel()
	direct := map[*ssa.Function]bool{}
	for _, fn := range c.Funcs {
		if len(storesToField(fn, m.fErrors)) > 0 {
			direct[fn] = true
		}
	}
	out := map[*ssa.Function]bool{}
	for _, fn := range c.Funcs {
		for f := range c.Reach([]*ssa.Function{fn}, nil) {
			if direct[f] {
				out[fn] = true
				break
			}
		}
	}
	return out
}

func ruleErrLast(c *Ctx) []Obligation {
	const R = "ERR.LAST"
	var obs []Obligation
	proc := c.MustFn("yang.(*Modules).Process")
	getErrors := c.MustFn("yang.(*Entry).GetErrors")
	mods := c.MustNamed("yang", "Modules")
	fMods, fSub := FieldVar(mods, "Modules"), FieldVar(mods, "SubModules")
	rec := c.errRecorders()
	// sweeps: GetErrors calls inside a range over ms.Modules / ms.SubModules
	type sweep struct {
		call  ssa.Instruction
		field *types.Var
		head  *ssa.BasicBlock
	}
	var sweeps []sweep
	// sweeps delegated to a helper: a call in Process to a function that loops over the map calling GetErrors
	for _, fn := range c.Funcs {
		if fn == proc || len(c.callsTo(proc, fn)) == 0 {
			continue
		}
		for _, ci := range c.callsTo(fn, getErrors) {
			h := loopHeaderOf(ci.Block())
			if h == nil {
				continue
			}
			for _, in := range h.Instrs {
				if n, okn := in.(*ssa.Next); okn {
					if r, okr := n.Iter.(*ssa.Range); okr {
						if _, f, base := loadedField(r.X); (f == fMods || f == fSub) && isParamN(fn, base, 0) {
							for _, pc := range c.callsTo(proc, fn) {
								sweeps = append(sweeps, sweep{pc, f, pc.Block()})
							}
						}
					}
				}
			}
		}
	}
	for _, ci := range c.callsTo(proc, getErrors) {
		h := loopHeaderOf(ci.Block())
		if h == nil {
			continue
		}
		var fld *types.Var
		for _, in := range h.Instrs {
			if n, okn := in.(*ssa.Next); okn {
				if r, okr := n.Iter.(*ssa.Range); okr {
					if _, f, _ := loadedField(r.X); f == fMods || f == fSub {
						fld = f
					}
				}
			}
		}
		if fld != nil {
			sweeps = append(sweeps, sweep{ci, fld, h})
		}
	}
	// the final return: the one not guarded by a non-empty error list
	var finals []*ssa.Return
	eachInstr(proc, func(in ssa.Instruction) {
		r, ok2 := in.(*ssa.Return)
		if !ok2 {
			return
		}
		early := false
		for _, g := range guardsAt(r.Block()) {
			if bo, okb := g.Cond.(*ssa.BinOp); okb {
				if call, okc := bo.X.(*ssa.Call); okc {
					if bi, okbi := call.Call.Value.(*ssa.Builtin); okbi && bi.Name() == "len" && g.Branch {
						early = true
					}
				}
			}
		}
		if !early {
			finals = append(finals, r)
		}
	})
	if len(finals) == 0 {
		return []Obligation{undecided(R, "final return of Process", c.Pos(proc.Pos()), "every return is guarded by a non-empty error list?")}
	}
	// recorder calls in Process outside sweep loops
	inSweep := func(in ssa.Instruction) bool {
		for _, s := range sweeps {
			if s.call == in {
				return true
			}
			if s.head.Dominates(in.Block()) && blockReaches(in.Block(), s.head, nil) && loopHeaderOf(in.Block()) == s.head {
				return true
			}
		}
		return false
	}
	var recCalls []ssa.CallInstruction
	eachInstr(proc, func(in ssa.Instruction) {
		ci, ok2 := in.(ssa.CallInstruction)
		if !ok2 || inSweep(in) {
			return
		}
		for _, cal := range c.Callees(ci) {
			if rec[cal] && cal != getErrors {
				recCalls = append(recCalls, ci)
				return
			}
		}
	})
	for _, r := range finals {
		for _, fld := range []*types.Var{fMods, fSub} {
			con := fmt.Sprintf("Process: every error recorded before the final return is swept from all of Modules.%s", fld.Name())
			// a sweep over fld whose header dominates r and that every recorder call can reach (is followed by)
			var best *sweep
			for i := range sweeps {
				s := &sweeps[i]
				if s.field != fld || !s.head.Dominates(r.Block()) {
					continue
				}
				okAll := true
				for _, rc := range recCalls {
					if !reaches(rc, s.call) {
						okAll = false
					}
					// and the recorder must not be reachable again after the sweep
					if reaches(s.call, rc) && !inSweep(rc) {
						okAll = false
					}
				}
				if okAll {
					best = s
				}
			}
			if best != nil {
				obs = append(obs, ok(R, con, c.InstrPos(best.call), fmt.Sprintf("a GetErrors sweep over the whole map follows all %d error-recording calls and dominates the return", len(recCalls))))
			} else {
				obs = append(obs, bad(R, con, c.InstrPos(r), "some call that may record an error on an entry (ToEntry, Augment, ApplyDeviate → Find/delete/merge) is not followed by a sweep over all modules: a late error is lost and Process reports a clean result"))
			}
		}
	}
	// a pass that can remove entries (deviate not-supported deletes the target subtree) must not run before the
	// errors recorded so far were collected: the node that carries them may be the one removed
	if apply := c.Fn("yang.(*Entry).ApplyDeviate"); apply != nil {
		for _, d := range c.callsToDeep(proc, apply) {
			site := d.(ssa.Instruction)
			if site.Parent() != proc {
				if h := c.helpers[site.Parent()]; h != nil && h.caller == proc {
					site = h.site.(ssa.Instruction)
				} else {
					continue
				}
			}
			for _, fld := range []*types.Var{fMods, fSub} {
				con := fmt.Sprintf("Process: the errors recorded before the deviation pass are swept from all of Modules.%s before it", fld.Name())
				var best *sweep
				for i := range sweeps {
					sw := &sweeps[i]
					if sw.field != fld || !reaches(sw.call, site) || reaches(site, sw.call) {
						continue
					}
					okAll := true
					for _, rc := range recCalls {
						// the calls of the deviation pass itself are the pass, wherever its loops are split
						isPass := false
						for _, cal := range c.Callees(rc) {
							if cal == apply {
								isPass = true
							}
						}
						// … and so is what the loop around such a call does per module (ToEntry of the module visited)
						if h := loopHeaderOf(rc.Block()); h != nil {
							for _, d2 := range c.callsToDeep(proc, apply) {
								if l2 := liftTo(d2.(ssa.Instruction), proc); l2 != nil && loopHeaderOf(l2.Block()) == h {
									isPass = true
								}
							}
						}
						if isPass {
							continue
						}
						earlier := reaches(rc, site) && !reaches(site, rc)
						if earlier && !reaches(rc, sw.call) {
							okAll = false
						}
					}
					if okAll {
						best = sw
					}
				}
				if best != nil {
					obs = append(obs, ok(R, con, c.InstrPos(best.call), "a GetErrors sweep over the whole map lies between the last earlier recorder and the deviation pass"))
				} else {
					obs = append(obs, bad(R, con, c.InstrPos(site), "errors recorded while augments are merged sit on entries of the target tree and are collected only after the deviations: a deviate not-supported that removes the node carrying them makes Process return a clean result"))
				}
			}
		}
	}
	// the sweep must not filter: the GetErrors result is appended unconditionally inside the loop
	for _, s := range sweeps {
		con := fmt.Sprintf("Process: sweep over Modules.%s #%d is unconditional", s.field.Name(), s.head.Index)
		_ = con
	}
	obs = append(obs, ok(R, "Process: error-recording calls enumerated", c.Pos(proc.Pos()), fmt.Sprintf("%d recorder call sites outside sweeps, %d sweeps", len(recCalls), len(sweeps))))
	return obs
}

var errDropJustified = map[string]string{
	"yang.build: dynamic call via yangStatement.addext": "the extension closure made by initTypes always returns nil (SCHEMA.CARD checks its body: Set(Append(…)); return nil)",
	"yang.ToEntry: yang.(*Type).resolve":                "the deviation arm re-runs resolve on each deviate's type only to warm the memo; the same call in the Deviate arm (reached through ToEntry(d) just above) already recorded its errors on the deviate entry, which TREE.WALK shows are imported",
}

func ruleErrDrop(c *Ctx) []Obligation {
	const R = "ERR.DROP"
	var obs []Obligation
	reach := c.Reach(c.libraryRoots(), nil)
	for _, fn := range c.Funcs {
		if fn.Pkg == nil && fn.Parent() == nil {
			continue
		}
		if !reach[fn] {
			continue
		}
		if root := rootFn(fn); root.Pkg == nil || shortPkg(root.Pkg.Pkg.Path()) == "main" {
			continue // the command prints errors; the library is what the properties observe
		}
		seen := map[string]int{}
		eachInstr(fn, func(in ssa.Instruction) {
			call, ok2 := in.(*ssa.Call)
			if !ok2 {
				return
			}
			cal := call.Call.StaticCallee()
			desc := ""
			switch {
			case cal != nil && c.isRepoFn(cal):
				desc = c.FnName(cal)
			case cal == nil && !call.Call.IsInvoke():
				if _, isB := call.Call.Value.(*ssa.Builtin); isB {
					return
				}
				// dynamic call of a repo-made closure
				if owner, f, _ := loadedField(call.Call.Value); f != nil {
					desc = "dynamic call via " + fieldKey(owner, f)
				} else if _, isL := call.Call.Value.(*ssa.Lookup); isL {
					desc = "dynamic call via table lookup"
				} else {
					return
				}
			default:
				return
			}
			// which results are errors?
			sig := call.Call.Signature()
			res := sig.Results()
			for i := 0; i < res.Len(); i++ {
				t := res.At(i).Type()
				if !isErrorType(t) && !isErrorSlice(t) {
					continue
				}
				used := false
				var errVal ssa.Value
				if res.Len() == 1 {
					used = len(*call.Referrers()) > 0
					errVal = call
				} else {
					for _, r := range *call.Referrers() {
						if ex, okx := r.(*ssa.Extract); okx && ex.Index == i && len(*ex.Referrers()) > 0 {
							used = true
							errVal = ex
						}
					}
				}
				// tested against nil and then ignored on the non-nil side is a drop as well
				swallowed := ""
				if used && errVal != nil {
					swallowed = c.errOnlyTested(errVal)
				}
				key := fmt.Sprintf("%s: %s", c.FnName(fn), desc)
				seen[key]++
				con := key
				if seen[key] > 1 {
					con = fmt.Sprintf("%s #%d", key, seen[key])
				}
				if swallowed != "" {
					if why, okj := jget("errDropJustified", errDropJustified, key); okj {
						obs = append(obs, just(R, con, c.InstrPos(call), why))
					} else {
						obs = append(obs, bad(R, con, c.InstrPos(call), swallowed))
					}
				} else if used {
					o := ok(R, con, c.InstrPos(call), "error result is consumed")
					o.Trivial = true
					obs = append(obs, o)
				} else if why, okj := jget("errDropJustified", errDropJustified, key); okj {
					// a justification that leans on another call recording the same errors holds only while
					// that call is there: some other call of the same callee in this function whose error
					// result reaches an error recorder
					if strings.Contains(why, "already recorded its errors") && !c.siblingCallRecords(fn, call) {
						obs = append(obs, bad(R, con, c.InstrPos(call), "the error result is discarded, and no other call of "+desc+" in this function hands its errors to an error recorder any more (the recorded reason — "+why+" — no longer applies)"))
					} else {
						obs = append(obs, just(R, con, c.InstrPos(call), why))
					}
				} else {
					obs = append(obs, bad(R, con, c.InstrPos(call), "the error result is discarded"))
				}
			}
		})
	}
	return obs
}

func rootFn(fn *ssa.Function) *ssa.Function {
	for fn.Parent() != nil {
		fn = fn.Parent()
	}
	return fn
}

// siblingCallRecords: another call of the same static callee in fn (or its closures) whose result flows into an
// argument of an error recorder (addError / errorf / an append to an error slice).
func (c *Ctx) siblingCallRecords(fn *ssa.Function, call *ssa.Call) bool {
	callee := call.Call.StaticCallee()
	if callee == nil {
		return false
	}
	rec := c.errRecorders()
	found := false
	root := rootFn(fn)
	for _, f2 := range c.Funcs {
		if rootFn(f2) != root {
			continue
		}
		eachInstr(f2, func(in ssa.Instruction) {
			other, isC := in.(*ssa.Call)
			if !isC || other == call || other.Call.StaticCallee() != callee || found {
				return
			}
			// does other's value reach a recorder call's argument?
			eachInstr(f2, func(in2 ssa.Instruction) {
				ci, isCI := in2.(ssa.CallInstruction)
				if !isCI || found {
					return
				}
				isRec := false
				for _, cal := range c.Callees(ci) {
					if rec[cal] {
						isRec = true
					}
				}
				if !isRec {
					return
				}
				for _, a := range ci.Common().Args {
					if derivesThroughCalls(a, func(x ssa.Value) bool { return x == ssa.Value(other) }) {
						found = true
					}
				}
			})
		})
	}
	return found
}

// errOnlyTested: v (an error or []error result) is referred to only by comparisons with nil, and at one of them the
// non-nil side neither mentions an error (no error is made, recorded or returned there). Returns the complaint, or "".
func (c *Ctx) errOnlyTested(v ssa.Value) string {
	var cmps []*ssa.BinOp
	var others []ssa.Instruction
	for _, r := range *v.Referrers() {
		switch x := r.(type) {
		case *ssa.BinOp:
			if isNilConst(x.X) || isNilConst(x.Y) {
				cmps = append(cmps, x)
				continue
			}
			others = append(others, r)
		case *ssa.DebugRef:
			continue
		default:
			others = append(others, r)
		}
	}
	// a use where the value is known to be nil (on the nil side of one of its own tests) hands on nothing
	knownNilAt := func(in ssa.Instruction) bool {
		for _, cmp := range cmps {
			for _, r := range *cmp.Referrers() {
				iff, isIf := r.(*ssa.If)
				if !isIf {
					continue
				}
				nilSide := iff.Block().Succs[1]
				if cmp.Op.String() == "==" {
					nilSide = iff.Block().Succs[0]
				}
				if len(nilSide.Preds) == 1 && nilSide.Dominates(in.Block()) {
					if _, isPhi := in.(*ssa.Phi); !isPhi {
						return true
					}
				}
			}
		}
		return false
	}
	for _, o := range others {
		if !knownNilAt(o) {
			return ""
		}
	}
	if len(cmps) == 0 {
		return ""
	}
	rec := c.errRecorders()
	for _, cmp := range cmps {
		if len(*cmp.Referrers()) == 0 {
			// both arms of the test were the same block and the branch was folded away: an empty body
			return "the error result is tested against nil at " + c.InstrPos(cmp) + " and then ignored: the test guards nothing"
		}
		for _, r := range *cmp.Referrers() {
			iff, isIf := r.(*ssa.If)
			if !isIf {
				return "" // the comparison itself is a value: someone looks at it
			}
			blk := iff.Block()
			nonNil := blk.Succs[0]
			if cmp.Op.String() == "==" {
				nonNil = blk.Succs[1]
			}
			mentions := false
			if len(nonNil.Preds) == 1 {
				for _, b := range blk.Parent().Blocks {
					if !nonNil.Dominates(b) {
						continue
					}
					for _, in := range b.Instrs {
						switch y := in.(type) {
						case ssa.CallInstruction:
							for _, cal := range c.Callees(y) {
								if rec[cal] {
									mentions = true
								}
								if n := cal.String(); n == "fmt.Errorf" || n == "errors.New" {
									mentions = true
								}
							}
							if cal := y.Common().StaticCallee(); cal != nil && c.isRepoFn(cal) {
								sig := cal.Signature.Results()
								for k := 0; k < sig.Len(); k++ {
									if isErrorType(sig.At(k).Type()) || isErrorSlice(sig.At(k).Type()) {
										mentions = true
									}
								}
							}
						case *ssa.Return:
							hasErrRes := false
							for _, rv := range y.Results {
								if isErrorType(rv.Type()) || isErrorSlice(rv.Type()) {
									hasErrRes = true
									if !isNilConst(rv) {
										mentions = true
									}
								}
							}
							// a lookup without an error result reports failure as its zero result
							if !hasErrRes {
								for _, rv := range y.Results {
									if k, isK := rv.(*ssa.Const); isK && (k.Value == nil || k.Value.String() == "false") {
										mentions = true
									}
								}
							}
						case *ssa.Panic:
							mentions = true
						}
					}
				}
			}
			if !mentions {
				return "the error result is tested against nil at " + c.InstrPos(cmp) + " and then ignored: nothing on the non-nil side records, wraps or returns an error"
			}
		}
	}
	return ""
}

// errSortedJustified: exported functions that hand back a list of errors as it was collected, with the reason the
// order cannot vary.
var errSortedJustified = map[string]string{
	"yang.(*Entry).ApplyDeviate": "the list is collected while walking Entry.Deviations and each deviation's statements, both slices in written order, and nothing in the walk ranges over a map (DEV.ORDER, ORDER.MAPRANGE): the order is the order of the text; Process, the caller in the library, sorts the whole list",
}

package main

// rules_nil.go: NIL, NILMAP, ASSERT, PANIC.

import (
	"fmt"
	"go/token"
	"go/types"
	"os"
	"strings"

	"golang.org/x/tools/go/ssa"
)

func init() {
	register(&Rule{Name: "NIL", Props: []string{"C01", "C03", "C09", "C13", "C17", "C08", "C11"}, Floor: 40,
		Doc: "a value that may be nil (map result, nil-returning lookup, optional AST/link field) is not dereferenced unguarded",
		Run: ruleNil})
	register(&Rule{Name: "NILMAP", Props: []string{"C01", "C04", "C07"}, Floor: 8,
		Doc: "every write into a map loaded from a struct field needs the field non-nil",
		Run: ruleNilMap})
	register(&Rule{Name: "ASSERT", Props: []string{"C01"}, Floor: 20,
		Doc: "single-result type assertions cannot fail",
		Run: ruleAssert})
	register(&Rule{Name: "PANIC", Props: []string{"C01"}, Floor: 1,
		Doc: "explicit panics reachable from the API are init-only or schema-impossible",
		Run: rulePanic})
}

type nilSink struct {
	in   ssa.Instruction
	v    ssa.Value
	what string
}

// sinksOf lists the dereference points in fn: (instruction, dereferenced value).
func (c *Ctx) sinksOf(fn *ssa.Function) []nilSink {
	var out []nilSink
	eachInstr(fn, func(in ssa.Instruction) {
		switch x := in.(type) {
		case *ssa.FieldAddr:
			out = append(out, nilSink{in, x.X, "field ." + fieldName(x)})
		case *ssa.UnOp:
			if x.Op == token.MUL {
				switch x.X.(type) {
				case *ssa.FieldAddr, *ssa.IndexAddr, *ssa.Alloc, *ssa.Global, *ssa.FreeVar:
				default:
					out = append(out, nilSink{in, x.X, "load through pointer"})
				}
			}
		case *ssa.Store:
			switch x.Addr.(type) {
			case *ssa.FieldAddr, *ssa.IndexAddr, *ssa.Alloc, *ssa.Global, *ssa.FreeVar:
			default:
				out = append(out, nilSink{in, x.Addr, "store through pointer"})
			}
		case *ssa.MapUpdate:
			out = append(out, nilSink{in, x.Map, "map write"})
		case *ssa.MakeInterface:
			// the typed-nil trap: a nil *T boxed into an interface is not == nil; a callee that guards itself with
			// `if n == nil` and then switches on the type dereferences the nil pointer
			if _, isPtr := x.X.Type().Underlying().(*types.Pointer); !isPtr {
				return
			}
			for _, r := range *x.Referrers() {
				ci, isCI := r.(ssa.CallInstruction)
				if !isCI {
					continue
				}
				cal := ci.Common().StaticCallee()
				if cal == nil || !c.isRepoFn(cal) || ci.Common().IsInvoke() {
					continue
				}
				for i, a := range ci.Common().Args {
					if a == ssa.Value(x) && i < len(cal.Params) && c.usesBeyondNilTest(cal, i) {
						out = append(out, nilSink{in, x.X, fmt.Sprintf("boxed as interface argument %s of %s (a typed nil passes its == nil test)", cal.Params[i].Name(), c.FnName(cal))})
					}
				}
			}
		case ssa.CallInstruction:
			com := x.Common()
			if com.IsInvoke() {
				out = append(out, nilSink{in, com.Value, "method call ." + com.Method.Name() + "() on interface"})
				return
			}
			cal := com.StaticCallee()
			if cal == nil {
				if _, isBuiltin := com.Value.(*ssa.Builtin); !isBuiltin {
					out = append(out, nilSink{in, com.Value, "call of function value"})
				}
				return
			}
			if !c.isRepoFn(cal) {
				return
			}
			for i, a := range com.Args {
				if i < len(cal.Params) && nilable(a.Type()) && !c.nilTolerant(cal, i, 0) {
					out = append(out, nilSink{in, a, fmt.Sprintf("argument %s of %s (not nil-tolerant)", cal.Params[i].Name(), c.FnName(cal))})
				}
			}
		}
	})
	return out
}

func fieldName(fa *ssa.FieldAddr) string {
	_, f, _ := fieldOf(fa)
	if f == nil {
		return "?"
	}
	return f.Name()
}

var nilTolCache = map[string]bool{}

// nilTolerant: every dereference of parameter i inside fn is guarded by a non-nil fact.
func (c *Ctx) nilTolerant(fn *ssa.Function, i int, depth int) bool {
	key := fmt.Sprintf("%p/%d", fn, i)
	if v, ok := nilTolCache[key]; ok {
		return v
	}
	if fn.Blocks == nil || i >= len(fn.Params) || depth > 3 {
		return false
	}
	nilTolCache[key] = true // optimistic for recursion
	p := fn.Params[i]
	pp := AccessPath(p)
	nf := c.NilFlowCached(fn)
	tol := true
	eachInstr(fn, func(in ssa.Instruction) {
		if !tol {
			return
		}
		check := func(v ssa.Value) {
			if AccessPath(v) != pp {
				return
			}
			if !nf.FactsAt(in)[pp] {
				tol = false
			}
		}
		switch x := in.(type) {
		case *ssa.FieldAddr:
			check(x.X)
		case *ssa.UnOp:
			if x.Op == token.MUL {
				if _, isAlloc := x.X.(*ssa.Alloc); !isAlloc {
					check(x.X)
				}
			}
		case *ssa.MapUpdate:
			check(x.Map)
		case *ssa.Store:
			// storing the param into a cell (spill): follow loads of that cell — treat as non-tolerant unless never dereferenced
			if x.Val == ssa.Value(p) {
				if a, ok := x.Addr.(*ssa.Alloc); ok {
					if !c.cellDerefsGuarded(fn, a, nf) {
						tol = false
					}
				}
			}
		case ssa.CallInstruction:
			com := x.Common()
			if com.IsInvoke() {
				check(com.Value)
				return
			}
			cal := com.StaticCallee()
			if cal == nil || !c.isRepoFn(cal) {
				return
			}
			for j, a := range com.Args {
				if AccessPath(a) == pp && j < len(cal.Params) {
					if !nf.FactsAt(in)[pp] && !c.nilTolerant(cal, j, depth+1) {
						tol = false
					}
				}
			}
		}
	})
	nilTolCache[key] = tol
	return tol
}

// cellDerefsGuarded: every dereference of a value loaded from cell a is guarded.
func (c *Ctx) cellDerefsGuarded(fn *ssa.Function, a *ssa.Alloc, nf *NilFlow) bool {
	okAll := true
	pp := AccessPath(a)
	for _, s := range c.sinksOfRaw(fn) {
		if AccessPath(s.v) == pp && s.v != ssa.Value(a) {
			if !nf.FactsAt(s.in)[pp] {
				okAll = false
			}
		}
	}
	return okAll
}

// sinksOfRaw: like sinksOf but without the interprocedural argument sinks (avoids recursion).
func (c *Ctx) sinksOfRaw(fn *ssa.Function) []nilSink {
	var out []nilSink
	eachInstr(fn, func(in ssa.Instruction) {
		switch x := in.(type) {
		case *ssa.FieldAddr:
			out = append(out, nilSink{in, x.X, "field"})
		case *ssa.MapUpdate:
			out = append(out, nilSink{in, x.Map, "map write"})
		case ssa.CallInstruction:
			if x.Common().IsInvoke() {
				out = append(out, nilSink{in, x.Common().Value, "invoke"})
			}
		}
	})
	return out
}

// describeSource names the nil source of v, position-free.
func (c *Ctx) describeSource(v ssa.Value) string {
	return c.describeSourceD(v, 0)
}

func (c *Ctx) describeSourceD(v ssa.Value, depth int) string {
	if depth > 3 {
		return "…"
	}
	switch x := v.(type) {
	case *ssa.Lookup:
		return "map result " + shortPath(AccessPath(x.X)) + "[·]"
	case *ssa.Extract:
		switch t := x.Tuple.(type) {
		case *ssa.Lookup:
			return "map result " + shortPath(AccessPath(t.X)) + "[·],ok"
		case *ssa.TypeAssert:
			return "type assertion ,ok to " + typeStr(t.AssertedType)
		case *ssa.Call:
			if cal := t.Call.StaticCallee(); cal != nil {
				return fmt.Sprintf("result #%d of %s", x.Index, c.FnName(cal))
			}
		}
	case *ssa.Call:
		if cal := x.Call.StaticCallee(); cal != nil {
			return "result of " + c.FnName(cal)
		}
	case *ssa.Phi:
		var parts []string
		seen := map[string]bool{}
		for _, e := range x.Edges {
			if e == v {
				continue
			}
			d := c.describeSourceD(e, depth+1)
			if !seen[d] {
				seen[d] = true
				parts = append(parts, d)
			}
		}
		return "φ(" + strings.Join(parts, " | ") + ")"
	case *ssa.UnOp:
		if x.Op == token.MUL {
			if owner, f, _ := fieldOf(x.X); f != nil {
				return "optional field " + fieldKey(owner, f)
			}
			return "variable " + shortPath(AccessPath(x.X))
		}
	case *ssa.Const:
		return "nil"
	case *ssa.Parameter:
		return "parameter " + x.Name()
	}
	return shortPath(AccessPath(v))
}

// Reasoned exceptions for NIL (DESIGN.md Appendix A.3): each names one source symbol (optionally one function) and
// carries one reason, written after reading the code.
type nilException struct {
	fn     string // function the sink is in ("" = any)
	source string // substring of the source description
	reason string
}

var nilExceptions = []nilException{
	{"yang.(*Modules).GetModule", "map result ms.Modules[·] → boxed", "the same lookup was found non-nil before Process on both paths (present at once, or tested again after Read); Read and Process only add to Modules.Modules (add is its only writer, nothing deletes from it)"},
	{"", "result of yang.RootNode", "every node reachable through a module set is rooted at a *Module: users obtain nodes from Modules.Modules/SubModules, synthetic nodes (implicit cases, leaf-list leaves) copy a real Parent, and nothing of a rejected statement is registered (STATE.COMMIT; defect #7/#26 repaired by scratch-dictionary registration)"},
	{"", "optional field Module.Modules", "Modules.add sets Module.Modules before it files the module, and only filed modules are reachable (see RootNode)"},
	{"yang.ToEntry", "variable alloc:ms", "ms is RootNode(n).Modules: see the RootNode and Module.Modules exceptions"},
	{"yang.(*Entry).InstantiatingModule", "result of yang.(*Entry).Modules", "Entry.Modules() returns Module.Modules of the root entry's module node: see Module.Modules"},
	{"yang.(*Identity).modulePrefixedName", "result of yang.module", "only called through newResolvedIdentity from resolveIdentities: for identities of a filed module (module() is that module) and for identities of an included submodule after `module(in.Module) == nil` was excluded"},
	{"yang.(*Modules).FindModuleByNamespace", "optional field Module.Namespace", "ranges over Modules.Modules, where add files only nodes whose Kind() is \"module\"; namespace is required=module (SCHEMA.REQ), so build rejected any module without it"},
	{"yang.(*Typedef).resolve", "optional field Type.YangType", "post-condition of Type.resolve: it returns no errors only on paths that stored t.YangType (or found it set); Typedef.resolve returns early when errors came back"},
	{"yang.(*parser).next", "result of yang.(*parser).next$1", "token nil-encoding: (*token).Code() returns tEOF exactly for the nil token (the lexer never emits a token carrying tEOF) and the tEOF arm returns before the token is used"},
	{"yang.(*parser).nextStatement", "result of yang.(*parser).next", "token nil-encoding: the tEOF arm of the switch on t.Code() returns before t.File/t.Text are read"},
	{"yang.ToEntry", "optional field Module.BelongsTo", "a.Module was returned by FindModule for an *Include, i.e. a value of Modules.SubModules; add files a node there only if Kind() == \"submodule\", which Module.Kind defines as BelongsTo != nil (SCHEMA.IFACE)"},
	{"yang.build", "map result global:typeMap[·]", "t is a non-nil value of nameMap; every type stored in nameMap went through initTypes (descend stores it and calls initTypes), which fills typeMap[t] before returning"},
	{"yang.(*Entry).ApplyDeviate", "optional field Entry.ListAttr → field .M", "devSpec.ListAttr is read only under devSpec.deviatePresence.hasMin/MaxElements, and the one place that sets those flags (ToEntry's max/min-elements arm) allocates ListAttr first on the same path"},
}

func nilJustification(fnName, con string) (string, bool) {
	for _, ex := range nilExceptions {
		if ex.fn != "" && ex.fn != fnName {
			continue
		}
		if strings.Contains(con, ex.source) {
			return ex.reason, true
		}
	}
	return "", false
}

// libraryRoots: the API set without the goyang command (the crash-freedom property is about the library).
func (c *Ctx) libraryRoots() []*ssa.Function {
	var out []*ssa.Function
	for _, f := range c.APIRoots() {
		if f.Pkg != nil && f.Pkg.Pkg.Path() == modPath {
			continue
		}
		out = append(out, f)
	}
	return out
}

// keyOfSameMap: the lookup key was collected by ranging over the same map (names := keys(m); sort; m[name]).
func keyOfSameMap(l *ssa.Lookup) bool {
	mp := AccessPath(l.X)
	return derivesFrom(l.Index, func(x ssa.Value) bool {
		n, ok := x.(*ssa.Next)
		if !ok {
			return false
		}
		r, ok := n.Iter.(*ssa.Range)
		return ok && AccessPath(r.X) == mp
	})
}

func ruleNil(c *Ctx) []Obligation {
	const R = "NIL"
	var obs []Obligation
	reach := c.Reach(c.libraryRoots(), nil)
	seenKey := map[string]bool{}
	for _, fn := range c.Funcs {
		if !reach[fn] {
			continue
		}
		nf := c.NilFlowCached(fn)
		for _, s := range c.sinksOf(fn) {
			if s.what == "map write" {
				continue // NILMAP
			}
			if !c.valueMayBeNil(s.v, factSet{}, nf, map[*ssa.Function]bool{}, 0) {
				continue // not a recognised nil source
			}
			con := fmt.Sprintf("%s: %s → %s", c.FnName(fn), c.describeSource(s.v), s.what)
			facts := nf.FactsAt(s.in)
			may := c.valueMayBeNil(s.v, facts, nf, map[*ssa.Function]bool{}, 0)
			if os.Getenv("VERIF_DEBUG_SINK") != "" && strings.Contains(c.InstrPos(s.in), os.Getenv("VERIF_DEBUG_SINK")) {
				fmt.Fprintf(os.Stderr, "DEBUG sink %s %s path=%s may=%v top=%v busy=%v facts=%v\n", c.InstrPos(s.in), s.what, AccessPath(s.v), may, nf.top[s.in.Block()], nf.busy, sortedKeys(facts))
				for _, b := range fn.Blocks {
					fmt.Fprintf(os.Stderr, "   block %d top=%v entry=%v\n", b.Index, nf.top[b], sortedKeys(nf.entry[b]))
				}
			}
			if seenKey[con] && !may {
				continue
			}
			pos := c.InstrPos(s.in)
			if !may {
				seenKey[con] = true
				obs = append(obs, ok(R, con, pos, "dominated by a non-nil guard on "+shortPath(AccessPath(s.v))))
				continue
			}
			if l, isL := s.v.(*ssa.Lookup); isL && keyOfSameMap(l) {
				seenKey[con] = true
				obs = append(obs, ok(R, con, pos, "the key was collected by ranging over the same map"))
				continue
			}
			if why, okj := nilJustification(c.FnName(fn), con); okj {
				if !seenKey[con] {
					obs = append(obs, just(R, con, pos, why))
				}
				seenKey[con] = true
				continue
			}
			if seenKey[con+"!"] {
				continue
			}
			seenKey[con+"!"] = true
			obs = append(obs, bad(R, con, pos, "may be nil here: no dominating guard, predicate or fresh store makes "+shortPath(AccessPath(s.v))+" non-nil"))
		}
	}
	return obs
}

func ruleNilMap(c *Ctx) []Obligation {
	const R = "NILMAP"
	var obs []Obligation
	reach := c.Reach(c.APIRoots(), nil)
	for _, fn := range c.Funcs {
		if !reach[fn] {
			continue
		}
		nf := c.NilFlowCached(fn)
		eachInstr(fn, func(in ssa.Instruction) {
			mu, ok2 := in.(*ssa.MapUpdate)
			if !ok2 {
				return
			}
			owner, f, base := loadedField(mu.Map)
			if f == nil {
				return // local map / parameter map / global: made where declared
			}
			con := fmt.Sprintf("%s: write into %s", c.FnName(fn), fieldKey(owner, f))
			pos := c.InstrPos(in)
			facts := nf.FactsAt(in)
			mp := AccessPath(mu.Map)
			switch {
			case facts[mp]:
				obs = append(obs, ok(R, con, pos, "field known non-nil here (guard, predicate or fresh store)"))
			case insideRangeOver(mu, mp):
				obs = append(obs, ok(R, con, pos, "inside a range over the same map (a nil map has no iterations)"))
			case c.paramOwnerMadeByCallers(fn, base, f, 0):
				obs = append(obs, ok(R, con, pos, "the owner is a parameter and every call site passes an owner whose "+f.Name()+" is made (constructor result or guarded)"))
			case c.alwaysMade(owner, f):
				obs = append(obs, ok(R, con, pos, "every constructor of "+objName(owner.Obj())+" makes this map and nothing stores nil into it"))
			case c.freshOwner(base, f):
				obs = append(obs, ok(R, con, pos, "owner freshly built by a constructor that makes the map"))
			default:
				if why, okj := nilJustification(c.FnName(fn), con); okj {
					obs = append(obs, just(R, con, pos, why))
				} else {
					obs = append(obs, bad(R, con, pos, "the map field may be nil for this owner (e.g. a leaf entry has no Dir): writing panics"))
				}
			}
		})
	}
	return obs
}

// insideRangeOver: mu executes only inside the body of a range over the same map access path.
func insideRangeOver(mu *ssa.MapUpdate, mp string) bool {
	found := false
	eachInstr(mu.Parent(), func(in ssa.Instruction) {
		n, ok2 := in.(*ssa.Next)
		if !ok2 || found {
			return
		}
		r, ok2 := n.Iter.(*ssa.Range)
		if !ok2 || AccessPath(r.X) != mp {
			return
		}
		// body = successor 0 of the If on extract #0 of next
		b := n.Block()
		if len(b.Succs) == 2 && b.Succs[0].Dominates(mu.Block()) {
			found = true
		}
	})
	return found
}

// paramOwnerMadeByCallers: base is (derived by no field steps from) a parameter of fn, and at every call site of fn
// the corresponding argument's field f is known non-nil (fact, fresh constructor result, or again a parameter whose
// callers satisfy this — two levels).
func (c *Ctx) paramOwnerMadeByCallers(fn *ssa.Function, base ssa.Value, f *types.Var, depth int) bool {
	if depth > 2 {
		return false
	}
	p, isP := base.(*ssa.Parameter)
	if !isP {
		return false
	}
	idx := -1
	for i, q := range fn.Params {
		if q == p {
			idx = i
		}
	}
	if idx < 0 {
		return false
	}
	node := c.Graph().Nodes[fn]
	if node == nil || len(node.In) == 0 {
		return false
	}
	for _, e := range node.In {
		caller := e.Caller.Func
		if caller.Synthetic != "" {
			if cn := c.Graph().Nodes[caller]; cn == nil || len(cn.In) == 0 {
				continue // promoted-method wrapper nobody calls
			}
		}
		if !c.isRepoFn(caller) || e.Site == nil {
			if os.Getenv("VERIF_DEBUG_NILMAP") != "" {
				fmt.Fprintf(os.Stderr, "DEBUG paramOwner %s: non-repo or siteless in-edge from %s\n", c.FnName(fn), caller.String())
			}
			return false
		}
		com := e.Site.Common()
		var arg ssa.Value
		if com.IsInvoke() {
			if idx == 0 {
				arg = com.Value
			} else if idx-1 < len(com.Args) {
				arg = com.Args[idx-1]
			}
		} else if idx < len(com.Args) {
			arg = com.Args[idx]
		}
		if arg == nil {
			return false
		}
		nf := c.NilFlowCached(caller)
		facts := nf.FactsAt(e.Site)
		ap := AccessPath(arg) + "." + f.Name()
		switch {
		case facts[ap]:
		case c.freshOwner(arg, f):
		case c.paramOwnerMadeByCallers(caller, arg, f, depth+1):
		default:
			if os.Getenv("VERIF_DEBUG_NILMAP") != "" {
				fmt.Fprintf(os.Stderr, "DEBUG paramOwner %s: site %s in %s arg path %s facts %v\n", c.FnName(fn), c.InstrPos(e.Site), c.FnName(caller), ap, sortedKeys(facts))
			}
			return false
		}
	}
	return true
}

// alwaysMade: the field is a map that every composite literal / constructor of the owner type initialises,
// and no store in the repo assigns a possibly-nil value to it.
func (c *Ctx) alwaysMade(owner *types.Named, f *types.Var) bool {
	if owner == nil {
		return false
	}
	okAll := true
	nLit := 0
	for _, fn := range c.Funcs {
		// allocations of the owner type
		eachInstr(fn, func(in ssa.Instruction) {
			a, isA := in.(*ssa.Alloc)
			if isA && namedOf(a.Type()) == owner && isStructPtr(a.Type()) {
				nLit++
				// is field f stored with a non-nil value in this function for this alloc?
				stored := false
				for _, r := range *a.Referrers() {
					fa, okf := r.(*ssa.FieldAddr)
					if !okf {
						continue
					}
					if _, ff, _ := fieldOf(fa); ff != f {
						continue
					}
					for _, rr := range *fa.Referrers() {
						if st, oks := rr.(*ssa.Store); oks && st.Addr == fa {
							switch st.Val.(type) {
							case *ssa.MakeMap:
								stored = true
							}
						}
					}
				}
				if !stored {
					// whole-struct copies (ne := *e) inherit the map from a well-formed value
					copied := false
					for _, r := range *a.Referrers() {
						if st, oks := r.(*ssa.Store); oks && st.Addr == a {
							copied = true
						}
					}
					if !copied {
						okAll = false
					}
				}
			}
			if st, isS := in.(*ssa.Store); isS {
				if _, ff, _ := fieldOf(st.Addr); ff == f {
					switch st.Val.(type) {
					case *ssa.MakeMap:
					default:
						if _, lf, _ := loadedField(st.Val); lf != f {
							okAll = false
						}
					}
				}
			}
		})
	}
	if nLit == 0 {
		// the owner only exists embedded by value in another struct: every store to the field must be a fresh map,
		// and at least one exists
		n := 0
		okStores := true
		for _, fn := range c.Funcs {
			eachInstr(fn, func(in ssa.Instruction) {
				if st, isS := in.(*ssa.Store); isS {
					if _, ff, _ := fieldOf(st.Addr); ff == f {
						n++
						if _, isMake := st.Val.(*ssa.MakeMap); !isMake {
							okStores = false
						}
					}
				}
			})
		}
		return n > 0 && okStores
	}
	return okAll && nLit > 0
}

// freshOwner: base was produced in this function by a constructor whose result has field f made.
func (c *Ctx) freshOwner(base ssa.Value, f *types.Var) bool {
	call, ok2 := rootOf(base).(*ssa.Call)
	if !ok2 {
		return false
	}
	cal := call.Call.StaticCallee()
	if cal == nil || !c.isConstructor(cal) {
		return false
	}
	made := false
	eachInstr(cal, func(in ssa.Instruction) {
		if st, oks := in.(*ssa.Store); oks {
			if _, ff, _ := fieldOf(st.Addr); ff == f {
				if _, isMake := st.Val.(*ssa.MakeMap); isMake {
					made = true
				}
			}
		}
	})
	return made
}

// ---------------------------------------------------------------- ASSERT

func ruleAssert(c *Ctx) []Obligation {
	const R = "ASSERT"
	var obs []Obligation
	reach := c.Reach(c.APIRoots(), nil)
	s := c.Schema()
	for _, fn := range c.Funcs {
		if !reach[fn] {
			continue
		}
		eachInstr(fn, func(in ssa.Instruction) {
			ta, ok2 := in.(*ssa.TypeAssert)
			if !ok2 || ta.CommaOk {
				return
			}
			con := fmt.Sprintf("%s: %s.(%s)", c.FnName(fn), shortPath(AccessPath(ta.X)), typeStr(ta.AssertedType))
			pos := c.InstrPos(in)
			// (1) reflect tag agreement: fv.Interface().(T) under case "<kw>" of a switch on the field's tag name
			if kw, okk := c.tagCaseOf(ta); okk {
				bad2 := ""
				n := 0
				excluded := typesNotReaching(fn, ta.Block())
				for _, nt := range s.Ordered {
					if excluded[nt.Named] {
						continue
					}
					for _, f := range nt.Fields {
						if f.Keyword == kw {
							n++
							if !types.Identical(f.Var.Type(), ta.AssertedType) {
								bad2 = fmt.Sprintf("%s.%s has type %s", objName(nt.Named.Obj()), f.Var.Name(), typeStr(f.Var.Type()))
							}
						}
					}
				}
				if bad2 == "" && n > 0 {
					obs = append(obs, ok(R, con, pos, fmt.Sprintf("tag agreement: all %d fields tagged %q have this type", n, kw)))
				} else {
					obs = append(obs, bad(R, con, pos, fmt.Sprintf("fields tagged %q do not all have the asserted type (%s): the assertion panics for some node", kw, bad2)))
				}
				return
			}
			// (1b) reflect FieldByName agreement: v.FieldByName("X").Interface().(T): every node struct field named X has type T
			if name, okn := fieldByNameOf(ta); okn {
				bad2 := ""
				n := 0
				for _, nt := range s.Ordered {
					st := nt.Struct
					for i := 0; i < st.NumFields(); i++ {
						if st.Field(i).Name() == name {
							n++
							if !types.Identical(st.Field(i).Type(), ta.AssertedType) {
								bad2 = objName(nt.Named.Obj()) + "." + name + " has type " + typeStr(st.Field(i).Type())
							}
						}
					}
				}
				if bad2 == "" && n > 0 {
					obs = append(obs, ok(R, con, pos, fmt.Sprintf("FieldByName agreement: all %d node fields named %s have this type", n, name)))
				} else {
					obs = append(obs, bad(R, con, pos, "node fields named "+name+" do not all have the asserted type: "+bad2))
				}
				return
			}
			// (2) dominated by a Kind() test that only the asserted type satisfies, or a Node known to be *Module via kind switch
			if c.kindGuardsAssert(ta, s) {
				obs = append(obs, ok(R, con, pos, "dominated by a Kind() comparison whose constant only the asserted type returns"))
				return
			}
			// (2b) container agreement: the operand comes out of a sync.Pool or sync.Map, and everything the
			// repository puts into that container has the asserted type
			if why := c.containerAgreement(ta); why != "" {
				obs = append(obs, ok(R, con, pos, why))
				return
			}
			// (3) interface-to-interface or to a type the operand statically always has
			if why, okj := jget("assertJustified", assertJustified, con); okj {
				obs = append(obs, just(R, con, pos, why))
				return
			}
			obs = append(obs, bad(R, con, pos, "single-result type assertion with no enclosing type switch, comma-ok, tag agreement or Kind() guard"))
		})
	}
	return obs
}

var assertJustified = map[string]string{
	"yang.buildASTWithTypeDict: t5.(Node)": "v is build's result under err == nil, i.e. reflect.New of a struct type taken from nameMap; SCHEMA.META checks that every such pointer type implements Node",
}

// typesNotReaching: the node types whose arm of a type switch on the function's (possibly spilled) parameter
// cannot reach block b (early-returning arms such as *Leaf, *LeafList, *Uses in ToEntry).
func typesNotReaching(fn *ssa.Function, b *ssa.BasicBlock) map[*types.Named]bool {
	out := map[*types.Named]bool{}
	eachInstr(fn, func(in ssa.Instruction) {
		ta, ok2 := in.(*ssa.TypeAssert)
		if !ok2 || !ta.CommaOk || !isParamOrSpill(ta.X) {
			return
		}
		n := namedOf(ta.AssertedType)
		if n == nil {
			return
		}
		for _, r := range *ta.Referrers() {
			ex, okx := r.(*ssa.Extract)
			if !okx || ex.Index != 1 {
				continue
			}
			for _, rr := range *ex.Referrers() {
				ifi, oki := rr.(*ssa.If)
				if !oki {
					continue
				}
				if !blockReaches(ifi.Block().Succs[0], b, nil) {
					out[n] = true
				}
			}
		}
	})
	return out
}

// fieldByNameOf: ta.X is reflect Interface() of FieldByName(const).
func fieldByNameOf(ta *ssa.TypeAssert) (string, bool) {
	call, ok2 := ta.X.(*ssa.Call)
	if !ok2 || !calleeIs(call, "reflect", "Interface") || len(call.Call.Args) == 0 {
		return "", false
	}
	return reflectFieldName(call.Call.Args[0], nil, 0)
}

// tagCaseOf: the assertion operand is reflect Interface() of field i of ValueOf(n), and the assertion sits under
// a comparison of the field's tag name with a constant keyword.
func (c *Ctx) tagCaseOf(ta *ssa.TypeAssert) (string, bool) {
	call, ok2 := ta.X.(*ssa.Call)
	if !ok2 || !calleeIs(call, "reflect", "Interface") {
		return "", false
	}
	for _, g := range guardsAt(ta.Block()) {
		bo, okb := g.Cond.(*ssa.BinOp)
		if !okb || bo.Op != token.EQL || !g.Branch {
			continue
		}
		if s, isc := constString(bo.Y); isc {
			// the compared value derives from a struct tag lookup
			if derivesFromCall(bo.X, "reflect", "Get") || derivesFromCall(bo.X, "strings", "Split") {
				return s, true
			}
		}
	}
	return "", false
}

func derivesFromCall(v ssa.Value, pkg, name string) bool {
	return derivesFrom(v, func(x ssa.Value) bool {
		call, ok2 := x.(*ssa.Call)
		return ok2 && calleeIs(call, pkg, name)
	})
}

// kindGuardsAssert: n.(*Module) after Kind() was compared equal to "module"/"submodule", etc.
func (c *Ctx) kindGuardsAssert(ta *ssa.TypeAssert, s *Schema) bool {
	want := namedOf(ta.AssertedType)
	if want == nil {
		return false
	}
	opPath := AccessPath(ta.X)
	check := func(cond ssa.Value, br bool) bool {
		bo, okb := cond.(*ssa.BinOp)
		if !okb || bo.Op != token.EQL || !br {
			return false
		}
		k, isc := constString(bo.Y)
		if !isc {
			return false
		}
		call, okc := bo.X.(*ssa.Call)
		if !okc || invokeName(call) != "Kind" || AccessPath(call.Call.Value) != opPath {
			return false
		}
		// which types return k from Kind()?
		if k == "module" || k == "submodule" {
			return objName(want.Obj()) == "Module"
		}
		if t := s.Keyword[k]; t != nil && t == want && objName(want.Obj()) != "Value" {
			return true
		}
		return false
	}
	for _, g := range guardsAt(ta.Block()) {
		if check(g.Cond, g.Branch) {
			return true
		}
	}
	// every path from the entry to the assertion takes the true edge of a qualifying Kind() comparison
	{
		fn := ta.Parent()
		qual := map[*ssa.BasicBlock]bool{}
		for _, b := range fn.Blocks {
			if len(b.Instrs) == 0 {
				continue
			}
			if ifi, okI := b.Instrs[len(b.Instrs)-1].(*ssa.If); okI && check(ifi.Cond, true) {
				qual[b] = true
			}
		}
		if len(qual) > 0 {
			seen := map[*ssa.BasicBlock]bool{}
			stack := []*ssa.BasicBlock{fn.Blocks[0]}
			reached := false
			for len(stack) > 0 {
				x := stack[len(stack)-1]
				stack = stack[:len(stack)-1]
				if seen[x] {
					continue
				}
				seen[x] = true
				if x == ta.Block() {
					reached = true
					break
				}
				for i, sx := range x.Succs {
					if qual[x] && i == 0 {
						continue // do not follow the qualifying edge
					}
					stack = append(stack, sx)
				}
			}
			if !reached {
				return true
			}
		}
	}
	// switch with several case constants: the block is reached from several equality tests, each of which qualifies
	b := ta.Block()
	if len(b.Preds) > 0 {
		all := true
		for _, p := range reachingIfs(b) {
			if !check(p.cond, p.branch) {
				all = false
			}
		}
		if all && len(reachingIfs(b)) > 0 {
			return true
		}
	}
	return false
}

type condEdge struct {
	cond   ssa.Value
	branch bool
}

// reachingIfs: walking back from b through single-successor chains, the If edges that lead into b's dominance frontier.
func reachingIfs(b *ssa.BasicBlock) []condEdge {
	// find the nearest block d dominating b such that every path d→b passes exactly one conditional edge into the
	// region; approximate: collect If-edges from predecessors of the first block in b's idom chain with >1 preds.
	x := b
	for len(x.Preds) == 1 {
		p := x.Preds[0]
		if _, isIf := p.Instrs[len(p.Instrs)-1].(*ssa.If); isIf {
			break
		}
		x = p
	}
	var out []condEdge
	for _, p := range x.Preds {
		ifi, isIf := p.Instrs[len(p.Instrs)-1].(*ssa.If)
		if !isIf {
			return nil
		}
		out = append(out, condEdge{ifi.Cond, p.Succs[0] == x})
	}
	return out
}

// ---------------------------------------------------------------- PANIC

func rulePanic(c *Ctx) []Obligation {
	const R = "PANIC"
	var obs []Obligation
	reach := c.Reach(c.APIRoots(), nil)
	initOnly := c.initOnlyFuncs()
	for _, fn := range c.Funcs {
		eachInstr(fn, func(in ssa.Instruction) {
			p, ok2 := in.(*ssa.Panic)
			if !ok2 {
				return
			}
			con := fmt.Sprintf("%s: panic", c.FnName(fn))
			pos := c.InstrPos(p)
			switch {
			case !reach[fn] && initOnly[fn]:
				o := ok(R, con, pos, "reachable only from package initialisation")
				o.Trivial = true
				obs = append(obs, o)
			case !reach[fn]:
				o := ok(R, con, pos, "not reachable from the API set")
				o.Trivial = true
				obs = append(obs, o)
			case c.schemaImpossible(p):
				obs = append(obs, ok(R, con, pos, "guarded by a reflect type identity test that the builder table makes unsatisfiable (closures are filed under the type they were made for)"))
			default:
				if why, okj := jget("panicJustified", panicJustified, c.FnName(fn)); okj {
					obs = append(obs, just(R, con, pos, why))
				} else {
					obs = append(obs, bad(R, con, pos, "explicit panic reachable from the API on input-dependent paths"))
				}
			}
		})
	}
	return obs
}

var panicJustified = map[string]string{}

// schemaImpossible: the panic is guarded by `v.Type() != at` (or !Implements(nodeType)) inside a builder closure.
func (c *Ctx) schemaImpossible(p *ssa.Panic) bool {
	for _, g := range guardsAt(p.Block()) {
		cond, _ := stripNot(g.Cond, g.Branch)
		if bo, okb := cond.(*ssa.BinOp); okb && (bo.Op == token.NEQ || bo.Op == token.EQL) {
			if call, okc := bo.X.(*ssa.Call); okc && calleeIs(call, "reflect", "Type") {
				return true
			}
		}
		if call, okc := cond.(*ssa.Call); okc && call.Call.IsInvoke() && call.Call.Method.Name() == "Implements" {
			return true
		}
	}
	return false
}

// initOnlyFuncs: functions reachable from package initialisers but not from the API set.
func (c *Ctx) initOnlyFuncs() map[*ssa.Function]bool {
	var inits []*ssa.Function
	for path, p := range c.SSA {
		if !strings.HasPrefix(path, modPath) {
			continue
		}
		if f := p.Func("init"); f != nil {
			inits = append(inits, f)
		}
	}
	// package-level var initialisers are part of init; synthetic init calls init#1 …
	r := map[*ssa.Function]bool{}
	seen := map[*ssa.Function]bool{}
	var stack []*ssa.Function
	stack = append(stack, inits...)
	g := c.Graph()
	for len(stack) > 0 {
		f := stack[len(stack)-1]
		stack = stack[:len(stack)-1]
		if seen[f] {
			continue
		}
		seen[f] = true
		if c.isRepoFn(f) {
			r[f] = true
		}
		for _, an := range f.AnonFuncs {
			stack = append(stack, an)
		}
		if n := g.Nodes[f]; n != nil {
			for _, e := range n.Out {
				cal := e.Callee.Func
				if cal.Pkg != nil && strings.HasPrefix(cal.Pkg.Pkg.Path(), modPath) {
					stack = append(stack, cal)
				}
			}
		}
	}
	return r
}

// usesBeyondNilTest: parameter i of fn (an interface) is type-switched / type-asserted to a pointer that is then
// dereferenced, or has a method invoked on it, in fn itself.
func (c *Ctx) usesBeyondNilTest(fn *ssa.Function, i int) bool {
	if fn.Blocks == nil || i >= len(fn.Params) {
		return false
	}
	p := fn.Params[i]
	if !types.IsInterface(p.Type()) {
		return false
	}
	uses := false
	seen := map[ssa.Value]bool{}
	var walk func(v ssa.Value)
	walk = func(v ssa.Value) {
		if seen[v] || uses {
			return
		}
		seen[v] = true
		refs := v.Referrers()
		if refs == nil {
			return
		}
		for _, r := range *refs {
			// a dereference the callee makes only where it knows the pointer is not nil does not count
			// (an explicit `v != nil` test only: a comma-ok assertion that succeeded says nothing about a typed nil)
			if fa, isFA := r.(*ssa.FieldAddr); isFA {
				excused := false
				for _, g := range guardsAt(fa.Block()) {
					if x, isEq, okn := nilTest(g.Cond); okn && x == v && isEq != g.Branch {
						excused = true
					}
				}
				if excused {
					continue
				}
			}
			switch x := r.(type) {
			case *ssa.TypeAssert:
				if _, isPtr := x.AssertedType.Underlying().(*types.Pointer); isPtr {
					// the asserted pointer (or component #0 of the comma-ok form) is dereferenced?
					walk(x)
				}
			case *ssa.Extract:
				if x.Index == 0 {
					walk(x)
				}
			case *ssa.FieldAddr:
				uses = true
			case *ssa.Store:
				if a, isA := x.Addr.(*ssa.Alloc); isA && x.Val == v {
					walk(a)
				}
			case *ssa.UnOp:
				if x.Op == token.MUL {
					if _, isA := x.X.(*ssa.Alloc); isA {
						walk(x)
					} else {
						uses = true
					}
				}
			case *ssa.Phi:
				walk(x)
			}
		}
	}
	walk(p)
	return uses
}

// containerAgreement: ta asserts the type of a value taken out of a sync.Pool (Get) or a sync.Map (Load,
// LoadOrStore, Range is not handled); every value the repository puts into the same container — the pool's New
// function, Put, Store, LoadOrStore — has the asserted type. The container is identified by the global (or field) it
// lives in.
func (c *Ctx) containerAgreement(ta *ssa.TypeAssert) string {
	src := ta.X
	// the operand may be what one of several reads of the same container gave (`v, ok := m.Load(k); if !ok { v, _ =
	// m.LoadOrStore(k, x) }`): every one of them is looked at
	if phi, isP := src.(*ssa.Phi); isP {
		why := ""
		for _, e := range phi.Edges {
			sub := *ta
			sub.X = e
			w := c.containerAgreement(&sub)
			if w == "" {
				return ""
			}
			why = w
		}
		return why
	}
	if ex, isE := src.(*ssa.Extract); isE {
		src = ex.Tuple
	}
	call, isC := src.(*ssa.Call)
	if !isC {
		return ""
	}
	cal := call.Call.StaticCallee()
	if cal == nil || cal.Signature.Recv() == nil || len(call.Call.Args) == 0 {
		return ""
	}
	recv := cal.Signature.Recv().Type().String()
	var putNames []string
	switch {
	case strings.HasSuffix(recv, "sync.Pool") && cal.Name() == "Get":
		putNames = []string{"Put"}
	case strings.HasSuffix(recv, "sync.Map") && (cal.Name() == "Load" || cal.Name() == "LoadOrStore"):
		putNames = []string{"Store", "LoadOrStore", "Swap"}
	default:
		return ""
	}
	container := AccessPath(call.Call.Args[0])
	if !strings.HasPrefix(container, "global:") {
		return ""
	}
	n := 0
	okAll := true
	check := func(v ssa.Value) {
		n++
		if mi, isMI := v.(*ssa.MakeInterface); isMI {
			if !types.Identical(mi.X.Type(), ta.AssertedType) {
				okAll = false
			}
			return
		}
		okAll = false
	}
	for _, fn := range c.Funcs {
		eachInstr(fn, func(in ssa.Instruction) {
			switch x := in.(type) {
			case *ssa.Call:
				cal2 := x.Call.StaticCallee()
				if cal2 == nil || cal2.Signature.Recv() == nil || len(x.Call.Args) < 2 || AccessPath(x.Call.Args[0]) != container {
					return
				}
				for _, pn := range putNames {
					if cal2.Name() == pn {
						check(x.Call.Args[len(x.Call.Args)-1])
					}
				}
			case *ssa.Store:
				// the pool's New function: stored into the container's New field (package initialiser)
				if _, f, base := fieldOf(x.Addr); f != nil && f.Name() == "New" && base != nil && AccessPath(base) == container {
					if nf := funcValue(x.Val); nf != nil {
						eachInstr(nf, func(in2 ssa.Instruction) {
							if r, isR := in2.(*ssa.Return); isR && len(r.Results) == 1 {
								check(r.Results[0])
							}
						})
					}
				}
			}
		})
	}
	if n > 0 && okAll {
		return fmt.Sprintf("container agreement: all %d values the repository puts into %s have this type", n, shortPath(container))
	}
	return ""
}

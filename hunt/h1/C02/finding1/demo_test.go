package yang

import (
	"fmt"
	"testing"
)

func f1dump(ss []*Statement) string {
	s := ""
	for _, x := range ss {
		a, ok := x.Arg()
		s += fmt.Sprintf("(%s arg=%v %q [%s])", x.Keyword, ok, a, f1dump(x.SubStatements()))
	}
	return s
}

// A block comment starts with "/*" and ends with the nearest FOLLOWING "*/"
// (RFC 7950 6.1.1).  The three characters "/*/" open a comment; the '*' of the
// opener cannot also be the '*' of the closer.  The lexer, however, looks for
// "*/" starting AT the '*' of the opener, so it takes "/*/" for a complete
// comment.
func TestSlashStarSlashIsNotACompleteComment(t *testing.T) {
	for _, tc := range []struct {
		name   string
		in     string
		accept bool
		want   string
	}{
		{
			// the comment is `/*/ a b; /*/`; only `c d;` is a statement
			name:   "statements inside a comment are returned",
			in:     "/*/ a b; /*/ c d;",
			accept: true,
			want:   `(c arg=true "d" [])`,
		},
		{
			// the comment is `/*/ hidden; */`
			name:   "well-formed text is rejected",
			in:     "/*/ hidden; */ a b;",
			accept: true,
			want:   `(a arg=true "b" [])`,
		},
		{
			// the comment is never closed
			name:   "unterminated comment is accepted",
			in:     "a b; /*/",
			accept: false,
		},
		{
			// control: the same texts with a blank after the opener behave
			name:   "control",
			in:     "/* / a b; /*/ c d;",
			accept: true,
			want:   `(c arg=true "d" [])`,
		},
	} {
		ss, err := Parse(tc.in, "demo.yang")
		switch {
		case tc.accept && err != nil:
			t.Errorf("%s: Parse(%q) rejected a well-formed text: %v", tc.name, tc.in, err)
		case tc.accept && f1dump(ss) != tc.want:
			t.Errorf("%s: Parse(%q) = %s, want %s", tc.name, tc.in, f1dump(ss), tc.want)
		case !tc.accept && err == nil:
			t.Errorf("%s: Parse(%q) accepted a text with an unterminated comment and returned %s", tc.name, tc.in, f1dump(ss))
		}
	}
}

package yang

import "testing"

// In the argument of a pattern statement an unknown backslash escape is kept
// verbatim.  When the character after the backslash is a literal line break,
// the lexer appends the line break through the "ordinary character" path and
// so never enters its line-break handling: the indentation of the following
// line is not stripped (RFC 7950 6.1.3: leading whitespace of a continuation
// line is stripped up to and including the column of the opening quote).
func TestPatternBackslashAtEndOfLineKeepsIndentation(t *testing.T) {
	// The opening quote is in column 8 (0-based); the continuation line is
	// indented by 9 blanks, i.e. exactly up to and including that column.
	const withBackslash = "pattern \"ab\\\n         cd\";"
	const without = "pattern \"ab\n         cd\";"

	parse := func(in string) string {
		ss, err := Parse(in, "demo.yang")
		if err != nil {
			t.Fatalf("Parse(%q): %v", in, err)
		}
		if len(ss) != 1 || !ss[0].HasArgument {
			t.Fatalf("Parse(%q): unexpected shape", in)
		}
		return ss[0].Argument
	}

	// control: no backslash, the indentation goes away
	if got, want := parse(without), "ab\ncd"; got != want {
		t.Fatalf("control: got %q, want %q", got, want)
	}
	// the backslash is preserved verbatim (pattern rule), the line break is a
	// line break, the indentation after it must go away all the same
	if got, want := parse(withBackslash), "ab\\\ncd"; got != want {
		t.Errorf("Parse(%q): argument = %q, want %q", withBackslash, got, want)
	}

	// Same thing with a tab as indentation: it ends in column 7, left of the
	// quote's column, so it is indentation as a whole and must be stripped.
	const tabbed = "pattern \"ab\\\n\tcd\";"
	if got, want := parse(tabbed), "ab\\\ncd"; got != want {
		t.Errorf("Parse(%q): argument = %q, want %q", tabbed, got, want)
	}
}

package yang

import (
	"context"
	"os"
	"os/exec"
	"strings"
	"testing"
	"time"
)

// nextStatement recurses once per nesting level without any bound, so a
// well-formed text that nests blocks deeply enough does not get parsed and
// does not get rejected either: the Go runtime aborts the whole process with
// "fatal error: stack overflow" (which cannot be recovered from).
//
// The scenario runs in a child process; the parent reports the outcome.
func TestDeepNestingKillsTheProcess(t *testing.T) {
	const depth = 6000000
	if os.Getenv("GY_DEEP_CHILD") == "1" {
		in := strings.Repeat("a{", depth) + strings.Repeat("}", depth)
		ss, err := Parse(in, "deep.yang")
		if err != nil {
			os.Stdout.WriteString("CHILD-REJECTED: " + err.Error() + "\n")
			os.Exit(0)
		}
		// walk down iteratively to check the shape
		n := 0
		for len(ss) == 1 {
			n++
			ss = ss[0].SubStatements()
		}
		if n == depth {
			os.Stdout.WriteString("CHILD-OK\n")
		} else {
			os.Stdout.WriteString("CHILD-WRONG-SHAPE\n")
		}
		os.Exit(0)
	}

	ctx, cancel := context.WithTimeout(context.Background(), 5*time.Minute)
	defer cancel()
	cmd := exec.CommandContext(ctx, os.Args[0], "-test.run=^TestDeepNestingKillsTheProcess$")
	cmd.Env = append(os.Environ(), "GY_DEEP_CHILD=1")
	out, err := cmd.CombinedOutput()
	s := string(out)
	if len(s) > 400 {
		s = s[:400] + "..."
	}
	switch {
	case strings.Contains(string(out), "CHILD-OK"):
		// property holds
	case strings.Contains(string(out), "CHILD-REJECTED"):
		t.Errorf("a well-formed text (%d nested blocks) was rejected: %s", depth, s)
	default:
		t.Errorf("Parse of a well-formed text (%d nested blocks, %d bytes) neither returned statements nor an error; the child process died: %v\n%s", depth, 3*depth, err, s)
	}
}

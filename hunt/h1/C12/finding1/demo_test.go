package yang

import (
	"testing"
)

// TestFinding1ImplicitCaseNamespace: module b augments a choice of module a
// with shorthand case nodes (a leaf and a container written directly under
// the augment, without a "case" statement).  RFC 7950 section 7.9.2: "the case
// node still exists in the schema tree, and its identifier is the same as the
// identifier of the child node".  That case node is placed in the tree by the
// text of module b, so its namespace / instantiating module must be b's, just
// as it is for the explicitly written "case bk".  The library creates the
// implicit case in FixChoice without carrying over the namespace stamp of the
// augment, so the implicit case reports the augmented module a.
func TestFinding1ImplicitCaseNamespace(t *testing.T) {
	srcs := []struct{ name, text string }{
		{"a.yang", `module a {
  namespace "urn:a";
  prefix a;
  container c {
    choice ch {
      leaf own { type string; }
      case k { leaf kl { type string; } }
    }
  }
}`},
		{"b.yang", `module b {
  namespace "urn:b";
  prefix b;
  import a { prefix a; }
  augment "/a:c/a:ch" {
    leaf bl { type string; }
    container bc { leaf x { type string; } }
    case bk { leaf y { type string; } }
  }
}`},
	}
	ms := NewModules()
	for _, s := range srcs {
		if err := ms.Parse(s.text, s.name); err != nil {
			t.Fatalf("parse %s: %v", s.name, err)
		}
	}
	if errs := ms.Process(); len(errs) != 0 {
		t.Fatalf("Process: %v", errs)
	}
	root := ToEntry(ms.Modules["a"])

	// Reference: the module whose text placed each schema node in the tree.
	want := []struct {
		path []string
		mod  string
	}{
		{[]string{"c"}, "a"},
		{[]string{"c", "ch"}, "a"},
		{[]string{"c", "ch", "own"}, "a"},        // implicit case, written in a
		{[]string{"c", "ch", "own", "own"}, "a"}, // leaf
		{[]string{"c", "ch", "k"}, "a"},
		{[]string{"c", "ch", "k", "kl"}, "a"},
		{[]string{"c", "ch", "bk"}, "b"}, // explicit case written in b (control)
		{[]string{"c", "ch", "bk", "y"}, "b"},
		{[]string{"c", "ch", "bl"}, "b"},       // implicit case for leaf bl, written in b
		{[]string{"c", "ch", "bl", "bl"}, "b"}, // leaf bl
		{[]string{"c", "ch", "bc"}, "b"},       // implicit case for container bc, written in b
		{[]string{"c", "ch", "bc", "bc"}, "b"},
		{[]string{"c", "ch", "bc", "bc", "x"}, "b"},
	}
	for _, w := range want {
		e := root
		for _, p := range w.path {
			if e = e.Dir[p]; e == nil {
				t.Fatalf("node %v not found", w.path)
			}
		}
		im, err := e.InstantiatingModule()
		if err != nil {
			t.Errorf("%v: InstantiatingModule: %v", w.path, err)
			continue
		}
		ns := e.Namespace().Name
		if im != w.mod || ns != "urn:"+w.mod {
			t.Errorf("%v (kind %v): Namespace()=%q InstantiatingModule()=%q, want module %q", w.path, e.Kind, ns, im, w.mod)
		}
	}
}

package yang

import (
	"testing"
)

// TestFinding3AugmentOfShorthandCase: module a has a choice whose only branch
// is written in shorthand (a container directly under the choice).  RFC 7950
// section 7.9.2: "the case node still exists in the schema tree, and its
// identifier is the same as the identifier of the child node.  Schema node
// identifiers MUST always explicitly include case node identifiers."  So the
// schema node identifier /a:c/a:ch/a:own names the CASE own, and
// /a:c/a:ch/a:own/a:own names the container.  Module b augments the case.
// The new leaf is therefore a sibling of the container own: its nearest
// ancestor with a config statement is none, so it is read-write.
//
// The library resolves augment targets before it inserts the implicit case
// nodes, so the path hits the container instead; the leaf is instantiated
// inside the "config false" container and ReadOnly() says true.
func TestFinding3AugmentOfShorthandCase(t *testing.T) {
	srcs := []struct{ name, text string }{
		{"a.yang", `module a {
  namespace "urn:a";
  prefix a;
  container c {
    choice ch {
      container own {
        config false;
        leaf l { type string; }
      }
    }
  }
}`},
		{"b.yang", `module b {
  namespace "urn:b";
  prefix b;
  import a { prefix a; }
  augment "/a:c/a:ch/a:own" {
    leaf sib { type string; }
  }
}`},
	}
	ms := NewModules()
	for _, s := range srcs {
		if err := ms.Parse(s.text, s.name); err != nil {
			t.Fatalf("parse %s: %v", s.name, err)
		}
	}
	if errs := ms.Process(); len(errs) != 0 {
		t.Fatalf("Process: %v", errs)
	}
	root := ToEntry(ms.Modules["a"])

	cs := root.Dir["c"].Dir["ch"].Dir["own"]
	if cs == nil || cs.Kind != CaseEntry {
		t.Fatalf("case own not found")
	}
	if w := cs.Dir["own"]; w == nil || w.Kind != DirectoryEntry || !w.ReadOnly() {
		t.Fatalf("container own not found below case own, or not read-only")
	}

	// The implicit case has no config statement of its own (a case cannot
	// have one); the "config false" belongs to the container below it.  The
	// nearest explicit config statement on the path of the case is none.
	if cs.ReadOnly() {
		t.Errorf("implicit case own: ReadOnly()=true, want false (it copies the config of the container it wraps)")
	}

	// Where the RFC puts the leaf: /c/ch/own(case)/sib, read-write, module b.
	sib := cs.Dir["sib"]
	if sib == nil {
		t.Errorf("leaf sib is not a child of case own (children of the case: %v)", finding3Keys(cs.Dir))
	} else {
		if sib.ReadOnly() {
			t.Errorf("case own/sib: ReadOnly()=true, want false")
		}
		if im, _ := sib.InstantiatingModule(); im != "b" {
			t.Errorf("case own/sib: InstantiatingModule()=%q, want b", im)
		}
	}

	// Where the library puts it: inside the config false container.
	if wrong := cs.Dir["own"].Dir["sib"]; wrong != nil {
		t.Errorf("leaf sib was instantiated at %s, inside the config false container: ReadOnly()=%v, want a read-write leaf at /a/c/ch/own/sib",
			wrong.Path(), wrong.ReadOnly())
	}
}

func finding3Keys(m map[string]*Entry) []string {
	var ks []string
	for k := range m {
		ks = append(ks, k)
	}
	return ks
}

package yang

import (
	"testing"
)

// TestFinding2UsesRefineAugmentIgnored: a "uses" statement carries a
// "refine ... { config false; }" and an "augment" substatement (RFC 7950
// sections 7.13.2 and 7.17).  The refine gives the instantiated container an
// explicit config statement, so it and everything below it is read-only; the
// augment adds a leaf that belongs to the using module.  The library parses
// both substatements, reports no error, and ignores them when it builds the
// Entry tree: ReadOnly() answers false and the augmented leaf does not exist.
func TestFinding2UsesRefineAugmentIgnored(t *testing.T) {
	srcs := []struct{ name, text string }{
		{"a.yang", `module a {
  namespace "urn:a";
  prefix a;
  grouping g {
    container c { leaf l { type string; } }
    leaf m { type string; }
  }
}`},
		{"b.yang", `module b {
  namespace "urn:b";
  prefix b;
  import a { prefix a; }
  container top {
    uses a:g {
      refine c { config false; }
      augment c { leaf al { type string; } }
    }
  }
  container plain { uses a:g; }
}`},
	}
	ms := NewModules()
	for _, s := range srcs {
		if err := ms.Parse(s.text, s.name); err != nil {
			t.Fatalf("parse %s: %v", s.name, err)
		}
	}
	if errs := ms.Process(); len(errs) != 0 {
		t.Fatalf("Process: %v", errs)
	}
	root := ToEntry(ms.Modules["b"])

	want := []struct {
		path []string
		ro   bool
	}{
		{[]string{"top"}, false},
		{[]string{"top", "m"}, false},
		{[]string{"top", "c"}, true},       // refine c { config false; }
		{[]string{"top", "c", "l"}, true},  // inherits from c
		{[]string{"top", "c", "al"}, true}, // added by the uses-augment, inherits from c
		{[]string{"plain", "c"}, false},    // control: the other use is untouched
		{[]string{"plain", "c", "l"}, false},
	}
	for _, w := range want {
		e := root
		for _, p := range w.path {
			if e = e.Dir[p]; e == nil {
				break
			}
		}
		if e == nil {
			t.Errorf("%v: node is missing from the Entry tree", w.path)
			continue
		}
		if got := e.ReadOnly(); got != w.ro {
			t.Errorf("%v: ReadOnly()=%v, want %v", w.path, got, w.ro)
		}
		if im, err := e.InstantiatingModule(); err != nil || im != "b" {
			t.Errorf("%v: InstantiatingModule()=%q, %v; want b", w.path, im, err)
		}
	}
}

package yang

// Finding 3: Process() remembers which deviating modules it has handled by
// *name*, in one table shared by modules and submodules.  When a module and a
// submodule (of another module) carry the same name, the deviations of the
// submodule are skipped: they are neither applied nor reported.
//
// Run from the root of the worktree:
//   cp OUT/finding3/demo_test.go pkg/yang/zz_h1c08_f3_test.go
//   go test -vet=off -count=1 -run TestH1C08Finding3 ./pkg/yang/
//   rm pkg/yang/zz_h1c08_f3_test.go

import (
	"strings"
	"testing"
)

const f3Base = `module b { namespace "urn:b"; prefix b;
  container c {
    leaf lf  { type string; default "x"; }
    leaf lf2 { type string; }
  }
}`

// A deviating module called "x" ...
const f3ModX = `module x { namespace "urn:x"; prefix x; import b { prefix b; }
  deviation /b:c/b:lf { deviate replace { default "from-module-x"; } }
}`

// ... and module y, whose deviations live in its submodule; SUB is replaced
// by the name under test.
const f3ModY = `module y { namespace "urn:y"; prefix y; include SUB; }`
const f3SubY = `submodule SUB { belongs-to y { prefix y; } import b { prefix b; }
  deviation /b:c/b:lf2 { deviate not-supported; }
}`

func f3Run(t *testing.T, subName string) (lf2Present bool, lfDefault []string, errs []error) {
	t.Helper()
	ms := NewModules()
	repl := func(s string) string { return strings.ReplaceAll(s, "SUB", subName) }
	for _, m := range []struct{ file, text string }{
		{"b.yang", f3Base}, {"x.yang", f3ModX}, {"y.yang", repl(f3ModY)}, {"y-sub.yang", repl(f3SubY)},
	} {
		if err := ms.Parse(m.text, m.file); err != nil {
			t.Fatalf("parse %s: %v", m.file, err)
		}
	}
	errs = ms.Process()
	c := ToEntry(ms.Modules["b"]).Dir["c"]
	_, lf2Present = c.Dir["lf2"]
	return lf2Present, c.Dir["lf"].Default, errs
}

func TestH1C08Finding3(t *testing.T) {
	// Control: with a submodule name that differs from every module name,
	// both deviations take effect.
	present, def, errs := f3Run(t, "ysub")
	if len(errs) != 0 || present || len(def) != 1 || def[0] != "from-module-x" {
		t.Fatalf("control failed: lf2 present=%v, lf default=%q, errs=%v", present, def, errs)
	}

	// Same schema, but the submodule of y is called "x" like the module x.
	present, def, errs = f3Run(t, "x")
	t.Logf("lf2 present=%v, lf default=%q, errs=%v", present, def, errs)
	if len(def) != 1 || def[0] != "from-module-x" {
		t.Errorf("deviation of module x not applied: default=%q", def)
	}
	if present && len(errs) == 0 {
		t.Errorf("submodule x (of module y) says \"deviation /b:c/b:lf2 { deviate not-supported; }\", " +
			"but /b:c/b:lf2 is still there and Process() reported no error: the deviation was silently dropped")
	}
}

package yang

// Finding 2: "deviate delete" of an element bound that the target does not
// have is not reported when the deviation spells the bound's implicit value
// (min-elements 0 / max-elements unbounded).
//
// Run from the root of the worktree:
//   cp OUT/finding2/demo_test.go pkg/yang/zz_h1c08_f2_test.go
//   go test -vet=off -count=1 -run TestH1C08Finding2 ./pkg/yang/
//   rm pkg/yang/zz_h1c08_f2_test.go

import "testing"

const f2Base = `module b { namespace "urn:b"; prefix b;
  container c {
    // neither of these has a min-elements or a max-elements statement
    list li { key k; leaf k { type string; } }
    leaf-list ll { type string; }
    // these have the statements, with the very same values
    list li-explicit { key k; leaf k { type string; } min-elements 0; max-elements unbounded; }
  }
}`

func f2Process(t *testing.T, dev string) []error {
	t.Helper()
	ms := NewModules()
	if err := ms.Parse(f2Base, "b.yang"); err != nil {
		t.Fatal(err)
	}
	if err := ms.Parse(dev, "d.yang"); err != nil {
		t.Fatal(err)
	}
	return ms.Process()
}

func TestH1C08Finding2(t *testing.T) {
	hdr := `module d { namespace "urn:d"; prefix d; import b { prefix b; } `

	// Controls: the library does report an absent bound when the value
	// differs from the implicit one, and accepts deleting a bound that is
	// really there.
	if errs := f2Process(t, hdr+`deviation /b:c/b:li { deviate delete { min-elements 3; } } }`); len(errs) == 0 {
		t.Fatalf("control: deleting min-elements 3 from a list without min-elements was not reported")
	}
	if errs := f2Process(t, hdr+`deviation /b:c/b:li-explicit { deviate delete { min-elements 0; max-elements unbounded; } } }`); len(errs) != 0 {
		t.Fatalf("control: deleting bounds that are present with equal arguments failed: %v", errs)
	}

	for _, tt := range []struct{ desc, dev string }{
		{"list, delete absent min-elements", `deviation /b:c/b:li { deviate delete { min-elements 0; } }`},
		{"list, delete absent max-elements", `deviation /b:c/b:li { deviate delete { max-elements unbounded; } }`},
		{"leaf-list, delete absent min-elements", `deviation /b:c/b:ll { deviate delete { min-elements 0; } }`},
		{"leaf-list, delete absent max-elements", `deviation /b:c/b:ll { deviate delete { max-elements "unbounded"; } }`},
	} {
		t.Run(tt.desc, func(t *testing.T) {
			errs := f2Process(t, hdr+tt.dev+" }")
			if len(errs) == 0 {
				t.Errorf("%s: the target has no such statement, so the deviation cannot be applied, but Process() reported no error", tt.dev)
			} else {
				t.Logf("reported (good): %v", errs)
			}
		})
	}
}

package yang

// Finding 1: the namespace prefix of every step after the first one of a
// deviation's target path is ignored.  A deviation whose target does not
// exist (wrong or even undeclared prefix on a later step) is not reported;
// it is silently applied to a different node that merely has the same local
// name.
//
// Run from the root of the worktree:
//   cp OUT/finding1/demo_test.go pkg/yang/zz_h1c08_f1_test.go
//   go test -vet=off -count=1 -run TestH1C08Finding1 ./pkg/yang/
//   rm pkg/yang/zz_h1c08_f1_test.go

import (
	"fmt"
	"sort"
	"strings"
	"testing"
)

const f1Base = `module b { namespace "urn:b"; prefix b;
  container c {
    leaf lf { type string; default "x"; }
    leaf other { type string; }
  }
}`

// module a puts a leaf "m" in namespace urn:a below /b:c.  Its schema node
// identifier is /b:c/a:m; /b:c/b:m does not exist.
const f1Aug = `module a { namespace "urn:a"; prefix a; import b { prefix b; }
  augment /b:c { leaf m { type string; } }
}`

func f1Load(t *testing.T, texts map[string]string) (*Modules, []error) {
	t.Helper()
	ms := NewModules()
	var names []string
	for n := range texts {
		names = append(names, n)
	}
	sort.Strings(names)
	for _, n := range names {
		if err := ms.Parse(texts[n], n+".yang"); err != nil {
			t.Fatalf("parse %s: %v", n, err)
		}
	}
	return ms, ms.Process()
}

func f1Dump(e *Entry, path string, out map[string]string) {
	ty := ""
	if e.Type != nil {
		ty = e.Type.Name
	}
	out[path] = fmt.Sprintf("kind=%v config=%v mandatory=%v default=%q units=%q type=%s", e.Kind, e.Config, e.Mandatory, e.Default, e.Units, ty)
	for k, c := range e.Dir {
		f1Dump(c, path+"/"+k, out)
	}
}

func f1Tree(ms *Modules) map[string]string {
	out := map[string]string{}
	f1Dump(ToEntry(ms.Modules["b"]), "", out)
	return out
}

func TestH1C08Finding1(t *testing.T) {
	tests := []struct {
		desc string
		dev  string
	}{{
		desc: "step carries the deviating module's own prefix: /b:c/d:lf does not exist",
		dev: `module d { namespace "urn:d"; prefix d; import b { prefix b; }
		  deviation /b:c/d:lf { deviate not-supported; } }`,
	}, {
		desc: "step carries a prefix that is declared nowhere: /b:c/zz:lf",
		dev: `module d { namespace "urn:d"; prefix d; import b { prefix b; }
		  deviation /b:c/zz:lf { deviate replace { default "changed"; } } }`,
	}, {
		desc: "node augmented in by module a named with b's prefix: /b:c/b:m does not exist (it is /b:c/a:m)",
		dev: `module d { namespace "urn:d"; prefix d; import b { prefix b; } import a { prefix a; }
		  deviation /b:c/b:m { deviate not-supported; } }`,
	}}

	without, errs := f1Load(t, map[string]string{"b": f1Base, "a": f1Aug})
	if len(errs) != 0 {
		t.Fatalf("base modules do not process: %v", errs)
	}
	want := f1Tree(without)

	for _, tt := range tests {
		t.Run(tt.desc, func(t *testing.T) {
			with, errs := f1Load(t, map[string]string{"b": f1Base, "a": f1Aug, "d": tt.dev})
			if len(errs) != 0 {
				// This is what the property demands: missing target => error.
				t.Logf("reported (good): %v", errs)
				return
			}
			got := f1Tree(with)
			var diffs []string
			for k, v := range want {
				if got[k] != v {
					diffs = append(diffs, fmt.Sprintf("%s:\n      without deviating module: %s\n      with deviating module:    %s", k, v, got[k]))
				}
			}
			sort.Strings(diffs)
			t.Errorf("the deviation's target does not exist, yet Process() reported no error, and nodes that no deviation targets changed:\n    %s", strings.Join(diffs, "\n    "))
		})
	}

	// Control: the correctly prefixed path works and is what should be required.
	with, errs := f1Load(t, map[string]string{"b": f1Base, "a": f1Aug, "d": `module d { namespace "urn:d"; prefix d; import b { prefix b; } import a { prefix a; }
	  deviation /b:c/a:m { deviate not-supported; } }`})
	if len(errs) != 0 {
		t.Fatalf("control: %v", errs)
	}
	if _, ok := f1Tree(with)["/c/m"]; ok {
		t.Fatalf("control: /b:c/a:m was not removed")
	}
}

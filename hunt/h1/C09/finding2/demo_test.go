package yang

import "testing"

// TestFinding2SubmoduleCannotSeeItsModule shows that a type reference written
// in a submodule does not find the top-level typedefs of the module the
// submodule belongs to, nor those of the module's other submodules (YANG 1.1,
// RFC 7950 section 5.1: "A submodule can reference any definition in the module
// it belongs to and in all submodules included by the module").  The lookup
// stops at the submodule's own top level (and the submodules it includes
// itself), so valid references are reported as "unknown type".
func TestFinding2SubmoduleCannotSeeItsModule(t *testing.T) {
	srcs := []struct{ name, text string }{
		{"m.yang", `module m {
  yang-version 1.1;
  namespace "urn:m";
  prefix m;
  include s1;
  include s2;

  typedef percent { type uint8 { range "0..100"; } units "percent"; default 50; }

  // Control: the module itself sees the typedef of its submodule.
  leaf in-module { type s2-name; }
}`},
		{"s1.yang", `submodule s1 {
  yang-version 1.1;
  belongs-to m { prefix mm; }

  leaf load     { type percent; }     // typedef at the top level of module m
  leaf load-pfx { type mm:percent; }  // the same, own-prefixed
  leaf name     { type s2-name; }     // typedef at the top level of sibling submodule s2
  leaf name-pfx { type mm:s2-name; }
}`},
		{"s2.yang", `submodule s2 {
  yang-version 1.1;
  belongs-to m { prefix mm; }

  typedef s2-name { type string { pattern "[a-z]+"; } }
}`},
	}
	ms := NewModules()
	for _, s := range srcs {
		if err := ms.Parse(s.text, s.name); err != nil {
			t.Fatalf("%s: %v", s.name, err)
		}
	}
	errs := ms.Process()
	for _, err := range errs {
		t.Errorf("Process: %v", err)
	}
	if len(errs) != 0 {
		t.Fatalf("a valid YANG 1.1 module was rejected with %d error(s)", len(errs))
	}

	root := ToEntry(ms.Modules["m"])
	for _, tt := range []struct {
		leaf  string
		kind  TypeKind
		name  string
		units string
		def   string
	}{
		{"in-module", Ystring, "s2-name", "", ""},
		{"load", Yuint8, "percent", "percent", "50"},
		{"load-pfx", Yuint8, "percent", "percent", "50"},
		{"name", Ystring, "s2-name", "", ""},
		{"name-pfx", Ystring, "s2-name", "", ""},
	} {
		e := root.Dir[tt.leaf]
		if e == nil || e.Type == nil {
			t.Errorf("leaf %s: no resolved type", tt.leaf)
			continue
		}
		if y := e.Type; y.Kind != tt.kind || y.Name != tt.name || y.Units != tt.units || y.Default != tt.def {
			t.Errorf("leaf %s: got %s/%s units=%q default=%q, want %s/%s units=%q default=%q",
				tt.leaf, y.Name, y.Kind, y.Units, y.Default, tt.name, tt.kind, tt.units, tt.def)
		}
	}
}

package yang

import (
	"fmt"
	"sort"
	"strings"
	"testing"
)

// TestFinding1UnionDropsBitsMember shows that a union whose members are two
// bits types with different bit sets resolves to a union with only the first
// of them: the second is taken for a duplicate, because YangType.Equal does
// not compare the Bit field.
func TestFinding1UnionDropsBitsMember(t *testing.T) {
	const src = `module m {
  namespace "urn:m";
  prefix m;

  typedef flags-a { type bits { bit read { position 0; } bit write { position 1; } } }
  typedef flags-b { type bits { bit up { position 5; } bit down { position 6; } } }

  // A union typedef over the two, and a typedef derived from it.
  typedef either { type union { type flags-a; type flags-b; } }
  typedef either2 { type either; units "u"; }

  leaf direct { type union { type bits { bit a; } type bits { bit b; } } }
  leaf chained { type either2; }

  // Control: the same shape with enumerations keeps both members.
  leaf control { type union { type enumeration { enum a; } type enumeration { enum b; } } }
}`
	ms := NewModules()
	if err := ms.Parse(src, "m.yang"); err != nil {
		t.Fatal(err)
	}
	if errs := ms.Process(); len(errs) != 0 {
		t.Fatalf("unexpected errors: %v", errs)
	}
	root := ToEntry(ms.Modules["m"])

	describe := func(y *YangType) string {
		var parts []string
		for _, m := range y.Type {
			s := m.Name + "/" + m.Kind.String()
			var set *EnumType
			switch {
			case m.Bit != nil:
				set = m.Bit
			case m.Enum != nil:
				set = m.Enum
			}
			if set != nil {
				names := set.Names()
				sort.Strings(names)
				s += fmt.Sprintf("%v", names)
			}
			parts = append(parts, s)
		}
		return "union{" + strings.Join(parts, " | ") + "}"
	}

	for _, tt := range []struct {
		leaf string
		want []string // bit/enum names that must be carried by some member
	}{
		{"control", []string{"a", "b"}},
		{"direct", []string{"a", "b"}},
		{"chained", []string{"read", "write", "up", "down"}},
	} {
		y := root.Dir[tt.leaf].Type
		got := describe(y)
		t.Logf("leaf %-8s resolves to %s", tt.leaf, got)
		if len(y.Type) != 2 {
			t.Errorf("leaf %s: union has %d member(s), want 2: %s", tt.leaf, len(y.Type), got)
		}
		for _, name := range tt.want {
			found := false
			for _, m := range y.Type {
				if (m.Bit != nil && m.Bit.IsDefined(name)) || (m.Enum != nil && m.Enum.IsDefined(name)) {
					found = true
				}
			}
			if !found {
				t.Errorf("leaf %s: no union member carries %q: %s", tt.leaf, name, got)
			}
		}
	}
}

package yang

import (
	"os"
	"path/filepath"
	"testing"
)

// TestFinding3PrefixBindsToOtherRevision shows that the typedef a foreign
// prefix denotes depends on what else happens to be loaded: module m imports
// revision 2019-01-01 of n under prefix x, that revision is available on the
// search path, but when revision 2021-01-01 of n has been loaded beforehand,
// x:t silently binds to the typedef t of n@2021-01-01 (a string) instead of the
// one of the imported n@2019-01-01 (an int8 with units and a default).
func TestFinding3PrefixBindsToOtherRevision(t *testing.T) {
	const (
		n2019 = `module n { namespace "urn:n"; prefix n; revision 2019-01-01;
  typedef t { type int8 { range "0..9"; } units "old"; default 7; } }`
		n2021 = `module n { namespace "urn:n"; prefix n; revision 2021-01-01;
  typedef t { type string { pattern "new.*"; } } }`
		m = `module m { namespace "urn:m"; prefix m;
  import n { prefix x; revision-date 2019-01-01; }
  typedef mt { type x:t; }
  leaf a { type x:t; }
  leaf b { type mt; }
}`
	)
	dir := t.TempDir()
	if err := os.WriteFile(filepath.Join(dir, "n@2019-01-01.yang"), []byte(n2019), 0o644); err != nil {
		t.Fatal(err)
	}

	load := func(preload2021 bool) *Entry {
		ms := NewModules()
		ms.AddPath(dir) // n@2019-01-01.yang can be found here
		if preload2021 {
			if err := ms.Parse(n2021, "n@2021-01-01.yang"); err != nil {
				t.Fatal(err)
			}
		}
		if err := ms.Parse(m, "m.yang"); err != nil {
			t.Fatal(err)
		}
		if errs := ms.Process(); len(errs) != 0 {
			t.Fatalf("preload2021=%v: unexpected errors: %v", preload2021, errs)
		}
		return ToEntry(ms.Modules["m"])
	}

	for _, preload := range []bool{false, true} {
		root := load(preload)
		for _, leaf := range []string{"a", "b"} {
			y := root.Dir[leaf].Type
			t.Logf("n@2021-01-01 loaded first=%-5v leaf %s: kind=%s units=%q default=%q patterns=%q",
				preload, leaf, y.Kind, y.Units, y.Default, y.Pattern)
			if y.Kind != Yint8 || y.Units != "old" || y.Default != "7" || len(y.Pattern) != 0 {
				t.Errorf("n@2021-01-01 loaded first=%v: leaf %s of type x:t (x = n revision-date 2019-01-01) "+
					"resolved to kind=%s units=%q default=%q patterns=%q; want the typedef of n@2019-01-01: int8 units=\"old\" default=\"7\"",
					preload, leaf, y.Kind, y.Units, y.Default, y.Pattern)
			}
			if dv := root.Dir[leaf].DefaultValues(); len(dv) != 1 || dv[0] != "7" {
				t.Errorf("n@2021-01-01 loaded first=%v: leaf %s DefaultValues() = %q, want [\"7\"]", preload, leaf, dv)
			}
		}
	}
}

package yang

// Finding 3: a load that fails is not without trace.
//
//  (a) Modules.Parse adds the statements of a text one by one.  When the
//      second module of a text is rejected, the first one has already been
//      added (and its typedefs adopted) and stays.
//  (b) Modules.Read adds the directory of the file to the search path before
//      the file is parsed.  When the file is rejected, the directory stays on
//      the path and later runs satisfy imports from it.
//
// Copy this file into pkg/yang and run
//   go test -vet=off -count=1 -run TestH1C18FailedLoadLeavesTrace ./pkg/yang/

import (
	"os"
	"path/filepath"
	"sort"
	"strings"
	"testing"
)

func h1c18f3Errs(errs []error) string {
	var s []string
	for _, e := range errs {
		s = append(s, e.Error())
	}
	return strings.Join(s, "\n")
}

func h1c18f3Names(ms *Modules) string {
	var s []string
	for n := range ms.Modules {
		s = append(s, n)
	}
	sort.Strings(s)
	return strings.Join(s, ",")
}

func TestH1C18FailedLoadLeavesTrace(t *testing.T) {
	t.Run("text whose second module is rejected", func(t *testing.T) {
		old, _ := os.Getwd()
		os.Chdir(t.TempDir())
		defer os.Chdir(old)

		good := `module user { namespace "urn:user"; prefix u; import lib { prefix l; } leaf x { type l:t; } }`
		// The second module has a statement that does not exist.
		bad := `module lib { namespace "urn:lib-draft"; prefix l; typedef t { type nosuchtype; } }
module other { namespace "urn:other"; prefix o; bogus-statement 1; }`
		// What the user loads after the rejection.
		lib := `module lib { namespace "urn:lib"; prefix l; typedef t { type string; } }`

		// The reference: the failed text is never offered.
		ref := NewModules()
		if err := ref.Parse(good, "user.yang"); err != nil {
			t.Fatal(err)
		}
		refLoad := ref.Parse(lib, "lib.yang")
		refErrs := h1c18f3Errs(ref.Process())
		refNames := h1c18f3Names(ref)

		ms := NewModules()
		if err := ms.Parse(good, "user.yang"); err != nil {
			t.Fatal(err)
		}
		err := ms.Parse(bad, "draft.yang")
		if err == nil {
			t.Fatal("the bad text was accepted")
		}
		t.Logf("the failed load: %v", err)
		afterFail := h1c18f3Names(ms)
		gotLoad := ms.Parse(lib, "lib.yang")
		gotErrs := h1c18f3Errs(ms.Process())
		gotNames := h1c18f3Names(ms)

		t.Logf("modules right after the failed load: %s", afterFail)
		t.Logf("later load of lib.yang: with failed load: %v; without: %v", gotLoad, refLoad)
		t.Logf("errors of Process     : with failed load: %q; without: %q", gotErrs, refErrs)
		if afterFail != "user" {
			t.Errorf("after the failed load the set holds the modules %s, want user", afterFail)
		}
		if (gotLoad == nil) != (refLoad == nil) {
			t.Errorf("a later load gives %v after the failed load and %v without it", gotLoad, refLoad)
		}
		if gotErrs != refErrs {
			t.Errorf("Process gives %q after the failed load and %q without it", gotErrs, refErrs)
		}
		if gotNames != refNames {
			t.Errorf("the set holds %s after the failed load and %s without it", gotNames, refNames)
		}
	})

	t.Run("rejected file leaves its directory on the search path", func(t *testing.T) {
		cwd := t.TempDir()
		old, _ := os.Getwd()
		os.Chdir(cwd)
		defer os.Chdir(old)
		drafts := filepath.Join(cwd, "drafts")
		if err := os.Mkdir(drafts, 0755); err != nil {
			t.Fatal(err)
		}
		// A directory with a file that is rejected and an (old, different)
		// module lib next to it.
		os.WriteFile(filepath.Join(drafts, "broken.yang"), []byte(`module broken { namespace "urn:broken"; prefix b; bogus-statement 1; }`), 0644)
		os.WriteFile(filepath.Join(drafts, "lib.yang"), []byte(`module lib { namespace "urn:lib-draft"; prefix l; typedef t { type int8; } }`), 0644)
		good := `module user { namespace "urn:user"; prefix u; import lib { prefix l; } leaf x { type l:t; } }`

		run := func(offerBroken bool) (string, string, string) {
			ms := NewModules()
			if offerBroken {
				// what yang.go does for every file named on the
				// command line: report the error and carry on
				if err := ms.Read(filepath.Join(drafts, "broken.yang")); err == nil {
					t.Fatal("broken.yang was accepted")
				}
			}
			if err := ms.Parse(good, "user.yang"); err != nil {
				t.Fatal(err)
			}
			errs := h1c18f3Errs(ms.Process())
			return errs, h1c18f3Names(ms), strings.Join(ms.Path, ":")
		}
		gotErrs, gotNames, gotPath := run(true)
		refErrs, refNames, refPath := run(false)
		gotPath = strings.ReplaceAll(gotPath, cwd, "")
		t.Logf("with the failed load   : Process errors %q, modules %s, Path %q", gotErrs, gotNames, gotPath)
		t.Logf("without the failed load: Process errors %q, modules %s, Path %q", refErrs, refNames, refPath)
		if gotErrs != refErrs || gotNames != refNames {
			t.Errorf("the run after the failed load differs from the run without it:\n with   : errors %q, modules %s\n without: errors %q, modules %s", gotErrs, gotNames, refErrs, refNames)
		}
	})
}

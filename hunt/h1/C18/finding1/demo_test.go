package yang

// Finding 1: the links from import / include statements to the modules they
// denote (Import.Module, Include.Module) are never cleared.  A run of Process
// only overwrites the links it gets to; every other link keeps the value an
// earlier run gave it.  Loading more modules after a run and processing again
// therefore does not give what loading everything into a fresh set gives.
//
// Copy this file into pkg/yang and run
//   go test -vet=off -count=1 -run TestH1C18StaleLinks ./pkg/yang/

import (
	"os"
	"strings"
	"testing"
)

type h1c18f1Text struct{ name, text string }

func h1c18f1Errs(errs []error) string {
	var s []string
	for _, e := range errs {
		s = append(s, e.Error())
	}
	return strings.Join(s, "\n")
}

func h1c18f1Load(t *testing.T, ms *Modules, texts ...h1c18f1Text) {
	t.Helper()
	for _, tx := range texts {
		if err := ms.Parse(tx.text, tx.name); err != nil {
			t.Fatalf("loading %s: %v", tx.name, err)
		}
	}
}

func h1c18f1Link(m *Module) string {
	if m == nil {
		return "<nil>"
	}
	return m.FullName()
}

func TestH1C18StaleLinks(t *testing.T) {
	// Nothing may be picked up from the current directory.
	old, _ := os.Getwd()
	os.Chdir(t.TempDir())
	defer os.Chdir(old)

	// (a) No run reports a linking problem.  Module a includes submodule
	// s1; revision 2019 of s1 uses a grouping of module b.  After a first
	// run, revision 2020 of s1 is loaded.  From then on a includes s1@2020
	// and s1@2019 is a submodule that nothing includes.
	t.Run("submodule revision that is no longer included", func(t *testing.T) {
		first := []h1c18f1Text{
			{"a", `module a { namespace "urn:a"; prefix a; include s1; container c { leaf l { type string; } } }`},
			{"s1-2019", `submodule s1 { belongs-to a { prefix a; } revision 2019-01-01; import b { prefix b; } container old { uses b:g; } }`},
			{"b", `module b { namespace "urn:b"; prefix b; grouping g { leaf gl { type string; } } }`},
		}
		later := h1c18f1Text{"s1-2020", `submodule s1 { belongs-to a { prefix a; } revision 2020-01-01; container new { leaf n { type string; } } }`}

		inc := NewModules()
		h1c18f1Load(t, inc, first...)
		if errs := inc.Process(); len(errs) != 0 {
			t.Fatalf("first run: unexpected errors: %v", errs)
		}
		h1c18f1Load(t, inc, later)
		incErrs := h1c18f1Errs(inc.Process())
		incLink := h1c18f1Link(inc.SubModules["s1@2019-01-01"].Import[0].Module)

		bat := NewModules()
		h1c18f1Load(t, bat, append(first, later)...)
		batErrs := h1c18f1Errs(bat.Process())
		batLink := h1c18f1Link(bat.SubModules["s1@2019-01-01"].Import[0].Module)

		t.Logf("load, Process, load more, Process: errors = %q; s1@2019 'import b' -> %s", incErrs, incLink)
		t.Logf("load everything, Process         : errors = %q; s1@2019 'import b' -> %s", batErrs, batLink)
		if incErrs != batErrs {
			t.Errorf("the errors of Process differ between incremental and batch loading:\n incremental: %q\n batch      : %q", incErrs, batErrs)
		}
		if incLink != batLink {
			t.Errorf("the import of s1@2019 is linked to %s after incremental loading and to %s after batch loading", incLink, batLink)
		}
	})

	// (b) The same state seen through a run in which linking fails.  The
	// include of s1 fails in the second run (the newest revision of b, which
	// s1 imports, imports a module that is missing), so linking of a stops
	// there.  After incremental loading "include s1" and "include s2" keep
	// the links of the first run and what s2 defines resolves; in a fresh
	// set they are unset and the same run reports two more errors.
	t.Run("run in which linking fails", func(t *testing.T) {
		first := []h1c18f1Text{
			{"a", `module a { namespace "urn:a"; prefix a; include s1; include s2;
  typedef t { type s2t; }
  identity child { base s2id; }
  container c { leaf l { type t; } } }`},
			{"s1", `submodule s1 { belongs-to a { prefix a; } import b { prefix b; } leaf x { type b:bt; } }`},
			{"s2", `submodule s2 { belongs-to a { prefix a; } typedef s2t { type string; } identity s2id; }`},
			{"b-2019", `module b { namespace "urn:b"; prefix b; revision 2019-01-01; typedef bt { type string; } }`},
		}
		later := h1c18f1Text{"b-2020", `module b { namespace "urn:b"; prefix b; revision 2020-01-01; import zz { prefix zz; } typedef bt { type string; } }`}

		inc := NewModules()
		h1c18f1Load(t, inc, first...)
		if errs := inc.Process(); len(errs) != 0 {
			t.Fatalf("first run: unexpected errors: %v", errs)
		}
		h1c18f1Load(t, inc, later)
		incErrs := h1c18f1Errs(inc.Process())

		bat := NewModules()
		h1c18f1Load(t, bat, append(first, later)...)
		batErrs := h1c18f1Errs(bat.Process())

		t.Logf("load, Process, load more, Process: errors = %q", incErrs)
		t.Logf("load everything, Process         : errors = %q", batErrs)
		if incErrs != batErrs {
			t.Errorf("the errors of Process differ between incremental and batch loading:\n incremental: %q\n batch      : %q", incErrs, batErrs)
		}
	})
}

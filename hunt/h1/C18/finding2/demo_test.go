package yang

// Finding 2: modules that Process fetches from the search path.
//
// Process is not idempotent when a module enters the set during the run other
// than through the linking of the modules that were loaded before the run.  Such a module is absent from the list of modules the run
// links and - if it arrives after resolveIdentities - from the identity
// dictionary of the run, yet the same run converts it to an Entry tree and
// reports the errors of that tree.  The next run finds the module in the set
// from the start and treats it like any other.  So the second Process gives
// other errors and other trees than the first, on an unchanged set of loads
// (subtests a, b, d).  Subtest c shows, for the same feature, incremental
// loading giving another tree than batch loading.
//
// Copy this file into pkg/yang and run
//   go test -vet=off -count=1 -run TestH1C18AutoLoadedModules ./pkg/yang/

import (
	"os"
	"path/filepath"
	"strings"
	"testing"
)

func h1c18f2Errs(errs []error) string {
	var s []string
	for _, e := range errs {
		s = append(s, e.Error())
	}
	return strings.Join(s, "\n")
}

func TestH1C18AutoLoadedModules(t *testing.T) {
	// (a) Module q is only available as a file on the search path.  The
	// only loaded text that imports it is revision 2019 of submodule s, and
	// module a includes the newer revision 2020 of s.  Linking starts from
	// the modules and follows their includes, so it never visits s@2019 and
	// q is not loaded then.  q is loaded when the typedef of s@2019 is
	// resolved (FindModuleByPrefix -> Modules.FindModule -> Read), which is
	// after the identities were resolved.
	t.Run("module loaded while typedefs are resolved", func(t *testing.T) {
		cwd := t.TempDir()
		old, _ := os.Getwd()
		os.Chdir(cwd)
		defer os.Chdir(old)
		lib := filepath.Join(cwd, "lib")
		if err := os.Mkdir(lib, 0755); err != nil {
			t.Fatal(err)
		}
		q := `module q { namespace "urn:q"; prefix q;
  identity qid;
  typedef t { type string; }
  container qc { leaf r { type identityref { base qid; } } }
}`
		if err := os.WriteFile(filepath.Join(lib, "q.yang"), []byte(q), 0644); err != nil {
			t.Fatal(err)
		}

		ms := NewModules()
		ms.AddPath(lib)
		for _, tx := range [][2]string{
			{"a", `module a { namespace "urn:a"; prefix a; include s; }`},
			{"s-2019", `submodule s { belongs-to a { prefix a; } revision 2019-01-01; import q { prefix q; } typedef st { type q:t; } }`},
			{"s-2020", `submodule s { belongs-to a { prefix a; } revision 2020-01-01; typedef st { type string; } }`},
		} {
			if err := ms.Parse(tx[1], tx[0]); err != nil {
				t.Fatalf("loading %s: %v", tx[0], err)
			}
		}
		once := h1c18f2Errs(ms.Process())
		twice := h1c18f2Errs(ms.Process())
		once = strings.ReplaceAll(once, lib+string(filepath.Separator), "")
		twice = strings.ReplaceAll(twice, lib+string(filepath.Separator), "")
		t.Logf("errors of the first  Process: %q", once)
		t.Logf("errors of the second Process: %q", twice)
		if once != twice {
			t.Errorf("processing twice does not give the errors of processing once:\n once : %q\n twice: %q", once, twice)
		}
	})

	// (b) As (a), but nothing in q refers to its identities, so that neither
	// run reports an error: the trees differ silently.  After the first run
	// identity qroot of q has no values, after the second it has qchild.
	t.Run("no errors but other trees", func(t *testing.T) {
		cwd := t.TempDir()
		old, _ := os.Getwd()
		os.Chdir(cwd)
		defer os.Chdir(old)
		lib := filepath.Join(cwd, "lib")
		if err := os.Mkdir(lib, 0755); err != nil {
			t.Fatal(err)
		}
		q := `module q { namespace "urn:q"; prefix q;
  identity qroot;
  identity qchild { base qroot; }
  typedef t { type string; }
}`
		if err := os.WriteFile(filepath.Join(lib, "q.yang"), []byte(q), 0644); err != nil {
			t.Fatal(err)
		}
		ms := NewModules()
		ms.AddPath(lib)
		for _, tx := range [][2]string{
			{"a", `module a { namespace "urn:a"; prefix a; include s; }`},
			{"s-2019", `submodule s { belongs-to a { prefix a; } revision 2019-01-01; import q { prefix q; } typedef st { type q:t; } }`},
			{"s-2020", `submodule s { belongs-to a { prefix a; } revision 2020-01-01; typedef st { type string; } }`},
		} {
			if err := ms.Parse(tx[1], tx[0]); err != nil {
				t.Fatalf("loading %s: %v", tx[0], err)
			}
		}
		values := func() string {
			var s []string
			for _, id := range ToEntry(ms.Modules["q"]).Identities {
				var vs []string
				for _, v := range id.Values {
					vs = append(vs, v.Name)
				}
				s = append(s, id.Name+"{"+strings.Join(vs, ",")+"}")
			}
			return strings.Join(s, " ")
		}
		if errs := ms.Process(); len(errs) != 0 {
			t.Fatalf("first Process: unexpected errors %v", errs)
		}
		once := values()
		if errs := ms.Process(); len(errs) != 0 {
			t.Fatalf("second Process: unexpected errors %v", errs)
		}
		twice := values()
		t.Logf("identities of q after the first  Process: %s", once)
		t.Logf("identities of q after the second Process: %s", twice)
		if once != twice {
			t.Errorf("processing twice does not give the tree of processing once:\n once : %s\n twice: %s", once, twice)
		}
	})

	// (c) Related, with a cause of its own: incremental loading against batch
	// loading when a file is fetched from the search path.  Module a imports
	// revision 2020-01-01 of b, which is a file on the path.  Processed on
	// its own, a gets that file.  When revision 2019-01-01 of b is loaded
	// before the (first) run, FindModule settles for it without looking for
	// the file of the revision that was asked for.
	t.Run("import by revision-date, incremental against batch", func(t *testing.T) {
		cwd := t.TempDir()
		old, _ := os.Getwd()
		os.Chdir(cwd)
		defer os.Chdir(old)
		lib := filepath.Join(cwd, "lib")
		if err := os.Mkdir(lib, 0755); err != nil {
			t.Fatal(err)
		}
		b20 := `module b { namespace "urn:b"; prefix b; revision 2020-01-01; typedef t { type int8; } }`
		if err := os.WriteFile(filepath.Join(lib, "b@2020-01-01.yang"), []byte(b20), 0644); err != nil {
			t.Fatal(err)
		}
		a := `module a { namespace "urn:a"; prefix a; import b { prefix b; revision-date 2020-01-01; } leaf l { type b:t; } }`
		b19 := `module b { namespace "urn:b"; prefix b; revision 2019-01-01; typedef t { type string; } }`
		load := func(ms *Modules, text, name string) {
			if err := ms.Parse(text, name); err != nil {
				t.Fatal(err)
			}
		}
		process := func(ms *Modules) {
			if errs := ms.Process(); len(errs) != 0 {
				t.Fatalf("unexpected errors: %v", errs)
			}
		}
		describe := func(ms *Modules) string {
			m := ms.Modules["a"]
			return "import b -> " + m.Import[0].Module.FullName() + ", leaf l is " + ToEntry(m).Dir["l"].Type.Kind.String()
		}

		inc := NewModules()
		inc.AddPath(lib)
		load(inc, a, "a")
		process(inc)
		load(inc, b19, "b-2019")
		process(inc)

		bat := NewModules()
		bat.AddPath(lib)
		load(bat, a, "a")
		load(bat, b19, "b-2019")
		process(bat)

		t.Logf("load a, Process, load b@2019, Process: %s", describe(inc))
		t.Logf("load a, load b@2019, Process         : %s", describe(bat))
		if describe(inc) != describe(bat) {
			t.Errorf("incremental and batch loading give other trees:\n incremental: %s\n batch      : %s", describe(inc), describe(bat))
		}
	})

	// (d) The file that is found for "import q" holds a second module next
	// to q.  That module enters the set as a by-product of the import; the
	// run does not link its imports (the list of modules to link was taken
	// before), so its "uses q:g" is reported as unknown.  The next run links
	// it and reports nothing.
	t.Run("second module in an imported file", func(t *testing.T) {
		cwd := t.TempDir()
		old, _ := os.Getwd()
		os.Chdir(cwd)
		defer os.Chdir(old)
		lib := filepath.Join(cwd, "lib")
		if err := os.Mkdir(lib, 0755); err != nil {
			t.Fatal(err)
		}
		q := `module q { namespace "urn:q"; prefix q; grouping g { leaf gl { type string; } } }
module extra { namespace "urn:extra"; prefix x; import q { prefix q; } container xc { uses q:g; } }`
		if err := os.WriteFile(filepath.Join(lib, "q.yang"), []byte(q), 0644); err != nil {
			t.Fatal(err)
		}

		ms := NewModules()
		ms.AddPath(lib)
		if err := ms.Parse(`module a { namespace "urn:a"; prefix a; import q { prefix q; } container c { uses q:g; } }`, "a"); err != nil {
			t.Fatal(err)
		}
		once := h1c18f2Errs(ms.Process())
		twice := h1c18f2Errs(ms.Process())
		once = strings.ReplaceAll(once, lib+string(filepath.Separator), "")
		twice = strings.ReplaceAll(twice, lib+string(filepath.Separator), "")
		t.Logf("errors of the first  Process: %q", once)
		t.Logf("errors of the second Process: %q", twice)
		if once != twice {
			t.Errorf("processing twice does not give the errors of processing once:\n once : %q\n twice: %q", once, twice)
		}
	})
}

package yang

import (
	"testing"
)

// Two revisions of module m are loaded (module x imports the old one by
// revision-date, which is why both are there).  Only the OLD revision includes
// submodule s; the new revision has dropped it.
//
// For an absolute path whose first prefix is resolved in the context of a node
// that was written in the submodule, Entry.Find selects the tree with
//
//	module(mod)  ->  mod.Modules.Modules[mod.BelongsTo.Name]
//
// i.e. whatever is filed under the bare name "m" - the LATEST revision - and
// not the module that includes the submodule and whose tree the lookup started
// in.  The lookup then walks the wrong tree.
func TestH1C17Finding3SubmoduleOfOlderRevision(t *testing.T) {
	srcs := []struct{ name, text string }{
		{"m@2020-01-01.yang", `module m {
  yang-version 1.1; namespace "urn:m"; prefix m;
  include s;
  revision 2020-01-01;
  container top { leaf old { type string; } }
}`},
		{"m@2021-01-01.yang", `module m {
  yang-version 1.1; namespace "urn:m"; prefix m;
  revision 2021-01-01;
  container top { leaf new { type string; } }
  container subtop { leaf other { type string; } }
}`},
		{"s.yang", `submodule s {
  yang-version 1.1; belongs-to m { prefix mm; }
  container subtop { leaf sl { type string; } }
  augment "/mm:top" { leaf from-sub { type string; } }
}`},
		{"x.yang", `module x {
  yang-version 1.1; namespace "urn:x"; prefix x;
  import m { prefix m20; revision-date 2020-01-01; }
  leaf xl { type string; }
}`},
	}
	ms := NewModules()
	for _, s := range srcs {
		if err := ms.Parse(s.text, s.name); err != nil {
			t.Fatal(err)
		}
	}
	if errs := ms.Process(); len(errs) != 0 {
		t.Fatal(errs)
	}
	oldM, newM := ms.Modules["m@2020-01-01"], ms.Modules["m@2021-01-01"]
	if oldM == nil || newM == nil || oldM == newM {
		t.Fatal("expected two revisions of m")
	}
	oldRoot, newRoot := ToEntry(oldM), ToEntry(newM)

	// The walked tree of the old revision: /subtop and /subtop/sl come from the
	// submodule, /top/old from the module itself.
	subtop := oldRoot.Dir["subtop"]
	if subtop == nil || subtop.Dir["sl"] == nil || oldRoot.Dir["top"] == nil || oldRoot.Dir["top"].Dir["old"] == nil {
		t.Fatalf("unexpected tree of m@2020-01-01")
	}
	sl := subtop.Dir["sl"]
	top, old := oldRoot.Dir["top"], oldRoot.Dir["top"].Dir["old"]

	// Start at leaf sl (written in submodule s, prefix mm) and look up
	// absolute prefixed schema paths of nodes of the tree sl is part of.
	for _, tc := range []struct {
		path string
		want *Entry
	}{
		{"/mm:subtop/mm:sl", sl}, // its own path
		{"/mm:subtop", subtop},
		{"/mm:top", top},
		{"/mm:top/mm:old", old},
	} {
		got := sl.Find(tc.path)
		switch {
		case got == tc.want:
		case got == nil:
			t.Errorf("from %s of m@2020-01-01: Find(%q) = nil, want %s (%p)", sl.Path(), tc.path, tc.want.Path(), tc.want)
		default:
			which := "another tree"
			r := got
			for r.Parent != nil {
				r = r.Parent
			}
			if r == newRoot {
				which = "the tree of m@2021-01-01"
			}
			t.Errorf("from %s of m@2020-01-01: Find(%q) = %s (%p) in %s, want %s (%p) of m@2020-01-01",
				sl.Path(), tc.path, got.Path(), got, which, tc.want.Path(), tc.want)
		}
	}
	// Relative spelling of the same thing, for contrast: this works.
	if got := sl.Find("../../top/old"); got != old {
		t.Errorf("relative lookup failed as well: %v", got)
	}

	// What is built on the lookup: the submodule's augment of "/mm:top" is
	// grafted into the revision that does not include the submodule.
	if top.Dir["from-sub"] == nil {
		t.Errorf("augment \"/mm:top\" of submodule s: /top/from-sub is missing in m@2020-01-01, the module that includes s")
	}
	if newRoot.Dir["top"].Dir["from-sub"] != nil {
		t.Errorf("augment \"/mm:top\" of submodule s: /top/from-sub was grafted into m@2021-01-01, which does not include s")
	}
}

package yang

import (
	"testing"
)

// Process resolves augment targets BEFORE it inserts the implicit case nodes
// (Entry.FixChoice), retries the augments that failed once AFTER that, and
// never inserts implicit cases again.  Two things follow for schema paths that
// run through an implicit case (RFC 7950 7.9.2: "the case node still exists in
// the schema tree ... Schema node identifiers MUST always explicitly include
// case node identifiers"):
//
//	(late)  an augment whose target path correctly spells the implicit case is
//	        only applied after FixChoice, so a choice it grafts keeps its
//	        shorthand children without case nodes: the schema path of a node
//	        inside that choice finds nothing.
//	(early) an augment whose target path names the implicit case itself is
//	        resolved on the tree without cases, where the same path reaches the
//	        shorthand container: the grafted node ends up somewhere else than at
//	        <target path>/<its name>.
func TestH1C17Finding2AugmentVersusImplicitCase(t *testing.T) {
	const src = `module a {
  yang-version 1.1; namespace "urn:a"; prefix a;

  // control: everything written in place
  container ctl {
    choice ch {
      container x {
        leaf l { type string; }
        choice inner { leaf y { type string; } }
      }
    }
  }

  // (late) the same tree, the inner choice grafted by an augment
  container late {
    choice ch { container x { leaf l { type string; } } }
  }
  augment "/a:late/a:ch/a:x/a:x" {            // choice ch / case x / container x
    choice inner { leaf y { type string; } }
  }

  // (early) an augment of the implicit case x
  container early {
    choice ch { container x { leaf l { type string; } } }
  }
  augment "/a:early/a:ch/a:x" {               // choice ch / case x
    leaf z { type string; }
  }
}`
	ms := NewModules()
	if err := ms.Parse(src, "a.yang"); err != nil {
		t.Fatal(err)
	}
	if errs := ms.Process(); len(errs) != 0 {
		t.Fatal(errs)
	}
	root := ToEntry(ms.Modules["a"])

	// kindAt looks a schema path up and describes what is there.
	kindAt := func(path string) string {
		e := root.Find(path)
		if e == nil {
			return "nothing"
		}
		return e.Kind.String()
	}

	// The control: leaf y lives in the implicit case y of choice inner.
	if got, want := kindAt("/a:ctl/a:ch/a:x/a:x/a:inner/a:y"), "Case"; got != want {
		t.Fatalf("control: inner/y is %s, want %s", got, want)
	}
	if got, want := kindAt("/a:ctl/a:ch/a:x/a:x/a:inner/a:y/a:y"), "Leaf"; got != want {
		t.Fatalf("control: inner/y/y is %s, want %s", got, want)
	}

	// (late) the very same schema, with the inner choice grafted by an augment.
	if got, want := kindAt("/a:late/a:ch/a:x/a:x/a:inner/a:y"), "Case"; got != want {
		t.Errorf("late: Find(/a:late/a:ch/a:x/a:x/a:inner/a:y) is %s, want %s (the implicit case of the shorthand leaf y)", got, want)
	}
	if got, want := kindAt("/a:late/a:ch/a:x/a:x/a:inner/a:y/a:y"), "Leaf"; got != want {
		t.Errorf("late: Find(/a:late/a:ch/a:x/a:x/a:inner/a:y/a:y) is %s, want %s (the schema path of leaf y)", got, want)
	}

	// (early) the node an augment grafts is the child of the augment's target:
	// its schema path is <target path>/<name>.
	const target = "/a:early/a:ch/a:x"
	tgt := root.Find(target)
	if tgt == nil || tgt.Kind != CaseEntry {
		t.Fatalf("early: Find(%s) is %v, want the implicit case x", target, tgt)
	}
	z := root.Find(target + "/a:z")
	if z == nil || z.Parent != tgt {
		t.Errorf("early: Find(%s/a:z) = %s, want the leaf z that `augment %q` grafted into %s", target, h1c17path(z), target, tgt.Path())
	}
	if stray := root.Find(target + "/a:x/a:z"); stray != nil {
		t.Errorf("early: leaf z of `augment %q` was grafted at %s, one level below the node that the path names on the processed tree (%s, a %v)",
			target, stray.Path(), tgt.Path(), tgt.Kind)
	}
}

func h1c17path(e *Entry) string {
	if e == nil {
		return "<nil>"
	}
	return e.Path()
}

package yang

import (
	"testing"
)

// An action written without "input" and "output" still has both nodes in the
// schema tree (RFC 7950 7.15: the substatements are optional, the nodes are
// not), exactly as an rpc has.  Entry.Find creates them on demand for an rpc,
// and for an action that wrote at least one of the two, but not for an action
// that wrote neither.
func TestH1C17Finding1ActionWithoutInputOutput(t *testing.T) {
	const src = `module a {
  yang-version 1.1; namespace "urn:a"; prefix a;
  rpc r { }                                   // control: rpc, nothing written
  container c {
    action half  { input { leaf i { type string; } } }   // control: output not written
    action plain { }                                      // neither written
  }
}`
	ms := NewModules()
	if err := ms.Parse(src, "a.yang"); err != nil {
		t.Fatal(err)
	}
	if errs := ms.Process(); len(errs) != 0 {
		t.Fatal(errs)
	}
	root := ToEntry(ms.Modules["a"])

	for _, tc := range []struct {
		owner, step string
		kind        EntryKind
	}{
		{"/a:r", "a:input", InputEntry},
		{"/a:r", "a:output", OutputEntry},
		{"/a:c/a:half", "a:input", InputEntry},
		{"/a:c/a:half", "a:output", OutputEntry},
		{"/a:c/a:plain", "a:input", InputEntry},
		{"/a:c/a:plain", "a:output", OutputEntry},
	} {
		owner := root.Find(tc.owner)
		if owner == nil {
			t.Fatalf("Find(%q) = nil", tc.owner)
		}
		path := tc.owner + "/" + tc.step
		got := root.Find(path)
		switch {
		case got == nil:
			t.Errorf("Find(%q) = nil, want the %v node of %s", path, tc.kind, owner.Path())
		case got.Kind != tc.kind || got.Parent != owner:
			t.Errorf("Find(%q) = %s (kind %v), want the %v node of %s", path, got.Path(), got.Kind, tc.kind, owner.Path())
		}
		// and back again
		if got != nil && got.Find("..") != owner {
			t.Errorf("Find(%q).Find(\"..\") is not %s", path, owner.Path())
		}
	}

	// The consequence for what is built on the lookup: a legal augment of the
	// action's input is rejected, while the same augment of the rpc is applied.
	const aug = `module b {
  yang-version 1.1; namespace "urn:b"; prefix b;
  import a { prefix a; }
  augment "/a:r/a:input"         { leaf x { type string; } }
  augment "/a:c/a:plain/a:input" { leaf x { type string; } }
}`
	ms = NewModules()
	if err := ms.Parse(src, "a.yang"); err != nil {
		t.Fatal(err)
	}
	if err := ms.Parse(aug, "b.yang"); err != nil {
		t.Fatal(err)
	}
	if errs := ms.Process(); len(errs) != 0 {
		t.Errorf("Process with an augment of the action's input: %v", errs)
	}
}

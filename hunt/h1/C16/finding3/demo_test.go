package yang

import (
	"fmt"
	"reflect"
	"strings"
	"testing"
)

// A block comment whose first character is '/' ("/*/ ... */") is taken to end
// at its third character: the lexer looks for "*/" from the '*' of the opener
// on, so that the opener's own '*' and the '/' behind it count as the closer.
// What follows is lexed as YANG text.

func h1c16Walk(ss []*Statement, out *[]string) {
	for _, s := range ss {
		*out = append(*out, fmt.Sprintf("%s@%s", s.Keyword, s.Location()))
		h1c16Walk(s.SubStatements(), out)
	}
}

// Accepted text: the statement behind the comment is reported with the
// position (and keyword) of the comment's closer.
func TestH1C16StatementBehindCommentOpenedWithSlashStarSlash(t *testing.T) {
	in := "module m {\n" +
		"  rpc r {\n" +
		"    /*/\n" +
		"     */ input {\n" +
		"      leaf a { type string; }\n" +
		"    }\n" +
		"  }\n" +
		"}\n"
	// Positions recomputed from the text by hand.
	want := []string{
		"module@f.yang:1:1",
		"rpc@f.yang:2:3",
		"input@f.yang:4:9",
		"leaf@f.yang:5:7",
		"type@f.yang:5:16",
	}
	ss, err := Parse(in, "f.yang")
	if err != nil {
		t.Fatalf("Parse rejected the text:\n%s\nerror: %v", in, err)
	}
	var got []string
	h1c16Walk(ss, &got)
	if !reflect.DeepEqual(got, want) {
		t.Errorf("Parse of\n%s\n got statements %q\nwant statements %q", in, got, want)
	}

	// The control: the same text with one blank between "/*" and "/".
	ctl := strings.Replace(in, "/*/", "/* ", 1)
	ss, err = Parse(ctl, "f.yang")
	if err != nil {
		t.Fatalf("Parse rejected the control text:\n%s\nerror: %v", ctl, err)
	}
	got = nil
	h1c16Walk(ss, &got)
	if !reflect.DeepEqual(got, want) {
		t.Errorf("control: Parse of\n%s\n got statements %q\nwant statements %q", ctl, got, want)
	}
}

// Rejected text with a single fault, a comment that is never closed: the
// report must name the opener.  The library reports a word inside the comment
// (or, when nothing follows the opener, accepts the text).
func TestH1C16UnterminatedCommentOpenedWithSlashStarSlash(t *testing.T) {
	mod := "module m {\n  namespace \"urn:m\";\n  prefix m;\n}\n"
	for _, tail := range []string{
		"/*/ a trailing note that is never closed\n",
		"/*/\n",
	} {
		in := mod + tail
		const want = "f.yang:5:1: missing closing */"
		_, err := Parse(in, "f.yang")
		switch {
		case err == nil:
			t.Errorf("Parse accepted\n%s\nwant error: %s", in, want)
		case !strings.Contains(err.Error(), want):
			t.Errorf("Parse of\n%s\n got error: %v\nwant error: %s", in, err, want)
		}
		// The control: "/* " instead of "/*/".
		ctl := mod + strings.Replace(tail, "/*/", "/* ", 1)
		if _, err := Parse(ctl, "f.yang"); err == nil || !strings.Contains(err.Error(), want) {
			t.Errorf("control: Parse of\n%s\n got error: %v\nwant error: %s", ctl, err, want)
		}
	}
}

package yang

import (
	"regexp"
	"strconv"
	"strings"
	"testing"
)

// An invalid escape in a double-quoted string must be reported at the
// position of the backslash.  When the character after the backslash is a
// line feed (or the backslash is the last character of the file, to which the
// lexer appends a line feed) the library reports line+1, column -1.
func TestH1C16InvalidEscapeAtEndOfLine(t *testing.T) {
	tests := []struct {
		name string
		in   string
		want string // position of the backslash
	}{
		{
			// control: passes
			name: "backslash before a letter",
			in:   "module m {\n  description \"abc\\qdef\";\n}\n",
			want: "f.yang:2:19",
		},
		{
			// control: passes
			name: "backslash before CR LF",
			in:   "module m {\n  description \"abc\\\r\ndef\";\n}\n",
			want: "f.yang:2:19",
		},
		{
			// fails: reported as f.yang:3:-1
			name: "backslash before LF",
			in:   "module m {\n  description \"abc\\\ndef\";\n}\n",
			want: "f.yang:2:19",
		},
		{
			// fails: reported as f.yang:4:-1
			name: "backslash before LF, tabs and multi-byte characters before it",
			in:   "module m {\n  description\n\t\"\t世é\\\n\t def\";\n}\n",
			want: "f.yang:3:6",
		},
	}
	posRe := regexp.MustCompile(`(?m)^f\.yang:(-?\d+):(-?\d+): `)
	for _, tt := range tests {
		t.Run(tt.name, func(t *testing.T) {
			_, err := Parse(tt.in, "f.yang")
			if err == nil {
				t.Fatalf("Parse(%q) accepted the text", tt.in)
			}
			if want := tt.want + ": invalid escape sequence"; !strings.Contains(err.Error(), want) {
				t.Errorf("Parse(%q):\n got error: %v\nwant an error starting %q", tt.in, err, want)
			}
			// Whatever is reported, it must be a place in the text.
			lines := strings.Count(tt.in, "\n")
			for _, m := range posRe.FindAllStringSubmatch(err.Error(), -1) {
				l, _ := strconv.Atoi(m[1])
				c, _ := strconv.Atoi(m[2])
				if l < 1 || l > lines || c < 1 {
					t.Errorf("Parse(%q): reported position %s:%s is not in the text (%d lines)", tt.in, m[1], m[2], lines)
				}
			}
		})
	}
}

// The same drift with a text that is cut off behind a backslash: the file has
// one line, the only fault is the quote that is never closed, and the library
// adds a report about line 2, column -1.
func TestH1C16BackslashAtEndOfFile(t *testing.T) {
	in := `module m { description "abc\`
	_, err := Parse(in, "f.yang")
	if err == nil {
		t.Fatalf("Parse(%q) accepted the text", in)
	}
	for _, line := range strings.Split(err.Error(), "\n") {
		if strings.HasPrefix(line, "f.yang:2:") {
			t.Errorf("Parse(%q): error %q names line 2 of a one-line text", in, line)
		}
	}
}

package yang

import (
	"strings"
	"testing"
)

// A substatement that does not belong to its parent must be reported at its
// own position.  belongs-to in a module, and namespace or prefix in a
// submodule, are reported at the position of the module / submodule statement
// (line 1, where the file starts) instead.
func TestH1C16UnknownSubstatementOfModuleOrSubmodule(t *testing.T) {
	tests := []struct {
		name string
		in   string
		want string // error expected: position of the unknown substatement
	}{
		{
			// control: passes, an ordinary unknown substatement is
			// reported where it stands
			name: "frobnicate in module",
			in: "module m {\n" +
				"  namespace \"urn:m\";\n" +
				"  prefix m;\n" +
				"\n" +
				"  leaf a { type string; }\n" +
				"    frobnicate x;\n" +
				"}\n",
			want: "f.yang:6:5: unknown module field: frobnicate",
		},
		{
			// fails: reported at f.yang:1:1
			name: "belongs-to in module",
			in: "module m {\n" +
				"  namespace \"urn:m\";\n" +
				"  prefix m;\n" +
				"\n" +
				"  leaf a { type string; }\n" +
				"    belongs-to x { prefix y; }\n" +
				"}\n",
			want: "f.yang:6:5: unknown module field: belongs-to",
		},
		{
			// fails: reported at f.yang:2:1
			name: "namespace in submodule",
			in: "// a submodule\n" +
				"submodule s {\n" +
				"  belongs-to m { prefix m; }\n" +
				"\t  namespace \"urn:m\";\n" +
				"}\n",
			want: "f.yang:4:4: unknown submodule field: namespace",
		},
		{
			// fails: reported at f.yang:1:1
			name: "prefix in submodule",
			in: "submodule s {\n" +
				"  belongs-to m { prefix m; }\n" +
				"  leaf a { type string; }\n" +
				"  prefix s;\n" +
				"}\n",
			want: "f.yang:4:3: unknown submodule field: prefix",
		},
	}
	for _, tt := range tests {
		t.Run(tt.name, func(t *testing.T) {
			err := NewModules().Parse(tt.in, "f.yang")
			if err == nil {
				t.Fatalf("Modules.Parse accepted:\n%s", tt.in)
			}
			if !strings.HasPrefix(err.Error(), tt.want) {
				t.Errorf("Modules.Parse of\n%s\n got error: %v\nwant error: %s", tt.in, err, tt.want)
			}
		})
	}
}

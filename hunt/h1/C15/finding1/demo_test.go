package yang

import (
	"math/big"
	"testing"
)

// h1c15f1Rat is the exact rational value of n: (+/-)Value / 10^FractionDigits.
func h1c15f1Rat(n Number) *big.Rat {
	v := new(big.Int).SetUint64(n.Value)
	if n.Negative {
		v.Neg(v)
	}
	d := new(big.Int).Exp(big.NewInt(10), big.NewInt(int64(n.FractionDigits)), nil)
	return new(big.Rat).SetFrac(v, d)
}

// TestH1C15NegativeZero shows that a Number with magnitude 0 and the negative
// sign (which ParseInt("-0") produces) orders strictly below zero and is not
// equal to zero, that it does not survive print + parse, and that the legal
// YANG restriction  type uint8 { range "-0..10"; }  is rejected because of it.
func TestH1C15NegativeZero(t *testing.T) {
	// 1. The literal "-0" ([sign] digits, no superfluous leading zero).
	negZero, err := ParseInt("-0")
	if err != nil {
		t.Fatalf("ParseInt(-0): %v", err)
	}
	zero, err := ParseInt("0")
	if err != nil {
		t.Fatalf("ParseInt(0): %v", err)
	}
	if c := h1c15f1Rat(negZero).Cmp(h1c15f1Rat(zero)); c != 0 {
		t.Fatalf("reference is broken: cmp = %d", c)
	}
	if negZero.Less(zero) {
		t.Errorf("ParseInt(\"-0\").Less(ParseInt(\"0\")) = true; exact arithmetic: -0 < 0 is false")
	}
	if !negZero.Equal(zero) {
		t.Errorf("ParseInt(\"-0\").Equal(ParseInt(\"0\")) = false; exact arithmetic: -0 == 0")
	}
	if !zero.Equal(negZero) {
		t.Errorf("ParseInt(\"0\").Equal(ParseInt(\"-0\")) = false; exact arithmetic: 0 == -0")
	}

	// 2. Every (magnitude 0, negative, fraction-digits) triple, against every
	// zero of every precision.
	bad := 0
	for fd := 0; fd <= 18; fd++ {
		n := Number{Value: 0, Negative: true, FractionDigits: uint8(fd)}
		for fd2 := 0; fd2 <= 18; fd2++ {
			z := Number{Value: 0, FractionDigits: uint8(fd2)}
			if n.Less(z) || !n.Equal(z) || !z.Equal(n) {
				bad++
			}
		}
	}
	if bad != 0 {
		t.Errorf("%d of %d (negative zero, zero) pairs compare unlike exact arithmetic", bad, 19*19)
	}

	// 3. Print and parse back at the same precision.
	for fd := 1; fd <= 18; fd++ {
		n := Number{Value: 0, Negative: true, FractionDigits: uint8(fd)}
		s := n.String()
		p, err := ParseDecimal(s, uint8(fd))
		if err != nil {
			t.Errorf("ParseDecimal(%q, %d): %v", s, fd, err)
			continue
		}
		if !p.Equal(n) {
			t.Errorf("round trip: %#v prints %q, which parses to %#v, and Equal says they differ", n, s, p)
			break // one is enough
		}
	}

	// 4. The same thing seen from YANG. RFC 7950 section 14:
	//   integer-value = ("-" non-negative-integer-value) / non-negative-integer-value
	//   non-negative-integer-value = "0" / positive-integer-value
	// so "-0" is a legal range boundary, and it denotes 0.
	for _, tc := range []struct{ typ, restr, want string }{
		{"uint8", `range "-0..10";`, "0..10"},
		{"int8", `range "0..-0";`, "0"},
		{"int8", `range "-0";`, "0"},
	} {
		ms := NewModules()
		src := `module m { namespace "urn:m"; prefix m; leaf l { type ` + tc.typ + ` { ` + tc.restr + ` } } }`
		if err := ms.Parse(src, "m.yang"); err != nil {
			t.Fatalf("parse: %v", err)
		}
		if errs := ms.Process(); len(errs) != 0 {
			t.Errorf("type %s { %s }: rejected: %v; want range %s", tc.typ, tc.restr, errs, tc.want)
			continue
		}
		e, _ := ms.GetModule("m")
		if got := e.Dir["l"].Type.Range.String(); got != tc.want {
			t.Errorf("type %s { %s }: Range prints %q, want %q", tc.typ, tc.restr, got, tc.want)
		}
	}
}

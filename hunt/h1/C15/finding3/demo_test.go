package yang

import (
	"fmt"
	"testing"
)

// TestH1C15FromFloatPrecision shows that FromFloat hands out Numbers that are
// outside the decimal64 domain (19 fraction digits; a positive mantissa of
// 2^63), and that printing such a Number can panic.
func TestH1C15FromFloatPrecision(t *testing.T) {
	for _, f := range []float64{1e-18, 1e-19} {
		n := FromFloat(f)
		if n.FractionDigits < 1 || n.FractionDigits > MaxFractionDigits {
			t.Errorf("FromFloat(%g) = %#v: FractionDigits %d is outside 1..%d", f, n, n.FractionDigits, MaxFractionDigits)
		}
	}

	// Printing what FromFloat returned.
	func() {
		defer func() {
			if r := recover(); r != nil {
				t.Errorf("FromFloat(1e-19).String() panicked: %v", r)
			}
		}()
		n := FromFloat(1e-19)
		_ = fmt.Sprint(n.String())
	}()

	// The largest float the clamp lets through: the result has a positive
	// mantissa of 2^63, which is not a signed 64-bit mantissa, prints as a
	// value above the decimal64 maximum, and cannot be parsed back.
	n := FromFloat(MaxDecimal64)
	if !n.Negative && n.Value > MaxInt64 {
		s := n.String()
		_, err := ParseDecimal(s, n.FractionDigits)
		t.Errorf("FromFloat(MaxDecimal64) = %#v: mantissa %d > 2^63-1; prints %q; ParseDecimal of that: %v", n, n.Value, s, err)
	}
}

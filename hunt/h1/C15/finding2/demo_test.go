package yang

import (
	"math/big"
	"testing"
)

// TestH1C15TrailingZeros shows that ParseDecimal refuses literals whose value
// fits the requested precision exactly, merely because they are written with
// more digits after the point than the precision (the extra digits all being
// zero), and that a legal decimal64 range written that way is rejected.
func TestH1C15TrailingZeros(t *testing.T) {
	for _, tc := range []struct {
		lit string
		fd  uint8
	}{
		{"1.50", 1},
		{"0.10", 1},
		{"-2.500", 2},
		{"0.0000000000000000000", 18}, // 19 zeros: denotes 0
		{"922337203685477580.70", 1},  // the largest decimal64 at precision 1
	} {
		// Reference: exact value, scaled by 10^fd, must be an integer in int64.
		val, ok := new(big.Rat).SetString(tc.lit)
		if !ok {
			t.Fatalf("reference cannot read %q", tc.lit)
		}
		scale := new(big.Int).Exp(big.NewInt(10), big.NewInt(int64(tc.fd)), nil)
		m := new(big.Rat).Mul(val, new(big.Rat).SetInt(scale))
		if !m.IsInt() || !m.Num().IsInt64() {
			t.Fatalf("test is wrong: %s does not fit precision %d", tc.lit, tc.fd)
		}
		n, err := ParseDecimal(tc.lit, tc.fd)
		if err != nil {
			t.Errorf("ParseDecimal(%q, %d) = error %q; the literal denotes %s x 10^-%d exactly, which fits", tc.lit, tc.fd, err, m.Num(), tc.fd)
			continue
		}
		want := Number{Value: new(big.Int).Abs(m.Num()).Uint64(), Negative: m.Sign() < 0, FractionDigits: tc.fd}
		if n != want {
			t.Errorf("ParseDecimal(%q, %d) = %#v, want %#v", tc.lit, tc.fd, n, want)
		}
	}

	// From YANG: every value of the range is expressible as i x 10^-1.
	ms := NewModules()
	src := `module m { namespace "urn:m"; prefix m; leaf l { type decimal64 { fraction-digits 1; range "1.50..2.00"; } } }`
	if err := ms.Parse(src, "m.yang"); err != nil {
		t.Fatalf("parse: %v", err)
	}
	if errs := ms.Process(); len(errs) != 0 {
		t.Errorf(`decimal64 { fraction-digits 1; range "1.50..2.00"; } rejected: %v; want range 1.5..2.0`, errs)
	}
}

package yang

import (
	"sort"
	"strings"
	"testing"
)

// When two revisions of a module are loaded and both include a submodule, only
// the latest revision receives the submodule's data nodes.  The bookkeeping
// that prevents merging a submodule twice (Modules.mergedSubmodule) is keyed by
// "<submodule name>:<module name>", without the revision, so the second module
// of that name is taken to have the submodule already.
func TestH1C13OlderRevisionLosesSubmodule(t *testing.T) {
	const (
		m2019 = `module m { namespace "urn:m"; prefix m;
  include s { revision-date 2019-01-01; }
  revision 2019-01-01;
  leaf own { type string; }
}`
		m2021 = `module m { namespace "urn:m"; prefix m;
  include s { revision-date 2021-01-01; }
  revision 2021-01-01;
  leaf own { type string; }
}`
		s2019 = `submodule s { belongs-to m { prefix m; } revision 2019-01-01;
  container from-sub { leaf a { type string; } }
}`
		s2021 = `submodule s { belongs-to m { prefix m; } revision 2021-01-01;
  container from-sub { leaf a { type string; } leaf b { type string; } }
}`
		// Written-inline equivalent of m@2019-01-01.
		inline2019 = `module m { namespace "urn:m"; prefix m;
  revision 2019-01-01;
  leaf own { type string; }
  container from-sub { leaf a { type string; } }
}`
		// A user of the older revision.
		user = `module user { namespace "urn:user"; prefix u;
  import m { prefix m; revision-date 2019-01-01; }
  augment "/m:from-sub" { leaf extra { type string; } }
}`
	)
	load := func(srcs ...string) (*Modules, []error) {
		ms := NewModules()
		for i, s := range srcs {
			if err := ms.Parse(s, "src"+string(rune('0'+i))+".yang"); err != nil {
				t.Fatalf("Parse: %v", err)
			}
		}
		return ms, ms.Process()
	}
	children := func(e *Entry) string {
		var ks []string
		for k := range e.Dir {
			ks = append(ks, k)
		}
		sort.Strings(ks)
		return strings.Join(ks, " ")
	}

	ref, errs := load(inline2019)
	if len(errs) != 0 {
		t.Fatalf("inline: %v", errs)
	}
	want := children(ToEntry(ref.Modules["m@2019-01-01"]))

	for _, order := range [][]string{
		{m2019, s2019, m2021, s2021},
		{s2021, m2021, s2019, m2019},
	} {
		ms, errs := load(order...)
		if len(errs) != 0 {
			t.Fatalf("unexpected errors: %v", errs)
		}
		old := ms.Modules["m@2019-01-01"]
		if got := old.Include[0].Module.FullName(); got != "s@2019-01-01" {
			t.Fatalf("include bound to %s, want s@2019-01-01", got)
		}
		if got := children(ToEntry(old)); got != want {
			t.Errorf("m@2019-01-01 includes %s, but its tree has top-level nodes [%s]; written inline it has [%s]",
				old.Include[0].Module.FullName(), got, want)
		}
		if got := children(ToEntry(ms.Modules["m@2021-01-01"])); got != want {
			t.Errorf("m@2021-01-01 has top-level nodes [%s], want [%s]", got, want)
		}
	}

	// Consequence: a module that is bound to the older revision cannot
	// augment a node the older revision obtains from its submodule.
	if _, errs := load(m2019, s2019, m2021, s2021, user); len(errs) != 0 {
		t.Errorf("user (imports m@2019-01-01) augmenting /m:from-sub: %v", errs)
	}
	// Control: with only the 2019 revision loaded the same user is fine.
	if _, errs := load(m2019, s2019, user); len(errs) != 0 {
		t.Fatalf("control: %v", errs)
	}
}

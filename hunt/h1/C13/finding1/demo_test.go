package yang

import (
	"strings"
	"testing"
)

// Identity names ignore the revision an import is bound to.
//
// Two revisions of module m are loaded.  Module "pinned" imports m with
// revision-date 2019-01-01, module "bare" imports m without a revision-date
// (so it denotes m@2021-01-01, the latest loaded revision).  Import.Module is
// bound correctly in both, but identity names written with the import's prefix
// are looked up in a dictionary keyed by the bare module *name*, so they
// resolve in whichever revision was filed last (and in the union of both
// revisions), not in the revision the import denotes.
func TestH1C13IdentityIgnoresImportRevision(t *testing.T) {
	const (
		m2019 = `module m { namespace "urn:m"; prefix m; revision 2019-01-01;
  identity base-id;
  identity old-id { base base-id; }   // exists only in 2019
}`
		m2021 = `module m { namespace "urn:m"; prefix m; revision 2021-01-01;
  identity base-id;
  identity new-id { base base-id; }   // exists only in 2021
}`
		pinned = `module pinned { namespace "urn:pinned"; prefix p;
  import m { prefix m; revision-date 2019-01-01; }
  leaf r { type identityref { base m:base-id; } }
}`
		// references an identity that the bound revision (2019) does not define
		pinnedBad = `module pinned-bad { namespace "urn:pinned-bad"; prefix pb;
  import m { prefix m; revision-date 2019-01-01; }
  identity pb-id { base m:new-id; }
}`
		// references an identity that the bound revision (latest, 2021) does not define
		bareBad = `module bare-bad { namespace "urn:bare-bad"; prefix bb;
  import m { prefix m; }
  identity bb-id { base m:old-id; }
}`
	)

	load := func(srcs ...string) (*Modules, []error) {
		ms := NewModules()
		for i, s := range srcs {
			if err := ms.Parse(s, "src"+string(rune('0'+i))+".yang"); err != nil {
				t.Fatalf("Parse: %v", err)
			}
		}
		return ms, ms.Process()
	}

	// Both load orders give the same (wrong) answer; run both to show that
	// this is not a matter of order.
	for _, order := range [][]string{{m2019, m2021, pinned}, {pinned, m2021, m2019}} {
		ms, errs := load(order...)
		if len(errs) != 0 {
			t.Fatalf("unexpected errors: %v", errs)
		}
		imp := ms.Modules["pinned"].Import[0]
		if got := imp.Module.FullName(); got != "m@2019-01-01" {
			t.Fatalf("Import.Module = %s, want m@2019-01-01", got)
		}
		r := ToEntry(ms.Modules["pinned"]).Dir["r"]
		ib := r.Type.IdentityBase
		if got := RootNode(ib).FullName(); got != imp.Module.FullName() {
			t.Errorf("pinned:/r  base m:base-id resolved to the identity defined in %s; the import with prefix m denotes %s", got, imp.Module.FullName())
		}
		var vals []string
		for _, v := range ib.Values {
			vals = append(vals, v.Name+"("+RootNode(v).FullName()+")")
		}
		if got, want := strings.Join(vals, " "), "old-id(m@2019-01-01)"; got != want {
			t.Errorf("pinned:/r  derived identities = [%s], want [%s] (those of m@2019-01-01)", got, want)
		}
	}

	// A name that the denoted revision does not define must not resolve.
	if _, errs := load(m2019, m2021, pinnedBad); len(errs) == 0 {
		t.Errorf("pinned-bad: base m:new-id was accepted although the import is bound to m@2019-01-01, which has no identity new-id")
	}
	if _, errs := load(m2019, m2021, bareBad); len(errs) == 0 {
		t.Errorf("bare-bad: base m:old-id was accepted although the import denotes the latest revision m@2021-01-01, which has no identity old-id")
	}
	// Control: the same mistake with a typedef IS rejected, i.e. typedef
	// names do follow the revision binding.
	const bareBadType = `module bare-bad-type { namespace "urn:bbt"; prefix bbt;
  import m2 { prefix m2; }
  leaf l { type m2:old-type; }
}`
	const m2old = `module m2 { namespace "urn:m2"; prefix m2; revision 2019-01-01; typedef old-type { type string; } }`
	const m2new = `module m2 { namespace "urn:m2"; prefix m2; revision 2021-01-01; }`
	if _, errs := load(m2old, m2new, bareBadType); len(errs) == 0 {
		t.Errorf("control failed: typedef of an older revision resolved through a bare import")
	}
}

package yang

import (
	"fmt"
	"sort"
	"strings"
	"testing"
)

// Splitting a YANG 1.1 module into submodules is not equivalent to writing it
// inline as soon as a statement that moves into a submodule refers to a
// typedef or grouping that stays in the module, or that moves into a sibling
// submodule.  RFC 7950 section 5.1: "A submodule can reference any definition
// in the module it belongs to and in all submodules included by the module."
// goyang looks such names up only in the submodule itself and in the
// submodules that this submodule includes, so the included submodule's data
// nodes are not contributed "exactly as if they were written there": the load
// fails with "unknown type" / "unknown group".
func TestH1C13SubmoduleCannotSeeItsModule(t *testing.T) {
	const inline = `module m { yang-version 1.1; namespace "urn:m"; prefix m;
  typedef t { type int8; }
  grouping g { leaf gl { type string; } }
  identity i;
  leaf x { type t; }
  container c { uses g; }
  leaf r { type identityref { base i; } }
}`
	// Partition 1: definitions stay in the module, their users move to s.
	part1 := []string{
		`module m { yang-version 1.1; namespace "urn:m"; prefix m;
  include s;
  typedef t { type int8; }
  grouping g { leaf gl { type string; } }
  identity i;
}`,
		`submodule s { yang-version 1.1; belongs-to m { prefix m; }
  leaf x { type t; }
  container c { uses g; }
  leaf r { type identityref { base i; } }
}`}
	// Partition 2: definitions in submodule d, users in sibling submodule s;
	// the module includes both (in YANG 1.1 s need not include d).
	part2 := []string{
		`module m { yang-version 1.1; namespace "urn:m"; prefix m;
  include d; include s;
}`,
		`submodule d { yang-version 1.1; belongs-to m { prefix m; }
  typedef t { type int8; }
  grouping g { leaf gl { type string; } }
  identity i;
}`,
		`submodule s { yang-version 1.1; belongs-to m { prefix m; }
  leaf x { type t; }
  container c { uses g; }
  leaf r { type identityref { base i; } }
}`}

	load := func(srcs ...string) (*Modules, []error) {
		ms := NewModules()
		for i, s := range srcs {
			if err := ms.Parse(s, "src"+string(rune('0'+i))+".yang"); err != nil {
				t.Fatalf("Parse: %v", err)
			}
		}
		return ms, ms.Process()
	}
	var dump func(e *Entry, ind string, sb *strings.Builder)
	dump = func(e *Entry, ind string, sb *strings.Builder) {
		var ks []string
		for k := range e.Dir {
			ks = append(ks, k)
		}
		sort.Strings(ks)
		for _, k := range ks {
			c := e.Dir[k]
			ty := ""
			if c.Type != nil {
				ty = " type=" + c.Type.Name + "/" + c.Type.Kind.String()
			}
			fmt.Fprintf(sb, "%s%s kind=%v%s ns=%s\n", ind, k, c.Kind, ty, c.Namespace().Name)
			dump(c, ind+"  ", sb)
		}
	}
	tree := func(ms *Modules) string {
		var sb strings.Builder
		dump(ToEntry(ms.Modules["m"]), "", &sb)
		return sb.String()
	}

	ref, errs := load(inline)
	if len(errs) != 0 {
		t.Fatalf("inline module: %v", errs)
	}
	want := tree(ref)

	// Control: when s explicitly includes d (the YANG 1 way, still allowed
	// in 1.1) the split module is equivalent to the inline one.
	ctl := []string{part2[0], part2[1], strings.Replace(part2[2], "belongs-to m { prefix m; }", "belongs-to m { prefix m; } include d;", 1)}
	if ms, errs := load(ctl...); len(errs) != 0 || tree(ms) != want {
		t.Fatalf("control (s includes d): errs=%v tree:\n%s", errs, tree(ms))
	}

	for _, tc := range []struct {
		name string
		part []string
	}{{"defs-in-module", part1}, {"defs-in-sibling-submodule", part2}} {
		name, part := tc.name, tc.part
		ms, errs := load(part...)
		if len(errs) != 0 {
			t.Errorf("%s: the split module is rejected, the inline module is accepted: %v", name, errs)
			continue
		}
		if got := tree(ms); got != want {
			t.Errorf("%s: tree differs from inline\n got:\n%s want:\n%s", name, got, want)
		}
	}
}

package yang

// Demo for finding 1: the integer literal "-0" (a legal RFC 7950 integer-value,
// denoting 0) is kept as a distinct "negative zero" that orders strictly below
// 0.  Restrictions that denote sets inside the parent are rejected, and the
// accepted ones are not presented in coalesced/canonical form.

import (
	"fmt"
	"testing"
)

func h1f1Process(t *testing.T, body string) (*Entry, []error) {
	t.Helper()
	ms := NewModules()
	src := "module m { yang-version 1.1; namespace \"urn:m\"; prefix m;\n" + body + "\n}\n"
	if err := ms.Parse(src, "m.yang"); err != nil {
		t.Fatalf("parse: %v", err)
	}
	errs := ms.Process()
	e, _ := ms.GetModule("m")
	return e, errs
}

func TestH1C10NegativeZero(t *testing.T) {
	// 1. Restrictions whose written set is inside the parent set must be
	// accepted, and must resolve to the written set.
	for _, tc := range []struct {
		body string
		want string // expected Entry.Type.Range of leaf x
	}{
		// {0..10} is inside uint8.
		{`leaf x { type uint8 { range "-0..10"; } }`, "0..10"},
		// {0} is inside uint64.
		{`leaf x { type uint64 { range "-0"; } }`, "0"},
		// 0..-0 is the single value 0; its bounds are not out of order.
		{`leaf x { type int8 { range "0..-0"; } }`, "0"},
		// Parent {-5..0}; child {0} is a subset of it.
		{`typedef T { type int8 { range "-5..-0"; } } leaf x { type T { range "0"; } }`, "0"},
		// Parent {0..5}; child {0..3} is a subset of it.
		{`typedef T { type int8 { range "0..5"; } } leaf x { type T { range "-0..3"; } }`, "0..3"},
		// Accepted, but the single value 0 must be presented coalesced as "0".
		{`leaf x { type int8 { range "-0 | 0"; } }`, "0"},
		{`leaf x { type int8 { range "-3..-0"; } }`, "-3..0"},
	} {
		e, errs := h1f1Process(t, tc.body)
		if len(errs) != 0 {
			t.Errorf("%s\n\tProcess rejected a restriction that denotes a subset of its parent: %v", tc.body, errs)
			continue
		}
		got := e.Dir["x"].Type.Range
		if got.String() != tc.want {
			t.Errorf("%s\n\tEntry.Type.Range = %q, want %q", tc.body, got.String(), tc.want)
		}
		for _, r := range got {
			for _, n := range []Number{r.Min, r.Max} {
				if n.Value == 0 && n.Negative {
					t.Errorf("%s\n\tresolved range %v holds a negative zero bound %#v", tc.body, got, n)
				}
			}
		}
	}

	// 2. The same through the exported API.
	a, errA := ParseRangesInt("-0")
	b, errB := ParseRangesInt("0")
	if errA != nil || errB != nil {
		t.Fatalf("ParseRangesInt: %v %v", errA, errB)
	}
	if !a.Equal(b) {
		t.Errorf(`ParseRangesInt("-0") = %v and ParseRangesInt("0") = %v denote the same set {0} but are not Equal`, a, b)
	}
	if _, err := ParseRangesInt("0..-0"); err != nil {
		t.Errorf(`ParseRangesInt("0..-0") (the set {0}) rejected: %v`, err)
	}
	if r, err := ParseRangesInt("0|-0"); err != nil || fmt.Sprint(r) != "0" {
		t.Errorf(`ParseRangesInt("0|-0") = %q, %v; want the coalesced single value "0"`, fmt.Sprint(r), err)
	}
	if !Uint8Range.Contains(a) {
		t.Errorf(`Uint8Range.Contains(%v) = false, but {0} is a subset of 0..255`, a)
	}
}

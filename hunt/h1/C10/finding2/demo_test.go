package yang

// Demo for finding 2: range / length arguments that do not match the RFC 7950
// range-arg / length-arg grammar are accepted (Go integer-literal syntax for
// integers, a bare "." for decimal64, ...), and some of them resolve to a set
// that no reading of the written text denotes.

import (
	"testing"
)

func h1f2Process(t *testing.T, body string) (*Entry, []error) {
	t.Helper()
	ms := NewModules()
	src := "module m { yang-version 1.1; namespace \"urn:m\"; prefix m;\n" + body + "\n}\n"
	if err := ms.Parse(src, "m.yang"); err != nil {
		t.Fatalf("parse: %v", err)
	}
	errs := ms.Process()
	e, _ := ms.GetModule("m")
	return e, errs
}

func TestH1C10NonYangSyntax(t *testing.T) {
	// Every restriction below is syntactically invalid by the RFC 7950 ABNF
	//   range-boundary  = min-keyword / max-keyword / integer-value / decimal-value
	//   integer-value   = ("-" non-negative-integer-value) / non-negative-integer-value
	//   non-negative-integer-value = "0" / positive-integer-value
	//   positive-integer-value     = (non-zero-digit *DIGIT)
	//   decimal-value   = integer-value ("." zero-integer-value)
	// and must be rejected with an error.
	for _, restr := range []string{
		// Go literal syntax, integers.
		`type int32 { range "1_0..2_0"; }`,   // resolves to 10..20
		`type int32 { range "0b11"; }`,       // resolves to 3
		`type int32 { range "0o17"; }`,       // resolves to 15
		`type int32 { range "0x10..0X1f"; }`, // resolves to 16..31
		`type int32 { range "-0x_f"; }`,      // resolves to -15
		`type int32 { range "010..020"; }`,   // resolves to 8..16 (!)
		`type string { length "0x10"; }`,     // resolves to 16
		`type string { length "1_0"; }`,      // resolves to 10
		// decimal64: the integer and fraction parts may be empty.
		`type decimal64 { fraction-digits 2; range "."; }`,      // resolves to 0.00
		`type decimal64 { fraction-digits 2; range "0...5"; }`,  // resolves to 0.00..0.50
		`type decimal64 { fraction-digits 2; range "-1..."; }`,  // resolves to -1.00..0.00
		`type decimal64 { fraction-digits 2; range "min..."; }`, // resolves to min..0.00
		`type decimal64 { fraction-digits 2; range ".5..5."; }`, // resolves to 0.50..5.00
		`type decimal64 { fraction-digits 2; range "-.5"; }`,    // resolves to -0.50
		`type decimal64 { fraction-digits 2; range "0...-"; }`,  // resolves to 0.00
		// Characters that are not YANG separators (WSP / line-break).
		"type int32 { range \"1\u00a0..\u00a05\"; }", // U+00A0 NO-BREAK SPACE, resolves to 1..5
		"type int32 { range \"1\u2003|\u00853\"; }",  // U+2003 EM SPACE, U+0085 NEL, resolves to 1|3
	} {
		body := "leaf x { " + restr + " }"
		e, errs := h1f2Process(t, body)
		if len(errs) == 0 {
			yt := e.Dir["x"].Type
			t.Errorf("syntactically invalid restriction accepted: %s\n\tresolved Range=%q Length=%q", restr, yt.Range.String(), yt.Length.String())
		}
	}

	// The same token is read in two different ways depending on the type it
	// restricts: "0710" is 456 for an integer and 710.0 for a decimal64.
	ri, errI := ParseRangesInt("0710")
	rd, errD := ParseRangesDecimal("0710", 1)
	if errI == nil && errD == nil {
		t.Errorf(`"0710" is accepted and denotes %v as an integer range but %v as a decimal64 range`, ri, rd)
	}

	// The exported parsers accept the same inputs.
	for _, s := range []string{"1_0", "0b11", "0o17", "0x10", "010"} {
		if r, err := ParseRangesInt(s); err == nil {
			t.Errorf("ParseRangesInt(%q) = %v, want an error", s, r)
		}
	}
	for _, s := range []string{".", "0...5", "-1...", ".5", "5.", "-."} {
		if r, err := ParseRangesDecimal(s, 2); err == nil {
			t.Errorf("ParseRangesDecimal(%q, 2) = %v, want an error", s, r)
		}
	}
}

package yang

// Demo for finding 3: a range (or length) restriction written on a type whose
// parent is not a numeric (or string/binary) type is checked against nothing:
// the parent's Range (Length) is empty, an empty parent is treated as
// "contains everything", and the restriction is accepted and recorded on the
// resolved type even though it admits values the parent type does not.

import (
	"testing"
)

func h1f3Process(t *testing.T, body string) (*Entry, []error) {
	t.Helper()
	ms := NewModules()
	src := "module m { yang-version 1.1; namespace \"urn:m\"; prefix m;\n" + body + "\n}\n"
	if err := ms.Parse(src, "m.yang"); err != nil {
		t.Fatalf("parse: %v", err)
	}
	errs := ms.Process()
	e, _ := ms.GetModule("m")
	return e, errs
}

func TestH1C10RestrictionOnTypeWithoutThatSet(t *testing.T) {
	for _, tc := range []struct{ why, body string }{
		{
			"U admits -128..255; the restriction admits 1000, which U does not",
			`typedef U { type union { type int8; type uint8; } }
			 leaf x { type U { range "1000"; } }`,
		},
		{
			"the union's only member admits 1..5; the restriction admits 6..1000",
			`leaf x { type union { type int8 { range "1..5"; } range "6..1000"; } }`,
		},
		{
			"x refers to an int8; the restriction admits 1000",
			`leaf y { type int8; }
			 leaf x { type leafref { path "../y"; range "1000"; } }`,
		},
		{
			"U admits strings of length 1..2 only; the restriction admits length 5",
			`typedef U { type union { type string { length "1..2"; } } }
			 leaf x { type U { length "5"; } }`,
		},
		{"range is not a restriction of string", `leaf x { type string { range "1..5"; } }`},
		{"range is not a restriction of boolean", `leaf x { type boolean { range "1..5"; } }`},
		{"range is not a restriction of enumeration", `leaf x { type enumeration { enum a; range "7"; } }`},
		{"length is not a restriction of int8", `leaf x { type int8 { length "1..5"; } }`},
		{"length is not a restriction of decimal64", `leaf x { type decimal64 { fraction-digits 1; length "1..5"; } }`},
	} {
		e, errs := h1f3Process(t, tc.body)
		if len(errs) == 0 {
			yt := e.Dir["x"].Type
			t.Errorf("no error (%s):\n\t%s\n\tresolved kind=%v Range=%q Length=%q", tc.why, tc.body, yt.Kind, yt.Range.String(), yt.Length.String())
		}
	}
}

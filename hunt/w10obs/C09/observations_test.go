package yang

import (
	"fmt"
	"testing"
)

// Failing tests against the UNCHANGED library; see OBSERVATIONS.md.

func obsLoad(t *testing.T, srcs ...string) (*Modules, []error) {
	t.Helper()
	ms := NewModules()
	for i, s := range srcs {
		if err := ms.Parse(s, fmt.Sprintf("src%d.yang", i)); err != nil {
			t.Fatalf("parse %d: %v", i, err)
		}
	}
	return ms, ms.Process()
}

// 1. A submodule does not see the top-level typedefs of its own module.
func TestObsSubmoduleSeesItsModule(t *testing.T) {
	_, errs := obsLoad(t,
		`module m { namespace "urn:m"; prefix m; include s; typedef mt { type int8; } }`,
		`submodule s { belongs-to m { prefix m; } container c { leaf l { type mt; } leaf l2 { type m:mt; } } }`)
	if len(errs) != 0 {
		t.Errorf("got %v, want no errors", errs)
	}
}

// 2. A submodule does not see the typedefs of a sibling submodule that the
// module includes (YANG 1.1: the submodule need not include it itself).
func TestObsSubmoduleSeesSibling(t *testing.T) {
	_, errs := obsLoad(t,
		`module m { yang-version 1.1; namespace "urn:m"; prefix m; include s1; include s2; }`,
		`submodule s1 { yang-version 1.1; belongs-to m { prefix m; } leaf l { type t2; } }`,
		`submodule s2 { yang-version 1.1; belongs-to m { prefix m; } typedef t2 { type int8; } }`)
	if len(errs) != 0 {
		t.Errorf("got %v, want no errors", errs)
	}
}

// 3. A module does not see the typedefs of a submodule that is included only
// by one of its submodules (nor does an importer of the module).
func TestObsNestedInclude(t *testing.T) {
	_, errs := obsLoad(t,
		`module m { namespace "urn:m"; prefix m; include s1; leaf l { type t2; } }`,
		`submodule s1 { belongs-to m { prefix m; } include s2; }`,
		`submodule s2 { belongs-to m { prefix m; } typedef t2 { type int8; } }`)
	if len(errs) != 0 {
		t.Errorf("got %v, want no errors", errs)
	}
}

// 4. A union loses a member whose typedef resolves to a type equal to an
// earlier member's, although it is another typedef.
func TestObsUnionMemberDropped(t *testing.T) {
	ms, errs := obsLoad(t,
		`module m { namespace "urn:m"; prefix m; typedef a { type int8; } typedef b { type int8; }
		   leaf u { type union { type a; type b; type string; } } }`)
	if len(errs) != 0 {
		t.Fatal(errs)
	}
	var names []string
	for _, m := range ToEntry(ms.Modules["m"]).Dir["u"].Type.Type {
		names = append(names, m.Name)
	}
	if fmt.Sprint(names) != "[a b string]" {
		t.Errorf("union members %v, want [a b string]", names)
	}
}

// 5. An import with a revision-date that is not loaded silently denotes the
// newest loaded revision instead.
func TestObsImportRevisionFallback(t *testing.T) {
	ms, errs := obsLoad(t,
		`module a { namespace "urn:a"; prefix a; import x { prefix x; revision-date 2019-01-01; } leaf l { type x:foo; } }`,
		`module x { namespace "urn:x"; prefix x; revision 2020-01-01; typedef foo { type int8; } }`)
	if len(errs) == 0 {
		t.Errorf("no error; x:foo bound to %s although a imports x@2019-01-01, which is not loaded",
			ToEntry(ms.Modules["a"]).Dir["l"].Type.Kind)
	}
}

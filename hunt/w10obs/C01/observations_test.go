package yang

// Failing tests for behaviour of the UNCHANGED library (see OBSERVATIONS.md).
// Copy into pkg/yang and run:  go test -vet=off -count=1 -run TestW10C01Obs ./pkg/yang/
// The two tests that end in a fatal stack overflow / take very long are skipped
// unless W10C01_OBS_FATAL=1 is set (they kill the test binary).

import (
	"fmt"
	"os"
	"runtime/debug"
	"strings"
	"testing"
	"time"
)

func w10c01ObsTry(f func()) (crash error) {
	defer func() {
		if r := recover(); r != nil {
			crash = fmt.Errorf("panic: %v\n%s", r, debug.Stack())
		}
	}()
	f()
	return nil
}

// O1: FindNode with an absolute path, context in a submodule whose module is not loaded.
func TestW10C01ObsFindNodeOrphanSubmodule(t *testing.T) {
	ms := NewModules()
	if err := ms.Parse(`submodule s { belongs-to m { prefix m; } container c { leaf l { type string; } } }`, "s.yang"); err != nil {
		t.Fatal(err)
	}
	ms.Process()
	if c := w10c01ObsTry(func() { FindNode(ms.SubModules["s"], "/c/l") }); c != nil {
		t.Errorf("FindNode crashed: %v", c)
	}
}

// O2: FindNode with an absolute path whose prefix names an import that could not be linked.
func TestW10C01ObsFindNodeUnlinkedImport(t *testing.T) {
	ms := NewModules()
	if err := ms.Parse(`module a { namespace "urn:a"; prefix a; import b { prefix b; } container c { leaf l { type string; } } }`, "a.yang"); err != nil {
		t.Fatal(err)
	}
	ms.Process() // reports "no such module: b"
	if c := w10c01ObsTry(func() { FindNode(ms.Modules["a"], "/b:c/b:l") }); c != nil {
		t.Errorf("FindNode crashed: %v", c)
	}
}

// O3: the error entry that ToEntry(nil) returns cannot be asked for its module.
func TestW10C01ObsEntryOfNilNode(t *testing.T) {
	if c := w10c01ObsTry(func() { ToEntry(nil).InstantiatingModule() }); c != nil {
		t.Errorf("ToEntry(nil).InstantiatingModule() crashed: %v", c)
	}
}

// O4: n groupings of two uses each take time and memory 2^n: 1.4 kB of text take ~35 s at n=20.
func TestW10C01ObsExponentialGroupings(t *testing.T) {
	const n = 18
	var b strings.Builder
	b.WriteString("module m { namespace \"urn:m\"; prefix m;\n grouping g0 { leaf x { type string; } }\n")
	for i := 1; i <= n; i++ {
		fmt.Fprintf(&b, " grouping g%d { container a { uses g%d; } container b { uses g%d; } }\n", i, i-1, i-1)
	}
	b.WriteString("}\n")
	ms := NewModules()
	if err := ms.Parse(b.String(), "m.yang"); err != nil {
		t.Fatal(err)
	}
	start := time.Now()
	ms.Process()
	if d := time.Since(start); d > 2*time.Second {
		t.Errorf("processing %d bytes (%d groupings, none of them used by a data node) took %v", b.Len(), n, d)
	}
}

// O5: FindNode/ChildNode expand "uses" without a cycle guard: fatal stack overflow.
func TestW10C01ObsChildNodeUsesCycle(t *testing.T) {
	if os.Getenv("W10C01_OBS_FATAL") == "" {
		t.Skip("kills the test binary with 'fatal error: stack overflow'")
	}
	ms := NewModules()
	if err := ms.Parse(`module m { namespace "urn:m"; prefix m; grouping g { uses g; } }`, "m.yang"); err != nil {
		t.Fatal(err)
	}
	ms.Process() // reports "grouping g uses itself"
	FindNode(ms.Modules["m"], "/g/x")
}

// O6: 10^6 nested containers (14 MB of text): fatal stack overflow in build (ast.go).
func TestW10C01ObsDeepNesting(t *testing.T) {
	if os.Getenv("W10C01_OBS_FATAL") == "" {
		t.Skip("kills the test binary with 'fatal error: stack overflow'")
	}
	n := 1000000
	text := "module m { namespace \"urn:m\"; prefix m; " + strings.Repeat("container c {", n) + strings.Repeat("}", n) + "}"
	NewModules().Parse(text, "m.yang")
}

package yang

import (
	"sync"
	"testing"
)

// Run with: go test -race -vet=off -count=1 -run TestW10C19ObsFindImplicitRPCPart ./pkg/yang
func TestW10C19ObsFindImplicitRPCPart(t *testing.T) {
	for round := 0; round < 20; round++ {
		ms := NewModules()
		if err := ms.Parse(`module o { namespace "urn:o"; prefix o;
  rpc op { input { leaf in { type string; } } }
  container c { action act; }
}`, "o.yang"); err != nil {
			t.Fatal(err)
		}
		if errs := ms.Process(); len(errs) != 0 {
			t.Fatal(errs)
		}
		root := ToEntry(ms.Modules["o"])
		var wg sync.WaitGroup
		start := make(chan struct{})
		got := make([]*Entry, 8)
		for g := range got {
			wg.Add(1)
			go func() {
				defer wg.Done()
				<-start
				got[g] = root.Find("/o:op/o:output")
				root.Find("/o:c/o:act/o:input")
			}()
		}
		close(start)
		wg.Wait()
		for g := range got {
			if got[g] == nil || got[g] != got[0] {
				t.Errorf("round %d: reader %d got output entry %p, reader 0 got %p", round, g, got[g], got[0])
			}
		}
	}
}

// Run with: go test -race -vet=off -count=1 -run TestW10C19ObsFindUnknownPrefix ./pkg/yang
func TestW10C19ObsFindUnknownPrefix(t *testing.T) {
	ms := NewModules()
	if err := ms.Parse(`module o { namespace "urn:o"; prefix o; container c { leaf l { type string; } } }`, "o.yang"); err != nil {
		t.Fatal(err)
	}
	if errs := ms.Process(); len(errs) != 0 {
		t.Fatal(errs)
	}
	root := ToEntry(ms.Modules["o"])
	before := len(root.GetErrors())
	var wg sync.WaitGroup
	start := make(chan struct{})
	for g := 0; g < 8; g++ {
		wg.Add(1)
		go func() {
			defer wg.Done()
			<-start
			if root.Find("/zz:c/zz:l") != nil {
				t.Errorf("found a node under an unknown prefix")
			}
			root.GetErrors()
		}()
	}
	close(start)
	wg.Wait()
	if after := len(root.GetErrors()); after != before {
		t.Errorf("failed lookups changed the errors of the processed tree: %d before, %d after: %v", before, after, root.GetErrors())
	}
}

package yang

import "testing"

// Copy into pkg/yang to run. Each sub-test FAILS on the unchanged library: the
// restriction is not a legal YANG range-arg (RFC 7950 section 14: integer-value
// is an optional "-" followed by "0" or a decimal number without leading
// zeros; decimal-value needs digits on both sides of the ".") but is accepted.
func TestObservedInvalidRestrictionsAccepted(t *testing.T) {
	for _, s := range []string{"0x10..0x20", "010..011", "1_0..2_0", "0b11", "0o17", "+5..+7", "007"} {
		if r, err := Int8Range.parseChildRanges(s, false, 0); err == nil {
			t.Errorf("int8 range %q accepted as %v", s, r)
		}
	}
	full := YangRange{{
		Number{Value: AbsMinInt64, Negative: true, FractionDigits: 2},
		Number{Value: MaxInt64, FractionDigits: 2},
	}}
	for _, s := range []string{".", "-.", "+.", "1.", ".5", "0...5", "+1.5"} {
		if r, err := full.parseChildRanges(s, true, 2); err == nil {
			t.Errorf("decimal64(fd=2) range %q accepted as %v", s, r)
		}
	}
}

// A range on a type that has no numeric value set, and a length on a numeric
// type, are accepted and stored (the parent set is empty, and an empty parent
// contains everything).
func TestObservedRestrictionOnWrongKindAccepted(t *testing.T) {
	for _, body := range []string{
		`leaf a { type string { range "1..5"; } }`,
		`leaf a { type boolean { range "1..5"; } }`,
		`leaf a { type int8 { length "1..5"; } }`,
	} {
		ms := NewModules()
		if err := ms.Parse("module p { namespace \"urn:p\"; prefix p; "+body+" }", "p.yang"); err != nil {
			t.Fatal(err)
		}
		if errs := ms.Process(); len(errs) == 0 {
			t.Errorf("%s: accepted without error", body)
		}
	}
}

package yang

import (
	"fmt"
	"os"
	"path/filepath"
	"testing"
)

// TestObsImportFoundViaPathDependsOnReadOrder: Read adds the directory of every
// file it reads to the search path, so which copy of an imported (not
// explicitly loaded) module is found depends on the order of the Read calls.
func TestObsImportFoundViaPathDependsOnReadOrder(t *testing.T) {
	dir := t.TempDir()
	write := func(p, s string) {
		p = filepath.Join(dir, p)
		os.MkdirAll(filepath.Dir(p), 0o755)
		if err := os.WriteFile(p, []byte(s), 0o644); err != nil {
			t.Fatal(err)
		}
	}
	write("a/a.yang", `module a { namespace "urn:a"; prefix a; import common { prefix c; } leaf x { type c:t; } }`)
	write("b/b.yang", `module b { namespace "urn:b"; prefix b; import common { prefix c; } leaf y { type c:t; } }`)
	write("a/common.yang", `module common { namespace "urn:c"; prefix c; typedef t { type int8; } }`)
	write("b/common.yang", `module common { namespace "urn:c"; prefix c; typedef t { type string; } }`)

	load := func(files ...string) string {
		ms := NewModules()
		for _, f := range files {
			if err := ms.Read(filepath.Join(dir, f)); err != nil {
				t.Fatal(err)
			}
		}
		if errs := ms.Process(); len(errs) != 0 {
			t.Fatal(errs)
		}
		return fmt.Sprintf("a/x:%s b/y:%s", ToEntry(ms.Modules["a"]).Dir["x"].Type.Kind, ToEntry(ms.Modules["b"]).Dir["y"].Type.Kind)
	}
	ab, ba := load("a/a.yang", "b/b.yang"), load("b/b.yang", "a/a.yang")
	if ab != ba {
		t.Errorf("same files, same options, different Read order:\n  a then b: %s\n  b then a: %s", ab, ba)
	}
}

package yang

import "testing"

// TestW10ObsFailedMultiModuleTextLeavesFirstModule: a text holding two
// top-level statements, the second of which is rejected, makes Parse return an
// error - yet the first module stays in the set (with its typedefs) and its
// errors show up in the next Process.  The property demands that a failed load
// leaves no trace.  FAILS on the unchanged library.
func TestW10ObsFailedMultiModuleTextLeavesFirstModule(t *testing.T) {
	const text = `module a { namespace "urn:a"; prefix a; typedef t { type nope; } }
module b { namespace "urn:b"; prefix b; bogus 1; }`
	ms := NewModules()
	if err := ms.Parse(text, "ab.yang"); err == nil {
		t.Fatal("Parse accepted the text")
	}
	if n := len(ms.Modules); n != 0 {
		t.Errorf("after the failed load the set holds %d module(s), want 0", n)
	}
	if errs := ms.Process(); len(errs) != 0 {
		t.Errorf("Process on a set that only saw a failed load reports %v, want no errors", errs)
	}
	// A retry with the corrected text is now rejected as a duplicate of a.
	const fixed = `module a { namespace "urn:a"; prefix a; typedef t { type string; } }
module b { namespace "urn:b"; prefix b; }`
	if err := ms.Parse(fixed, "ab.yang"); err != nil {
		t.Errorf("retry with the corrected text: %v", err)
	}
}

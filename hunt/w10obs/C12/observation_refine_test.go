package yang

import "testing"

// Fails on the UNCHANGED library: the config substatement of refine (and the
// augment substatement of uses) is dropped silently.
func TestW10C12ObservationRefineConfig(t *testing.T) {
	const mod = `module r {
  yang-version 1.1;
  namespace "urn:r";
  prefix r;
  grouping grp { container gc { leaf gl { type string; } leaf other { type string; } } }
  container top {
    uses grp {
      refine "gc/gl" { config false; }
      augment "gc" { leaf ua { type string; } }
    }
  }
}`
	ms := NewModules()
	if err := ms.Parse(mod, "r.yang"); err != nil {
		t.Fatal(err)
	}
	if errs := ms.Process(); len(errs) != 0 {
		t.Fatal(errs)
	}
	gc := ToEntry(ms.Modules["r"]).Dir["top"].Dir["gc"]
	if !gc.Dir["gl"].ReadOnly() {
		t.Errorf("/r/top/gc/gl: ReadOnly() = false, want true (refine gc/gl { config false; })")
	}
	if gc.Dir["other"].ReadOnly() {
		t.Errorf("/r/top/gc/other: ReadOnly() = true, want false")
	}
	if gc.Dir["ua"] == nil {
		t.Errorf("/r/top/gc/ua: missing (uses ... { augment gc { leaf ua } })")
	}
}

package yang

import "testing"

func TestObservationPinnedImportBase(t *testing.T) {
	ms := NewModules()
	for _, m := range []struct{ name, src string }{
		{"a", `module a { namespace "urn:a"; prefix a;
			import b { prefix b; revision-date 2020-01-01; }
			identity d { base b:x; }
			leaf ref { type identityref { base b:x; } } }`},
		{"b@2020-01-01", `module b { namespace "urn:b"; prefix b; revision 2020-01-01; identity x; }`},
		{"b@2021-01-01", `module b { namespace "urn:b"; prefix b; revision 2021-01-01; identity x; }`},
	} {
		if err := ms.Parse(m.src, m.name); err != nil {
			t.Fatal(err)
		}
	}
	if errs := ms.Process(); len(errs) != 0 {
		t.Fatal(errs)
	}
	old, nw := ms.Modules["b@2020-01-01"].Identity[0], ms.Modules["b@2021-01-01"].Identity[0]
	t.Logf("import link: %s", ms.Modules["a"].Import[0].Module.FullName())
	t.Logf("old x values %d, new x values %d", len(old.Values), len(nw.Values))
	base := ToEntry(ms.Modules["a"]).Dir["ref"].Type.IdentityBase
	t.Logf("identityref base in %s", RootNode(base).FullName())
	if len(old.Values) != 1 || base != old {
		t.Errorf("base b:x written under an import pinned to b@2020-01-01 resolved to %s", RootNode(base).FullName())
	}
}

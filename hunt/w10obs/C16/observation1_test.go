package yang

import (
	"strings"
	"testing"
)

// TestW10C16ObsWrongKindField: a substatement that is only known for the
// other of module/submodule is reported at the position of the enclosing
// module/submodule statement, not at its own.  Fails on the unchanged library.
func TestW10C16ObsWrongKindField(t *testing.T) {
	for _, tt := range []struct{ text, want string }{
		{"module m {\n namespace \"urn:m\";\n prefix m;\n  belongs-to x { prefix y; }\n}\n", "f.yang:4:3: "},
		{"submodule s {\n belongs-to m { prefix m; }\n  namespace \"urn:m\";\n}\n", "f.yang:3:3: "},
	} {
		err := NewModules().Parse(tt.text, "f.yang")
		if err == nil || !strings.HasPrefix(err.Error(), tt.want) {
			t.Errorf("got %v, want an error starting %q", err, tt.want)
		}
	}
}

package yang

import "testing"

func obsRun(t *testing.T, dev string) (*Entry, []error) {
	base := `
module base {
  namespace "urn:base";
  prefix b;
  container c {
    leaf x { type string; default "a"; units "u"; }
    list l { key k; leaf k { type string; } }
    leaf-list ll { type string; }
  }
}`
	ms := NewModules()
	if err := ms.Parse(base, "base.yang"); err != nil {
		t.Fatal(err)
	}
	if err := ms.Parse(dev, "dev.yang"); err != nil {
		t.Fatal(err)
	}
	errs := ms.Process()
	return ToEntry(ms.Modules["base"]), errs
}

func TestObsWrongPrefixLaterStep(t *testing.T) {
	e, errs := obsRun(t, `
module dev {
  namespace "urn:dev";
  prefix d;
  import base { prefix b; }
  deviation /b:c/d:x { deviate replace { default "z"; } }
}`)
	t.Logf("errs=%v default=%v", errs, e.Find("/b:c/b:x").Default)
	if len(errs) == 0 {
		t.Errorf("deviation /b:c/d:x (no node x of module dev under c) applied to b:x without error")
	}
}

func TestObsUnknownPrefixLaterStep(t *testing.T) {
	e, errs := obsRun(t, `
module dev {
  namespace "urn:dev";
  prefix d;
  import base { prefix b; }
  deviation /b:c/nope:x { deviate replace { default "z"; } }
}`)
	t.Logf("errs=%v default=%v", errs, e.Find("/b:c/b:x").Default)
	if len(errs) == 0 {
		t.Errorf("deviation /b:c/nope:x (unknown prefix) applied without error")
	}
}

func TestObsDeleteAbsentBounds(t *testing.T) {
	_, errs := obsRun(t, `
module dev {
  namespace "urn:dev";
  prefix d;
  import base { prefix b; }
  deviation /b:c/b:l { deviate delete { min-elements 0; max-elements unbounded; } }
}`)
	t.Logf("errs=%v", errs)
	if len(errs) == 0 {
		t.Errorf("deleting absent min-elements/max-elements not reported")
	}
}

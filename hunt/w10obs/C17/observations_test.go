package yang

import "testing"

// Observation 1: an rpc/action input that the source did not write is created
// by Find without a Node; used as the START of an absolute prefixed lookup it
// cannot resolve any prefix.
func TestW10C17Obs1(t *testing.T) {
	ms := NewModules()
	if err := ms.Parse(`
module m {
  namespace "urn:m";
  prefix m;
  rpc poke;
  rpc full { input { leaf a { type string; } } }
  container c { leaf l { type string; } }
}`, "m.yang"); err != nil {
		t.Fatal(err)
	}
	if errs := ms.Process(); len(errs) != 0 {
		t.Fatal(errs)
	}
	root := ToEntry(ms.Modules["m"])
	want := root.Dir["c"].Dir["l"]
	if got := root.Find("/m:full/m:input").Find("/m:c/m:l"); got != want {
		t.Errorf("from written input: got %v", got)
	}
	in := root.Find("/m:poke/m:input")
	if in == nil {
		t.Fatal("no input")
	}
	if got := in.Find("/m:c/m:l"); got != want {
		t.Errorf("from unwritten input %s: Find(/m:c/m:l) = %v, want %s; errors on root: %v", in.Path(), got, want.Path(), root.Errors)
	}
	if got := in.Find("../../m:c/m:l"); got != want {
		t.Errorf("relative from unwritten input: got %v", got)
	}
}

// Observation 2: two revisions of a module; only the older includes the submodule.
func TestW10C17Obs2(t *testing.T) {
	ms := NewModules()
	for _, in := range []struct{ name, src string }{
		{"m@2020-01-01.yang", `module m { namespace "urn:m"; prefix m; include s; revision 2020-01-01; container own { leaf o { type string; } } }`},
		{"m@2021-01-01.yang", `module m { namespace "urn:m"; prefix m; revision 2021-01-01; container own { leaf o { type string; } } }`},
		{"s.yang", `submodule s { belongs-to m { prefix m; } container sc { leaf l { type string; } } }`},
		{"u.yang", `module u { namespace "urn:u"; prefix u; import m { prefix old; revision-date 2020-01-01; } import m { prefix new; revision-date 2021-01-01; } leaf x { type string; } }`},
	} {
		if err := ms.Parse(in.src, in.name); err != nil {
			t.Fatalf("%s: %v", in.name, err)
		}
	}
	if errs := ms.Process(); len(errs) != 0 {
		t.Fatalf("Process: %v", errs)
	}
	old := ToEntry(ms.Modules["m@2020-01-01"])
	sc := old.Dir["sc"]
	if sc == nil {
		t.Fatalf("submodule content not in m@2020-01-01: %v", old.Dir)
	}
	x := ToEntry(ms.Modules["u"]).Dir["x"]
	if got := x.Find("/old:sc/old:l"); got != sc.Dir["l"] {
		t.Errorf("from u: got %v", got)
	}
	// From the submodule-defined node inside the old revision's tree.
	if got := sc.Find("/m:sc/m:l"); got != sc.Dir["l"] {
		t.Errorf("from %s (tree of m@2020-01-01): Find(/m:sc/m:l) = %v (%p), want %p", sc.Path(), got, got, sc.Dir["l"])
	}
	if got := sc.Find("/m:own"); got != old.Dir["own"] {
		t.Errorf("from %s (tree of m@2020-01-01): Find(/m:own) = %p, want %p (own of the same tree); newer tree's own is %p", sc.Path(), got, old.Dir["own"], ToEntry(ms.Modules["m"]).Dir["own"])
	}
}

// Observation 3: prefixes on steps after the first are not checked.
func TestW10C17Obs3(t *testing.T) {
	ms := NewModules()
	if err := ms.Parse(`module m { namespace "urn:m"; prefix m; container c { leaf l { type string; } } }`, "m.yang"); err != nil {
		t.Fatal(err)
	}
	if errs := ms.Process(); len(errs) != 0 {
		t.Fatal(errs)
	}
	root := ToEntry(ms.Modules["m"])
	if got := root.Find("/m:c/bogus:l"); got != nil {
		t.Errorf("Find(/m:c/bogus:l) = %s, want nil (no prefix bogus, and l is not a node of such a module)", got.Path())
	}
}

package yang

import "testing"

// Both tests FAIL on the unchanged library (HEAD b80db48).

// A deviation that replaces the "type" of a container is accepted without an
// error and leaves a directory entry that has a Type.
func TestW10C04ObsContainerWithType(t *testing.T) {
	ms := NewModules()
	for name, src := range map[string]string{
		"a": `module a { namespace "urn:a"; prefix a; container c { leaf x { type string; } } }`,
		"d": `module d { namespace "urn:d"; prefix d; import a { prefix a; }
			deviation "/a:c" { deviate replace { type string; } } }`,
	} {
		if err := ms.Parse(src, name+".yang"); err != nil {
			t.Fatal(err)
		}
	}
	if errs := ms.Process(); len(errs) != 0 {
		return // reported: fine
	}
	c := ToEntry(ms.Modules["a"]).Dir["c"]
	if c.Type != nil {
		t.Errorf("clean Process, but container /a/c (Kind %v, %d children) has Type %s", c.Kind, len(c.Dir), c.Type.Name)
	}
}

// The augment (and refine) substatements of a uses statement are never
// converted: an unknown type inside them is not reported and the augment is
// silently dropped.
func TestW10C04ObsUsesAugmentUnreported(t *testing.T) {
	ms := NewModules()
	if err := ms.Parse(`module a { namespace "urn:a"; prefix a;
		grouping g { container c { leaf x { type string; } } }
		container p { uses g { augment "c" { leaf y { type no-such-type; } } } } }`, "a.yang"); err != nil {
		t.Fatal(err)
	}
	if errs := ms.Process(); len(errs) != 0 {
		return // reported: fine
	}
	if y := ToEntry(ms.Modules["a"]).Dir["p"].Dir["c"].Dir["y"]; y == nil {
		t.Errorf("clean Process, but leaf y of unknown type written in a uses-augment was neither reported nor added")
	} else if y.Type == nil {
		t.Errorf("clean Process, but /a/p/c/y has no resolved type")
	}
}

package yang

// Tests that FAIL on the unchanged library (see OBSERVATIONS.md).

import (
	"io/ioutil"
	"os"
	"path/filepath"
	"sort"
	"testing"
)

func obsLoad(t *testing.T, srcs ...string) (*Modules, []error) {
	t.Helper()
	ms := NewModules()
	for i, s := range srcs {
		if err := ms.Parse(s, string(rune('a'+i))+".yang"); err != nil {
			t.Fatalf("parse %d: %v", i, err)
		}
	}
	return ms, ms.Process()
}

func obsKeys(e *Entry) []string {
	var ks []string
	for k := range e.Dir {
		ks = append(ks, k)
	}
	sort.Strings(ks)
	return ks
}

// O1: a typedef of a submodule that a submodule includes is not visible in the
// module, while a grouping and an identity written at the same place are.
func TestObsO1NestedIncludeTypedef(t *testing.T) {
	_, errs := obsLoad(t,
		`module m { namespace "urn:m"; prefix m; include s1; uses g2; leaf l { type t2; } leaf r { type identityref { base i2; } } }`,
		`submodule s1 { belongs-to m { prefix m; } include s2; }`,
		`submodule s2 { belongs-to m { prefix m; } typedef t2 { type string; } grouping g2 { leaf z { type string; } } identity i2; }`,
	)
	if len(errs) != 0 {
		t.Errorf("Process: %v (the same body written in one module is accepted)", errs)
	}
}

// O2: ClearEntryCache followed by ToEntry yields a module without the nodes of
// its submodules (the merged-submodule bookkeeping is only reset by Process).
func TestObsO2ClearEntryCacheLosesSubmoduleNodes(t *testing.T) {
	ms, errs := obsLoad(t,
		`module m { namespace "urn:m"; prefix m; include s1; leaf l { type string; } }`,
		`submodule s1 { belongs-to m { prefix m; } leaf k { type string; } }`,
	)
	if len(errs) != 0 {
		t.Fatal(errs)
	}
	before := obsKeys(ToEntry(ms.Modules["m"]))
	ms.ClearEntryCache()
	after := obsKeys(ToEntry(ms.Modules["m"]))
	if len(before) != len(after) {
		t.Errorf("children of m: %v before ClearEntryCache, %v after", before, after)
	}
}

// O3: a superseded revision of a submodule that has an include of its own makes
// Process fail, in every load order.
func TestObsO3SupersededSubmoduleRevisionWithInclude(t *testing.T) {
	_, errs := obsLoad(t,
		`module m { namespace "urn:m"; prefix m; include s1; }`,
		`submodule s1 { belongs-to m { prefix m; } revision 2019-01-01; include s2; leaf a { type string; } }`,
		`submodule s1 { belongs-to m { prefix m; } revision 2020-01-01; include s2; leaf a2 { type string; } }`,
		`submodule s2 { belongs-to m { prefix m; } leaf b { type string; } }`,
	)
	if len(errs) != 0 {
		t.Errorf("Process: %v", errs)
	}
}

// O4: of two loaded revisions of a module that include the same submodule only
// the latest receives the submodule's nodes.
func TestObsO4OlderOwnerRevisionWithoutSubmoduleNodes(t *testing.T) {
	ms, errs := obsLoad(t,
		`module m { namespace "urn:m"; prefix m; revision 2019-01-01; include s; }`,
		`module m { namespace "urn:m"; prefix m; revision 2020-01-01; include s; }`,
		`submodule s { belongs-to m { prefix m; } leaf b { type string; } }`,
	)
	if len(errs) != 0 {
		t.Fatal(errs)
	}
	for _, k := range []string{"m@2019-01-01", "m@2020-01-01"} {
		if ToEntry(ms.Modules[k]).Dir["b"] == nil {
			t.Errorf("%s: leaf b of the included submodule is missing", k)
		}
	}
}

// O5: nodes merged in from a submodule keep the prefix of its belongs-to
// statement; written in the module they carry the module's prefix.
func TestObsO5MergedNodesKeepBelongsToPrefix(t *testing.T) {
	ms, errs := obsLoad(t,
		`module m { namespace "urn:m"; prefix m; include s1; leaf l { type string; } }`,
		`submodule s1 { belongs-to m { prefix other; } leaf k { type string; } }`,
	)
	if len(errs) != 0 {
		t.Fatal(errs)
	}
	e := ToEntry(ms.Modules["m"])
	if got, want := e.Dir["k"].Prefix.Name, e.Dir["l"].Prefix.Name; got != want {
		t.Errorf("prefix of /m/k is %q, of /m/l %q", got, want)
	}
}

// O6: with both revisions of a module on the search path and none loaded, what
// a pinned and a bare import end up denoting depends on the alphabetical order
// of the names of the importing modules: a loaded revision of the name
// satisfies any later import before the disk is consulted.
func TestObsO6FetchDependsOnImporterNames(t *testing.T) {
	oldRead, oldScan := readFile, scanDir
	readFile, scanDir = ioutil.ReadFile, findInDir
	defer func() { readFile, scanDir = oldRead, oldScan }()
	dir, err := ioutil.TempDir("", "o6")
	if err != nil {
		t.Fatal(err)
	}
	defer os.RemoveAll(dir)
	for _, rev := range []string{"2019-01-01", "2020-01-01"} {
		src := `module o6lib { namespace "urn:o6lib"; prefix l; revision ` + rev + `; }`
		if err := ioutil.WriteFile(filepath.Join(dir, "o6lib@"+rev+".yang"), []byte(src), 0o644); err != nil {
			t.Fatal(err)
		}
	}
	for _, names := range [][2]string{{"a", "b"}, {"b", "a"}} {
		ms := NewModules()
		ms.AddPath(dir)
		pinned, bare := names[0], names[1]
		ms.Parse(`module `+pinned+` { namespace "urn:`+pinned+`"; prefix p; import o6lib { prefix l; revision-date 2019-01-01; } }`, "x.yang")
		ms.Parse(`module `+bare+` { namespace "urn:`+bare+`"; prefix p; import o6lib { prefix l; } }`, "y.yang")
		if errs := ms.Process(); len(errs) != 0 {
			t.Fatal(errs)
		}
		gotPinned := ms.Modules[pinned].Import[0].Module.FullName()
		gotBare := ms.Modules[bare].Import[0].Module.FullName()
		if gotPinned != "o6lib@2019-01-01" || gotBare != "o6lib@2020-01-01" {
			t.Errorf("pinned importer %q, bare importer %q: pinned import -> %s, bare import -> %s; want o6lib@2019-01-01 and o6lib@2020-01-01",
				pinned, bare, gotPinned, gotBare)
		}
	}
}

package yang

import "testing"

// Fails on the unchanged library: "." and ".." steps in an augment's absolute
// path are followed instead of being rejected.
func TestObservationAugmentPathWithDotSteps(t *testing.T) {
	for _, path := range []string{"/t:top/..", "/t:top/../t:other", "/t:top/.", "/t:top/./t:in"} {
		ms := NewModules()
		if err := ms.Parse(`module t { namespace "urn:t"; prefix t; container top { container in { } } container other { } }`, "t.yang"); err != nil {
			t.Fatal(err)
		}
		if err := ms.Parse(`module a { namespace "urn:a"; prefix a; import t { prefix t; } augment "`+path+`" { leaf weird { type string; } } }`, "a.yang"); err != nil {
			continue // rejecting it at parse time would be fine too
		}
		if errs := ms.Process(); len(errs) == 0 {
			t.Errorf("augment %q: no error reported (root has weird: %v)", path, ToEntry(ms.Modules["t"]).Dir["weird"] != nil)
		}
	}
}

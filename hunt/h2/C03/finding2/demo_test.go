package yang

// Demo for OUT/finding2: "description" is accepted (and filed) as a
// substatement of every argument-only statement (namespace, prefix, config,
// mandatory, default, key, description itself, ...), where RFC 7950 defines
// no substatements at all; it may even be nested without bound.
//
// Copy to pkg/yang/ and run:
//   go test -vet=off -count=1 -run TestDemoDescriptionUnderArgumentOnlyStatements ./pkg/yang/

import "testing"

func TestDemoDescriptionUnderArgumentOnlyStatements(t *testing.T) {
	cases := []struct{ kw, src string }{
		{"namespace", `module m { namespace "urn:m" { description "d"; } prefix m; }`},
		{"prefix", `module m { namespace "urn:m"; prefix m { description "d"; } }`},
		{"yang-version", `module m { yang-version 1.1 { description "d"; } namespace "urn:m"; prefix m; }`},
		{"config", `module m { namespace "urn:m"; prefix m; leaf l { type string; config true { description "d"; } } }`},
		{"mandatory", `module m { namespace "urn:m"; prefix m; leaf l { type string; mandatory true { description "d"; } } }`},
		{"key", `module m { namespace "urn:m"; prefix m; list l { key k { description "d"; } leaf k { type string; } } }`},
		{"revision-date", `module m { namespace "urn:m"; prefix m; import o { prefix o; revision-date 2020-01-01 { description "d"; } } }`},
		{"description", `module m { namespace "urn:m"; prefix m; description "a" { description "b" { description "c" { description "d"; } } } }`},
	}
	for _, c := range cases {
		ms := NewModules()
		err := ms.Parse(c.src, c.kw+".yang")
		if err == nil {
			t.Errorf("a 'description' substatement under %q (a statement for which RFC 7950 defines no substatements) was accepted:\n  %s", c.kw, c.src)
		}
	}

	// For contrast: any other unknown keyword in the same place is rejected.
	ms := NewModules()
	if err := ms.Parse(`module m { namespace "urn:m" { reference "r"; } prefix m; }`, "contrast.yang"); err == nil {
		t.Errorf("contrast case unexpectedly accepted")
	} else {
		t.Logf("contrast (reference under namespace) is rejected: %v", err)
	}
}

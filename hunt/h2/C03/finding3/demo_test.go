package yang

// Demo for OUT/finding3: a prefixed (extension) substatement is filed in the
// extensions list of its parent, but the object filed there carries no link to
// its enclosing node: ParentNode() is nil for every extension statement, at
// every level, so e.g. RootNode / NodePath / FindModuleByPrefix cannot be used
// starting from it.
//
// Copy to pkg/yang/ and run:
//   go test -vet=off -count=1 -run TestDemoExtensionHasNoParentLink ./pkg/yang/

import "testing"

func TestDemoExtensionHasNoParentLink(t *testing.T) {
	const src = `module m {
  namespace "urn:m"; prefix m;
  extension e { argument a; }
  m:e top;
  container c {
    leaf l { type string { m:e in-type; } m:e in-leaf; }
  }
}`
	ms := NewModules()
	if err := ms.Parse(src, "m.yang"); err != nil {
		t.Fatal(err)
	}
	m := ms.Modules["m"]
	leaf := m.Container[0].Leaf[0]

	check := func(where string, parent Node) {
		exts := parent.Exts()
		if len(exts) != 1 {
			t.Fatalf("%s: got %d extensions, want 1", where, len(exts))
		}
		var n Node = exts[0] // *Statement implements Node
		if n.NName() != exts[0].Argument || n.Statement() != exts[0] {
			t.Errorf("%s: name/statement not carried", where)
		}
		if n.ParentNode() != parent {
			t.Errorf("%s: extension %s %q: ParentNode() = %v, want its enclosing %s %q",
				where, n.Kind(), n.NName(), n.ParentNode(), parent.Kind(), parent.NName())
		}
		if got := NodePath(n); got != NodePath(parent)+"/"+n.NName() {
			t.Errorf("%s: NodePath(ext) = %q, want %q", where, got, NodePath(parent)+"/"+n.NName())
		}
	}
	check("module", m)
	check("leaf", leaf)
	check("type", leaf.Type)

	// The typed sibling, for contrast, is linked.
	if leaf.Type.ParentNode() != Node(leaf) {
		t.Errorf("typed substatement not linked either?")
	}
}

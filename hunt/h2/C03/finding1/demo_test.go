package yang

// Demo for OUT/finding1: building the AST of a deeply nested (but
// syntactically fine) module neither returns an error nor an AST: the process
// dies with "fatal error: stack overflow" inside build (pkg/yang/ast.go),
// although the statement tree of the very same text is produced by Parse
// without trouble.
//
// Copy to pkg/yang/ and run:
//   go test -vet=off -count=1 -run TestDemoDeepNestingKillsProcess ./pkg/yang/

import (
	"fmt"
	"os"
	"os/exec"
	"strings"
	"testing"
	"time"
)

const demoDeepDepth = 800000 // ~9.6 MB of source text

func demoDeepSource() string {
	return "module m { namespace urn:m; prefix m;\n" +
		strings.Repeat("container c{", demoDeepDepth) +
		strings.Repeat("}", demoDeepDepth) + "}\n"
}

// TestDemoDeepNestingChild is the scenario itself; it only runs in the
// subprocess started by TestDemoDeepNestingKillsProcess.
func TestDemoDeepNestingChild(t *testing.T) {
	if os.Getenv("GY_DEEP_CHILD") != "1" {
		t.Skip("helper for TestDemoDeepNestingKillsProcess")
	}
	src := demoDeepSource()
	ss, err := Parse(src, "deep.yang")
	fmt.Printf("STATEMENT-TREE-OK statements=%d err=%v\n", len(ss), err)
	ms := NewModules()
	err = ms.Parse(src, "deep.yang") // either an error or an AST is expected
	fmt.Printf("MODULES-PARSE-RETURNED err=%v module=%v\n", err, ms.Modules["m"] != nil)
}

func TestDemoDeepNestingKillsProcess(t *testing.T) {
	cmd := exec.Command(os.Args[0], "-test.run=^TestDemoDeepNestingChild$", "-test.v")
	cmd.Env = append(os.Environ(), "GY_DEEP_CHILD=1")
	type res struct {
		out []byte
		err error
	}
	ch := make(chan res, 1)
	go func() {
		out, err := cmd.CombinedOutput()
		ch <- res{out, err}
	}()
	var r res
	select {
	case r = <-ch:
	case <-time.After(5 * time.Minute):
		cmd.Process.Kill()
		t.Fatal("subprocess did not finish in 5 minutes")
	}
	out := string(r.out)
	// Keep only the informative head of the (huge) goroutine dump.
	head := out
	if len(head) > 1500 {
		head = head[:1500] + "\n...[truncated]"
	}
	if !strings.Contains(out, "STATEMENT-TREE-OK statements=1 err=<nil>") {
		t.Fatalf("precondition failed: Parse did not produce the statement tree:\n%s", head)
	}
	if r.err != nil || !strings.Contains(out, "MODULES-PARSE-RETURNED") {
		t.Fatalf("Modules.Parse neither returned an error nor an AST; the process died (%v):\n%s", r.err, head)
	}
}

package yang

import (
	"sort"
	"strings"
	"testing"
)

// RFC 7950 section 7.17: "The target node MUST be either a container, list,
// choice, case, input, output, or notification node."  anydata and anyxml
// nodes are opaque and cannot have schema children; an rpc or action can only
// be extended through its input or output.  An augment that names one of them
// is "not a node that can have children" in the sense of the property and has
// to be reported, like the augment of a leaf is.
//
// The library decides with Entry.IsDir() (Dir != nil).  ToEntry builds the
// entries of anydata, anyxml, rpc and action with newDirectory, so their Dir
// is an empty, non-nil map: the augment is accepted without any error and the
// nodes are grafted below the anydata / anyxml / rpc / action entry.
func TestAugmentOfNodeThatCannotHaveChildren(t *testing.T) {
	const target = `module t {
  yang-version 1.1;
  namespace "urn:t";
  prefix t;
  anydata ad;
  anyxml ax;
  rpc r { input { leaf i { type string; } } }
  container c { action act; leaf lf { type string; } }
}`
	for _, tc := range []struct {
		name, path string
		find       func(root *Entry) *Entry
	}{
		{"leaf (control, already reported)", "/t:c/t:lf", func(r *Entry) *Entry { return r.Dir["c"].Dir["lf"] }},
		{"anydata", "/t:ad", func(r *Entry) *Entry { return r.Dir["ad"] }},
		{"anyxml", "/t:ax", func(r *Entry) *Entry { return r.Dir["ax"] }},
		{"rpc", "/t:r", func(r *Entry) *Entry { return r.Dir["r"] }},
		{"action", "/t:c/t:act", func(r *Entry) *Entry { return r.Dir["c"].Dir["act"] }},
	} {
		t.Run(tc.name, func(t *testing.T) {
			ms := NewModules()
			if err := ms.Parse(target, "t.yang"); err != nil {
				t.Fatal(err)
			}
			aug := `module a { yang-version 1.1; namespace "urn:a"; prefix a; import t { prefix t; }
  augment "` + tc.path + `" { leaf grafted { type string; } }
}`
			if err := ms.Parse(aug, "a.yang"); err != nil {
				t.Fatal(err)
			}
			errs := ms.Process()
			for _, err := range errs {
				t.Logf("Process error: %v", err)
			}
			tgt := tc.find(ToEntry(ms.Modules["t"]))
			var kids []string
			for k := range tgt.Dir {
				kids = append(kids, k)
			}
			sort.Strings(kids)
			t.Logf("target %s: Kind=%v, children after Process: [%s]", tc.path, tgt.Kind, strings.Join(kids, " "))
			if len(errs) == 0 {
				t.Errorf("augment %q: the target cannot have children, yet Process reported no error", tc.path)
			}
			if len(kids) != 0 {
				t.Errorf("augment %q: the target gained children %v", tc.path, kids)
			}
		})
	}
}

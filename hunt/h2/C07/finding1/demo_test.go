package yang

import (
	"testing"
)

// An augment written in a submodule whose absolute target path starts with an
// UNPREFIXED node name ("/sc", "/c") denotes a node of the module the
// submodule belongs to (RFC 7950 section 6.5: a node identifier without a
// prefix refers to the current module's namespace; for a submodule that is the
// namespace of the module it belongs to).  The target exists in the loaded
// set, so the augment has to be applied, exactly once, to the module's tree.
//
// The library resolves the unprefixed path against the private Entry tree of
// the submodule instead of the tree of the module:
//   - if the target is defined in the submodule itself, the nodes are grafted
//     onto the submodule's private copy only; the module's tree (which got its
//     copy of the submodule's nodes when the include was merged) never gains
//     them and no error is reported: the augment is silently dropped;
//   - if the target is defined in the module (or a sibling submodule), the
//     augment is rejected with "augment /c not found" although /c exists.
//
// Writing the very same path with the belongs-to prefix ("/t:sc", "/t:c")
// works, so the outcome depends on how the path is spelled.
func TestSubmoduleUnprefixedAugment(t *testing.T) {
	load := func(t *testing.T, srcs ...[2]string) (*Modules, []error) {
		t.Helper()
		ms := NewModules()
		for _, s := range srcs {
			if err := ms.Parse(s[1], s[0]); err != nil {
				t.Fatalf("parse %s: %v", s[0], err)
			}
		}
		return ms, ms.Process()
	}
	check := func(t *testing.T, ms *Modules, errs []error, path []string) {
		t.Helper()
		for _, err := range errs {
			t.Errorf("unexpected Process error: %v", err)
		}
		e := ToEntry(ms.Modules["t"])
		at := "/"
		for _, p := range path {
			next := e.Dir[p]
			if next == nil {
				t.Fatalf("tree of module t: %s has no child %q: the augment was not applied to the module", at, p)
			}
			e = next
			at += p + "/"
		}
		if ns := e.Namespace().Name; ns != "urn:t" {
			t.Errorf("namespace of grafted node = %q, want urn:t", ns)
		}
	}

	t.Run("target defined in the same submodule, unprefixed", func(t *testing.T) {
		ms, errs := load(t,
			[2]string{"t.yang", `module t { namespace "urn:t"; prefix t; include ts; }`},
			[2]string{"ts.yang", `submodule ts { belongs-to t { prefix t; }
			   container sc { leaf sl { type string; } }
			   augment "/sc" { leaf added { type string; } }
			 }`},
		)
		check(t, ms, errs, []string{"sc", "added"})
	})

	t.Run("target defined in the same submodule, prefixed (control, passes)", func(t *testing.T) {
		ms, errs := load(t,
			[2]string{"t.yang", `module t { namespace "urn:t"; prefix t; include ts; }`},
			[2]string{"ts.yang", `submodule ts { belongs-to t { prefix t; }
			   container sc { leaf sl { type string; } }
			   augment "/t:sc" { leaf added { type string; } }
			 }`},
		)
		check(t, ms, errs, []string{"sc", "added"})
	})

	t.Run("target defined in the module, unprefixed", func(t *testing.T) {
		ms, errs := load(t,
			[2]string{"t.yang", `module t { yang-version 1.1; namespace "urn:t"; prefix t; include ts;
			   container c { leaf l { type string; } } }`},
			[2]string{"ts.yang", `submodule ts { yang-version 1.1; belongs-to t { prefix t; }
			   augment "/c" { leaf added { type string; } }
			 }`},
		)
		check(t, ms, errs, []string{"c", "added"})
	})

	t.Run("chain: second augment depends on the first, both unprefixed", func(t *testing.T) {
		ms, errs := load(t,
			[2]string{"t.yang", `module t { namespace "urn:t"; prefix t; include ts; }`},
			[2]string{"ts.yang", `submodule ts { belongs-to t { prefix t; }
			   container sc { }
			   augment "/sc/x" { leaf y { type string; } }
			   augment "/sc" { container x { } }
			 }`},
		)
		check(t, ms, errs, []string{"sc", "x", "y"})
	})
}

package yang

import (
	"sort"
	"strings"
	"testing"
)

// The target of an augment is an absolute schema node identifier in which
// EVERY step is a qualified name: "/t:c/u:d" names the child d, in the
// namespace of the module bound to prefix u, of the container c of module t
// (RFC 7950 sections 6.5 and 7.17).  If c has no child d in that namespace the
// target does not exist and the augment has to be reported.
//
// Entry.Find uses the prefix of the FIRST step only (to choose the module) and
// strips the prefix of every later step without looking at it.  So
//   - a step with a prefix that is not declared anywhere in the augmenting
//     module ("/t:c/zz:d"),
//   - a step with the prefix of an unrelated imported module ("/t:c/u:d", u
//     defines nothing), and
//   - a step that names a node grafted by ANOTHER module with the prefix of
//     the target module ("/t:c/t:x" where only a:x exists)
// all resolve to whatever child carries that local name; the augment is
// applied there and Process reports nothing.
func TestAugmentPathPrefixAfterFirstStepIsIgnored(t *testing.T) {
	const (
		modT = `module t { namespace "urn:t"; prefix t; container c { container d { leaf l { type string; } } } }`
		modU = `module u { namespace "urn:u"; prefix u; }`
		// module a legitimately grafts container x (namespace urn:a) into /t:c.
		modA = `module a { namespace "urn:a"; prefix a; import t { prefix t; } augment "/t:c" { container x { } } }`
	)
	for _, tc := range []struct {
		name, path string
		parent     []string // where the nodes end up today
	}{
		{"control: correct prefix", "/t:c/t:d", []string{"c", "d"}},
		{"undeclared prefix zz", "/t:c/zz:d", []string{"c", "d"}},
		{"prefix of an unrelated module", "/t:c/u:d", []string{"c", "d"}},
		{"node of module a addressed as t:x", "/t:c/t:x", []string{"c", "x"}},
		{"node of module a addressed as u:x", "/t:c/u:x", []string{"c", "x"}},
	} {
		t.Run(tc.name, func(t *testing.T) {
			ms := NewModules()
			modB := `module b { namespace "urn:b"; prefix b; import t { prefix t; } import u { prefix u; } import a { prefix a; }
  augment "` + tc.path + `" { leaf grafted { type string; } }
}`
			for _, s := range [][2]string{{"t.yang", modT}, {"u.yang", modU}, {"a.yang", modA}, {"b.yang", modB}} {
				if err := ms.Parse(s[1], s[0]); err != nil {
					t.Fatalf("%s: %v", s[0], err)
				}
			}
			errs := ms.Process()
			for _, err := range errs {
				t.Logf("Process error: %v", err)
			}
			e := ToEntry(ms.Modules["t"])
			for _, p := range tc.parent {
				e = e.Dir[p]
			}
			var kids []string
			for k, c := range e.Dir {
				kids = append(kids, k+"{"+c.Namespace().Name+"}")
			}
			sort.Strings(kids)
			t.Logf("augment %q; %s{%s} now has children [%s]", tc.path, e.Path(), e.Namespace().Name, strings.Join(kids, " "))

			control := strings.HasPrefix(tc.name, "control")
			switch {
			case control && (len(errs) != 0 || e.Dir["grafted"] == nil):
				t.Errorf("control: augment %q must be applied without error", tc.path)
			case control:
			default:
				if len(errs) == 0 {
					t.Errorf("augment %q: no such node exists (wrong namespace in the last step), yet Process reported no error", tc.path)
				}
				if e.Dir["grafted"] != nil {
					t.Errorf("augment %q was applied to %s, which is a different node (namespace %s)", tc.path, e.Path(), e.Namespace().Name)
				}
			}
		})
	}
}

package indent

import (
	"bytes"
	"testing"
)

// shortQuietWriter accepts at most limit bytes in total and, like some
// hand-written writers (and like a bytes-limited pipe wrapper that forgets
// io.ErrShortWrite), reports the short count with a nil error.
type shortQuietWriter struct {
	buf   bytes.Buffer
	limit int
}

func (s *shortQuietWriter) Write(p []byte) (int, error) {
	room := s.limit - s.buf.Len()
	if room > len(p) {
		room = len(p)
	}
	if room < 0 {
		room = 0
	}
	s.buf.Write(p[:room])
	return room, nil
}

// callerBytesIn says how many bytes of text are contained in the first
// emitted bytes of the one-shot rendering String(prefix, text).
func callerBytesIn(prefix, text string, emitted int) int {
	out, caller, atStart := 0, 0, true
	for i := 0; i < len(text); i++ {
		if atStart {
			out += len(prefix)
			atStart = false
		}
		if out >= emitted {
			return caller
		}
		out++
		caller++
		atStart = text[i] == '\n'
	}
	return caller
}

func TestShortWriteWithoutErrorIsReportedAsComplete(t *testing.T) {
	const prefix = "P"
	for _, text := range []string{"a", "ab\ncd", "ab\ncd\n"} {
		full := String(prefix, text)
		for stop := 0; stop < len(full); stop++ {
			u := &shortQuietWriter{limit: stop}
			w := NewWriter(u, prefix)
			n, err := w.Write([]byte(text))
			reached := callerBytesIn(prefix, text, u.buf.Len())
			if n != reached {
				t.Errorf("Write(%q) with the underlying writer stopping after %d bytes (it holds %q) = %d, %v; only %d caller bytes reached it, want count %d (and a non-nil error such as io.ErrShortWrite)",
					text, stop, u.buf.String(), n, err, reached, reached)
			}
		}
	}
}

package indent

import (
	"bytes"
	"errors"
	"testing"
)

// flakyWriter accepts at most limit bytes in total and then fails with an
// error; raising limit afterwards models a transient condition (full pipe,
// quota, EAGAIN-style error) that has gone away.
type flakyWriter struct {
	buf   bytes.Buffer
	limit int
}

var errFull = errors.New("full")

func (f *flakyWriter) Write(p []byte) (int, error) {
	room := f.limit - f.buf.Len()
	if room >= len(p) {
		f.buf.Write(p)
		return len(p), nil
	}
	if room < 0 {
		room = 0
	}
	f.buf.Write(p[:room])
	return room, errFull
}

// The caller does what the io.Writer contract invites: Write returned
// (n, err) with n < len(buf), so n bytes are taken as consumed and the rest,
// buf[n:], is written again once the underlying writer accepts data.  The
// division of the text into Write calls is then  text[:n] | text[n:]  and the
// property demands the one-shot rendering of the concatenation.
func TestResumeAfterShortWriteKeepsLineState(t *testing.T) {
	const prefix = "P"
	for _, tc := range []struct {
		text string
		stop int // bytes the underlying writer accepts before failing
	}{
		{"a", 0},      // nothing emitted, not even the prefix
		{"a\n", 2},    // "Pa" emitted: line has its prefix and is still open
		{"\na", 2},    // "P\n" emitted: new line, prefix not yet written
		{"ab\ncd", 4}, // "Pab\n" emitted: new line, prefix not yet written
		{"ab\ncd", 3}, // "Pab" emitted: line open
	} {
		want := String(prefix, tc.text)
		u := &flakyWriter{limit: tc.stop}
		w := NewWriter(u, prefix)
		n, err := w.Write([]byte(tc.text))
		if err == nil {
			t.Fatalf("Write(%q): expected the short write to be reported", tc.text)
		}
		emitted := u.buf.String()
		u.limit = 1 << 30
		rest := tc.text[n:]
		if n2, err := w.Write([]byte(rest)); err != nil || n2 != len(rest) {
			t.Fatalf("resumed Write(%q) = %d, %v", rest, n2, err)
		}
		if got := u.buf.String(); got != want {
			t.Errorf("text %q: first Write returned %d (underlying held %q); after writing the remaining %q the underlying holds %q, want %q",
				tc.text, n, emitted, rest, got, want)
		}
	}
}

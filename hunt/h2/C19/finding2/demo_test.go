package yang

import (
	"runtime"
	"sync"
	"sync/atomic"
	"testing"
)

// TestConcurrentFindFromUsedGroupingEntry: readers of one processed set look
// up a node that exists (/u:other/u:x), starting from an entry of the same
// tree (/u/c/a) and spelling the path with the prefix of the module that owns
// the tree.  Because /u/c/a was instantiated by "uses l:g", Entry.Find
// resolves the prefix in module lib, does not find it, returns nil - and
// appends an error to the Errors slice of the shared root entry without any
// lock.  Readers that only call Find and GetErrors therefore race with each
// other.
//
// Under -race the test fails with data race reports (addError vs addError,
// addError vs checkErrors).  With or without -race it fails when the number of
// errors recorded differs from what the same calls made one after the other
// record (appends lost to the race).
func TestConcurrentFindFromUsedGroupingEntry(t *testing.T) {
	load := func() (*Modules, *Entry, *Entry) {
		ms := NewModules()
		for name, src := range map[string]string{
			"lib.yang": `module lib { namespace "urn:lib"; prefix l; grouping g { leaf a { type string; } } }`,
			"u.yang": `module u { namespace "urn:u"; prefix u; import lib { prefix l; }
			             container c { uses l:g; }
			             container other { leaf x { type string; } } }`,
		} {
			if err := ms.Parse(src, name); err != nil {
				t.Fatal(err)
			}
		}
		if errs := ms.Process(); len(errs) != 0 {
			t.Fatal(errs)
		}
		root := ToEntry(ms.Modules["u"])
		a := root.Dir["c"].Dir["a"]
		if a == nil || root.Find("/u:other/u:x") == nil {
			t.Fatal("setup: nodes missing")
		}
		return ms, root, a
	}

	const readers, rounds = 8, 3000

	// Sequential reference.
	_, sroot, sa := load()
	for i := 0; i < readers*rounds; i++ {
		sa.Find("/u:other/u:x")
		if i%1000 == 0 {
			sroot.GetErrors()
		}
	}
	want := len(sroot.Errors)

	_, root, a := load()
	var ready int32
	var wg sync.WaitGroup
	for g := 0; g < readers; g++ {
		wg.Add(1)
		go func() {
			defer wg.Done()
			defer func() {
				// A reader may see a half-written slice header.
				if p := recover(); p != nil {
					t.Errorf("a reader panicked: %v", p)
				}
			}()
			atomic.AddInt32(&ready, 1)
			for atomic.LoadInt32(&ready) < readers {
				runtime.Gosched()
			}
			for r := 0; r < rounds; r++ {
				a.Find("/u:other/u:x") // path lookup of an existing node
				if r%1000 == 0 {
					root.GetErrors() // error accessor
				}
			}
		}()
	}
	wg.Wait()
	if got := len(root.Errors); got != want {
		t.Errorf("root entry holds %d errors after the concurrent readers, %d after the same calls made sequentially", got, want)
	}
	t.Logf("sequential: %d errors on the root entry of an error-free processed set, e.g. %v", want, sroot.Errors[0])
}

package yang

import (
	"fmt"
	"runtime"
	"strings"
	"sync"
	"sync/atomic"
	"testing"
)

// TestConcurrentFindOfImplicitRPCInput processes one module set and then lets
// several goroutines do nothing but read it: each looks up, by path, the
// "input" (or "output") node of an rpc/action that does not write one out.
// RFC 7950 7.14 defines those nodes for every rpc, and Entry.Find returns a
// non-nil *Entry for them - but it does so by creating the Entry on first use
// and storing it in the shared tree without any lock.
//
// The property demands that concurrent readers race-free obtain what a
// sequential run gives.  A sequential run returns ONE entry per path, however
// often it is asked.  Under -race the test fails with a data race report; with
// or without -race it also fails as soon as two readers were handed two
// different entries for the same path (a lost update).
func TestConcurrentFindOfImplicitRPCInput(t *testing.T) {
	const rpcs = 400
	const readers = 8

	var src strings.Builder
	src.WriteString("module m {\n  yang-version 1.1;\n  namespace \"urn:m\";\n  prefix m;\n")
	for i := 0; i < rpcs; i++ {
		// no input, no output statement: both are implicit
		fmt.Fprintf(&src, "  rpc r%d;\n", i)
	}
	src.WriteString("  container c { action a; }\n}\n")

	load := func() *Entry {
		ms := NewModules()
		if err := ms.Parse(src.String(), "m.yang"); err != nil {
			t.Fatal(err)
		}
		if errs := ms.Process(); len(errs) != 0 {
			t.Fatal(errs)
		}
		return ToEntry(ms.Modules["m"])
	}
	root := load()

	// Sequential reference on a path of its own: the same entry every time.
	if a, b := root.Find("/m:c/m:a/m:input"), root.Find("/m:c/m:a/m:input"); a == nil || a != b {
		t.Fatalf("sequential reference: Find returned %p then %p", a, b)
	}

	// Whether two stores collide is a matter of scheduling: try up to 50
	// freshly processed sets (the race detector needs only the first).
	split := 0
	for attempt := 0; attempt < 50 && split == 0; attempt++ {
		if attempt > 0 {
			root = load()
		}
		for i := 0; i < rpcs; i++ {
			path := fmt.Sprintf("/m:r%d/m:input", i)
			if i%2 == 1 {
				path = fmt.Sprintf("/m:r%d/m:output", i)
			}
			got := make([]*Entry, readers)
			var ready int32
			var wg sync.WaitGroup
			for g := 0; g < readers; g++ {
				wg.Add(1)
				go func(g int) {
					defer wg.Done()
					// spin barrier, so that the lookups really are simultaneous
					atomic.AddInt32(&ready, 1)
					for atomic.LoadInt32(&ready) < readers {
						runtime.Gosched()
					}
					got[g] = root.Find(path) // read-only query: path lookup
				}(g)
			}
			wg.Wait()
			for g := 1; g < readers; g++ {
				if got[g] != got[0] {
					split++
					if split <= 3 {
						t.Errorf("%s: concurrent readers were handed different entries: %p and %p (tree now holds %p)",
							path, got[0], got[g], root.Find(path))
					}
					break
				}
			}
		}
	}
	if split > 0 {
		t.Errorf("%d of %d paths: readers disagree on the entry a path denotes", split, rpcs)
	}
}

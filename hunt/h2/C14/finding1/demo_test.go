package yang

import (
	"reflect"
	"testing"
)

// RFC 7950 9.6.4.2: "When an existing enumeration type is restricted, the
// "value" statement MUST either have the same value as in the base type or not
// be present, in which case the value is the same as in the base type."
// RFC 7950 9.7.4.2 says the same of "position" in a restricted bits type.
//
// The library renumbers the members of a restricted enumeration / bits type
// from zero, as if the type were a new one.
func TestRestrictedEnumAndBitsKeepBaseValues(t *testing.T) {
	const src = `module m {
  yang-version 1.1;
  namespace "urn:m";
  prefix m;

  typedef e {
    type enumeration {
      enum a;               // 0
      enum b;               // 1
      enum c { value 5; }   // 5
      enum d;               // 6
    }
  }
  typedef f {
    type bits {
      bit a;                  // 0
      bit b;                  // 1
      bit c { position 5; }   // 5
      bit d;                  // 6
    }
  }

  leaf base-enum { type e; }
  leaf base-bits { type f; }

  // Legal YANG 1.1 restrictions (RFC 7950 9.6.3, 9.7.3).
  leaf sub-enum { type e { enum b; enum d; } }
  leaf sub-bits { type f { bit b; bit d; } }
}`
	ms := NewModules()
	if err := ms.Parse(src, "m.yang"); err != nil {
		t.Fatalf("Parse: %v", err)
	}
	if errs := ms.Process(); len(errs) != 0 {
		t.Fatalf("Process: %v", errs)
	}
	mod, errs := ms.GetModule("m")
	if len(errs) != 0 {
		t.Fatalf("GetModule: %v", errs)
	}

	// Sanity: the base types are numbered as the RFC says.
	wantBase := map[string]int64{"a": 0, "b": 1, "c": 5, "d": 6}
	if got := mod.Dir["base-enum"].Type.Enum.NameMap(); !reflect.DeepEqual(got, wantBase) {
		t.Fatalf("base enumeration: got %v, want %v", got, wantBase)
	}
	if got := mod.Dir["base-bits"].Type.Bit.NameMap(); !reflect.DeepEqual(got, wantBase) {
		t.Fatalf("base bits: got %v, want %v", got, wantBase)
	}

	// The restricted types keep the values of the base type.
	want := map[string]int64{"b": 1, "d": 6}
	if got := mod.Dir["sub-enum"].Type.Enum.NameMap(); !reflect.DeepEqual(got, want) {
		t.Errorf("restricted enumeration: name-to-value is %v, want %v (values of the base type)", got, want)
	}
	wantInv := map[int64]string{1: "b", 6: "d"}
	if got := mod.Dir["sub-enum"].Type.Enum.ValueMap(); !reflect.DeepEqual(got, wantInv) {
		t.Errorf("restricted enumeration: value-to-name is %v, want %v", got, wantInv)
	}
	if got := mod.Dir["sub-bits"].Type.Bit.NameMap(); !reflect.DeepEqual(got, want) {
		t.Errorf("restricted bits: name-to-position is %v, want %v (positions of the base type)", got, want)
	}

	t.Run("different-value", restrictedEnumWithDifferentValue)
}

// The same clause makes an explicit value that differs from the base type's an
// error; the library accepts it and hands out the new value.
func restrictedEnumWithDifferentValue(t *testing.T) {
	const src = `module m {
  yang-version 1.1;
  namespace "urn:m";
  prefix m;
  typedef e { type enumeration { enum a; enum b; } }      // a = 0, b = 1
  leaf x { type e { enum b { value 7; } } }                // MUST be 1 or absent
}`
	ms := NewModules()
	if err := ms.Parse(src, "m.yang"); err != nil {
		t.Fatalf("Parse: %v", err)
	}
	errs := ms.Process()
	if len(errs) != 0 {
		return // rejected, as the RFC demands
	}
	mod, _ := ms.GetModule("m")
	t.Errorf("Process accepted a restricted enum whose value differs from the base type's; x has %v, base type has b = 1",
		mod.Dir["x"].Type.Enum.NameMap())
}

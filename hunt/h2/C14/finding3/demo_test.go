package yang

import (
	"testing"
)

// RFC 7950 9.6.4.2: "The "value" statement ... takes as an argument an integer
// value"; section 14 gives the only lexical form:
//
//	integer-value              = ("-" non-negative-integer-value) /
//	                              non-negative-integer-value
//	non-negative-integer-value = "0" / positive-integer-value
//	positive-integer-value     = (non-zero-digit *DIGIT)
//
// (and position-value-arg = non-negative-integer-value).  YANG has no octal,
// hexadecimal or binary literals, no digit separators and no "+" sign.  The
// library reads the argument with strconv.ParseUint(s, 0, 64), so such
// arguments are neither rejected nor read as the decimal digits they show:
// "value 010" assigns 8.
func TestValueAndPositionAreDecimal(t *testing.T) {
	for _, tc := range []struct {
		name string
		typ  string
		// decimal is what the digits say when read as the decimal number
		// they look like, or nil if there is no such reading.
		decimal *int64
	}{
		{"enum-leading-zero", `enumeration { enum a { value 010; } enum b; }`, i64(10)},
		{"enum-negative-leading-zero", `enumeration { enum a { value -010; } enum b; }`, i64(-10)},
		{"bits-leading-zero", `bits { bit a { position 010; } bit b; }`, i64(10)},
		{"enum-hex", `enumeration { enum a { value 0x10; } enum b; }`, nil},
		{"enum-binary", `enumeration { enum a { value 0b11; } enum b; }`, nil},
		{"enum-underscore", `enumeration { enum a { value 1_0; } enum b; }`, nil},
		{"bits-hex", `bits { bit a { position 0x10; } bit b; }`, nil},
	} {
		t.Run(tc.name, func(t *testing.T) {
			src := `module m { namespace "urn:m"; prefix m; leaf x { type ` + tc.typ + ` } }`
			ms := NewModules()
			if err := ms.Parse(src, "m.yang"); err != nil {
				return // rejected: fine
			}
			if errs := ms.Process(); len(errs) != 0 {
				return // rejected: fine
			}
			mod, _ := ms.GetModule("m")
			et := mod.Dir["x"].Type.Enum
			if et == nil {
				et = mod.Dir["x"].Type.Bit
			}
			got := et.NameMap()
			if tc.decimal != nil && got["a"] == *tc.decimal && got["b"] == *tc.decimal+1 {
				return // read as decimal: tolerable
			}
			t.Errorf("type %s: accepted, and a = %d, b = %d; the argument is not an integer-value of RFC 7950 section 14 and should be rejected (or at the very least read as decimal)",
				tc.typ, got["a"], got["b"])
		})
	}
}

func i64(v int64) *int64 { return &v }

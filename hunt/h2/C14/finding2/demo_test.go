package yang

import (
	"testing"
)

// RFC 7950 9.7.4.2: "The position value MUST be unique within the bits type."
//
// The library accepts two bits at one position, explicit or not, and the
// position-to-name view then silently drops one of the names.
func TestBitPositionsAreUnique(t *testing.T) {
	for _, tc := range []struct {
		name, bits string
	}{
		{"explicit-explicit", `bit a { position 3; } bit b { position 3; }`},
		{"implicit-then-explicit", `bit a; bit b; bit c { position 1; }`},
		{"explicit-lower-after-higher", `bit a { position 1; } bit b { position 0; } bit c { position 2; } bit d { position 1; }`},
	} {
		t.Run(tc.name, func(t *testing.T) {
			src := `module m { namespace "urn:m"; prefix m; leaf x { type bits { ` + tc.bits + ` } } }`
			ms := NewModules()
			if err := ms.Parse(src, "m.yang"); err != nil {
				t.Fatalf("Parse: %v", err)
			}
			if errs := ms.Process(); len(errs) != 0 {
				return // rejected, as the RFC demands
			}
			mod, _ := ms.GetModule("m")
			b := mod.Dir["x"].Type.Bit
			t.Errorf("Process accepted bits with a duplicate position: name-to-position %v, position-to-name %v",
				b.NameMap(), b.ValueMap())
		})
	}

	// The same through the exported API.
	t.Run("api", func(t *testing.T) {
		b := NewBitfield()
		if err := b.Set("a", 3); err != nil {
			t.Fatal(err)
		}
		if err := b.Set("b", 3); err == nil {
			t.Errorf("NewBitfield: Set(b, 3) after Set(a, 3) succeeded: name-to-position %v, position-to-name %v",
				b.NameMap(), b.ValueMap())
		}
	})
}

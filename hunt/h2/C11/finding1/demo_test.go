package yang

import (
	"strings"
	"testing"
)

// A YANG 1 (RFC 6020) module whose submodule s1 includes a second submodule
// s2 that the module itself does not include.  RFC 6020 section 7.1.6: "When
// a submodule includes another submodule, the target submodule's definitions
// are made available to the current submodule."  goyang merges the data nodes
// of s2 through s1 into m, but resolveIdentities only hoists the identities of
// the submodules that the module includes directly, so the identities of s2
// are never filed and never visited.
func TestFinding1NestedIncludeIdentities(t *testing.T) {
	srcs := []struct{ name, text string }{
		{"m", `module m { namespace "urn:m"; prefix m; include s1; }`},
		{"s1", `submodule s1 {
			belongs-to m { prefix m; }
			include s2;
			identity a { base root; }
			leaf l { type identityref { base root; } }
		}`},
		{"s2", `submodule s2 {
			belongs-to m { prefix m; }
			identity root;
			identity b { base root; }
			leaf in-s2 { type string; }
		}`},
	}
	ms := NewModules()
	for _, s := range srcs {
		if err := ms.Parse(s.text, s.name); err != nil {
			t.Fatalf("parse %s: %v", s.name, err)
		}
	}
	errs := ms.Process()
	if len(errs) != 0 {
		t.Errorf("Process reported errors for a base that is defined (identity root in submodule s2, included by s1): %v", errs)
	}

	var root *Identity
	for _, i := range ms.SubModules["s2"].Identity {
		if i.Name == "root" {
			root = i
		}
	}
	var got []string
	for _, v := range root.Values {
		got = append(got, v.Name)
	}
	if g, w := strings.Join(got, " "), "a b"; g != w {
		t.Errorf("identity root (submodule s2): Values = [%s], want [%s]", g, w)
	}

	if len(errs) == 0 {
		// The data nodes of s2 do reach m (the include chain is honoured
		// for them), and the identityref leaf of s1 must point at root.
		e := ToEntry(ms.Modules["m"])
		if e.Dir["in-s2"] == nil {
			t.Errorf("leaf in-s2 of s2 is not in m")
		}
		if l := e.Dir["l"]; l == nil || l.Type == nil || l.Type.IdentityBase != root {
			t.Errorf("leaf l: identityref does not point at identity root of s2")
		}
	}
}

// The same include chain, but nothing outside s2 refers to its identities, so
// no error gives the omission away: root and b stand side by side in s2, and
// root lists nothing.
func TestFinding1NestedIncludeSilent(t *testing.T) {
	srcs := []struct{ name, text string }{
		{"m", `module m { namespace "urn:m"; prefix m; include s1; }`},
		{"s1", `submodule s1 { belongs-to m { prefix m; } include s2; }`},
		{"s2", `submodule s2 {
			belongs-to m { prefix m; }
			identity root;
			identity b { base root; }
			identity c { base nowhere; }
		}`},
	}
	ms := NewModules()
	for _, s := range srcs {
		if err := ms.Parse(s.text, s.name); err != nil {
			t.Fatalf("parse %s: %v", s.name, err)
		}
	}
	errs := ms.Process()
	if len(errs) == 0 {
		t.Errorf("Process reported no error for identity c { base nowhere; } in s2")
	}
	for _, i := range ms.SubModules["s2"].Identity {
		if i.Name != "root" {
			continue
		}
		var got []string
		for _, v := range i.Values {
			got = append(got, v.Name)
		}
		if g, w := strings.Join(got, " "), "b"; g != w {
			t.Errorf("identity root (submodule s2): Values = [%s], want [%s]", g, w)
		}
	}
}

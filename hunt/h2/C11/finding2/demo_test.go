package yang

import (
	"strings"
	"testing"
)

func f2names(ids []*Identity) string {
	var s []string
	for _, v := range ids {
		s = append(s, RootNode(v).FullName()+":"+v.Name)
	}
	return strings.Join(s, " ")
}

func f2find(m *Module, name string) *Identity {
	for _, i := range m.Identity {
		if i.Name == name {
			return i
		}
	}
	return nil
}

const (
	f2m2020 = `module m { namespace "urn:m"; prefix m; revision 2020-01-01;
		identity root;
		identity old { base root; }
		leaf l { type identityref { base root; } }
	}`
	f2m2021 = `module m { namespace "urn:m"; prefix m; revision 2021-01-01;
		identity root;
		identity new { base root; }
	}`
)

// Two revisions of module m are loaded (as happens whenever one importer pins
// a revision-date and another does not).  The identity dictionary is keyed by
// the bare module name, so the two revisions share one set of slots.
func TestFinding2TwoRevisionsLists(t *testing.T) {
	ms := NewModules()
	for _, s := range []struct{ name, text string }{{"m@2020-01-01", f2m2020}, {"m@2021-01-01", f2m2021}} {
		if err := ms.Parse(s.text, s.name); err != nil {
			t.Fatalf("parse %s: %v", s.name, err)
		}
	}
	if errs := ms.Process(); len(errs) != 0 {
		t.Fatalf("Process: %v", errs)
	}
	m20, m21 := ms.Modules["m@2020-01-01"], ms.Modules["m@2021-01-01"]
	root20, root21 := f2find(m20, "root"), f2find(m21, "root")

	// identity old { base root; } stands next to root in m@2020-01-01.
	if g, w := f2names(root20.Values), "m@2020-01-01:old"; g != w {
		t.Errorf("m@2020-01-01:root Values = [%s], want [%s]", g, w)
	}
	// Nothing in m@2021-01-01 but new names its root as a base.
	if g, w := f2names(root21.Values), "m@2021-01-01:new"; g != w {
		t.Errorf("m@2021-01-01:root Values = [%s], want [%s]", g, w)
	}
	// The identityref of leaf l in m@2020-01-01 names the root of its own module.
	l := ToEntry(m20).Dir["l"]
	if l == nil || l.Type == nil || l.Type.IdentityBase == nil {
		t.Fatalf("leaf l has no identityref base")
	}
	if l.Type.IdentityBase != root20 {
		t.Errorf("leaf l of m@2020-01-01: IdentityBase is %s:root, want the root of m@2020-01-01",
			RootNode(l.Type.IdentityBase).FullName())
	}
}

// Module n imports exactly m@2021-01-01, which has no identity named old.
// The base p:old is undefined and has to be reported.
func TestFinding2UndefinedBaseAccepted(t *testing.T) {
	n := `module n { yang-version 1.1; namespace "urn:n"; prefix n;
		import m { prefix p; revision-date 2021-01-01; }
		identity x { base p:old; }
		leaf l { type identityref { base p:old; } }
	}`
	ms := NewModules()
	for _, s := range []struct{ name, text string }{{"m@2020-01-01", f2m2020}, {"m@2021-01-01", f2m2021}, {"n", n}} {
		if err := ms.Parse(s.text, s.name); err != nil {
			t.Fatalf("parse %s: %v", s.name, err)
		}
	}
	errs := ms.Process()
	if len(errs) == 0 {
		t.Errorf("Process reported no error although m@2021-01-01 (the module prefix p denotes) defines no identity old; "+
			"n:x was filed under %s", func() string {
			for _, set := range []*Module{ms.Modules["m@2020-01-01"], ms.Modules["m@2021-01-01"]} {
				for _, i := range set.Identity {
					for _, v := range i.Values {
						if v.Name == "x" {
							return RootNode(i).FullName() + ":" + i.Name
						}
					}
				}
			}
			return "nothing"
		}())
	}
}

package yang

import (
	"strings"
	"testing"
)

// An identity name is used twice in the identity namespace of one module
// (RFC 7950 section 6.2.1 forbids it).  The dictionary slot m:a is silently
// overwritten by the definition that is filed last, so the other definition
// is never visited: its base statement adds nothing to the list of its base
// (and would not even be checked), and nothing is reported.
func TestFinding3DuplicateIdentityDropsDerivation(t *testing.T) {
	for _, tc := range []struct {
		desc string
		srcs [][2]string
	}{{
		desc: "twice in one module",
		srcs: [][2]string{
			{"m", `module m { namespace "urn:m"; prefix m;
				identity r;
				identity a { base r; }
				identity a;
			}`},
		},
	}, {
		desc: "in the module and in its submodule",
		srcs: [][2]string{
			{"m", `module m { namespace "urn:m"; prefix m; include s;
				identity r;
				identity a { base r; }
			}`},
			{"s", `submodule s { belongs-to m { prefix m; } identity a; }`},
		},
	}} {
		t.Run(tc.desc, func(t *testing.T) {
			ms := NewModules()
			for _, s := range tc.srcs {
				if err := ms.Parse(s[1], s[0]); err != nil {
					// Rejecting the duplicate here would be fine too.
					return
				}
			}
			errs := ms.Process()
			if len(errs) != 0 {
				return // reported: fine
			}
			var r *Identity
			for _, i := range ToEntry(ms.Modules["m"]).Identities {
				if i.Name == "r" {
					r = i
				}
			}
			var got []string
			for _, v := range r.Values {
				got = append(got, v.Name)
			}
			if len(got) != 1 || got[0] != "a" {
				t.Errorf("no error was reported, and identity r lists [%s] although the loaded module m holds identity a { base r; }",
					strings.Join(got, " "))
			}
		})
	}
}

package yang

import (
	"os"
	"path/filepath"
	"testing"
)

// A submodule that no loaded module includes is processed by Process (its tree
// is built, its augments are applied), but Modules.process never links its
// import statements, so the modules it imports are not loaded up front.  The
// first time one of its augment paths is looked up, Entry.Find ->
// FindModuleByPrefix -> Modules.FindModule reads the imported module from the
// search path - in the middle of the augment phase.  The list of modules whose
// augments are to be applied was fixed before, so the augments of the module
// that arrives late are never applied and never reported: Process returns no
// errors while ToEntry(b).Augments is non-empty and the augmented node is
// missing from the tree.
func TestH2C04LateLoadedModuleKeepsItsAugments(t *testing.T) {
	dir := t.TempDir()
	const b = `module b {
  namespace "urn:b";
  prefix b;
  container c { }
  augment "/b:c" {
    leaf own { type string; }
  }
}`
	if err := os.WriteFile(filepath.Join(dir, "b.yang"), []byte(b), 0o644); err != nil {
		t.Fatal(err)
	}

	const s = `submodule s {
  belongs-to m { prefix m; }
  import b { prefix b; }
  augment "/b:c" {
    leaf fromsub { type string; }
  }
}`
	ms := NewModules()
	ms.AddPath(dir)
	if err := ms.Parse(s, "s.yang"); err != nil {
		t.Fatalf("Parse: %v", err)
	}
	if errs := ms.Process(); len(errs) != 0 {
		// Not the situation the property speaks about.
		t.Fatalf("Process reported errors: %v", errs)
	}

	bm := ms.Modules["b"]
	if bm == nil {
		t.Fatalf("module b was not loaded")
	}
	root := ToEntry(bm)
	c := root.Dir["c"]
	if c == nil {
		t.Fatalf("b has no container c")
	}
	if c.Dir["fromsub"] == nil {
		t.Errorf("the submodule's augment was not applied to /b:c")
	}
	if n := len(root.Augments); n != 0 {
		t.Errorf("Process reported no errors, but module b is left with %d unapplied augment(s): %q", n, root.Augments[0].Name)
	}
	if c.Dir["own"] == nil {
		t.Errorf("Process reported no errors, but /b:c/own (from b's own augment) is missing; children of c: %v", keysF3(c.Dir))
	}
}

func keysF3(m map[string]*Entry) []string {
	var ks []string
	for k := range m {
		ks = append(ks, k)
	}
	return ks
}

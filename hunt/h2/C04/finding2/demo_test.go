package yang

import (
	"testing"
)

func f2Process(t *testing.T, srcs map[string]string, order []string) []error {
	t.Helper()
	ms := NewModules()
	for _, name := range order {
		if err := ms.Parse(srcs[name], name); err != nil {
			t.Fatalf("Parse(%s): %v", name, err)
		}
	}
	return ms.Process()
}

// Errors that are recorded on tree nodes while augments are merged (errors
// inside the augment body, duplicate-node collisions) are collected only by
// the very last sweep of Process.  Deviations are applied between the merge
// and that sweep, and "deviate not-supported" removes the node that carries
// the errors (or an ancestor of it) without looking at them.  Process then
// returns an empty error list for a module set that does have errors.
func TestH2C04AugmentErrorsLostToDeviation(t *testing.T) {
	scenarios := []struct {
		name      string
		srcs      map[string]string
		order     []string
		deviation string // the file whose removal makes Process report the error
	}{{
		name: "unknown type in an augment body",
		srcs: map[string]string{
			"b.yang": `module b { namespace "urn:b"; prefix b;
  container c { }
}`,
			"x.yang": `module x { namespace "urn:x"; prefix x;
  import b { prefix b; }
  augment "/b:c" {
    leaf l { type no-such-type; }
  }
}`,
			"z.yang": `module z { namespace "urn:z"; prefix z;
  import b { prefix b; }
  deviation "/b:c" { deviate not-supported; }
}`,
		},
		order:     []string{"b.yang", "x.yang", "z.yang"},
		deviation: "z.yang",
	}, {
		name: "two modules augment the same child name into a container",
		srcs: map[string]string{
			"b.yang": `module b { namespace "urn:b"; prefix b;
  container top { container c { } }
}`,
			"x.yang": `module x { namespace "urn:x"; prefix x;
  import b { prefix b; }
  augment "/b:top/b:c" { leaf l { type string; } }
}`,
			"y.yang": `module y { namespace "urn:y"; prefix y;
  import b { prefix b; }
  augment "/b:top/b:c" { leaf l { type string; } }
}`,
			"z.yang": `module z { namespace "urn:z"; prefix z;
  import b { prefix b; }
  deviation "/b:top/b:c" { deviate not-supported; }
}`,
		},
		order:     []string{"b.yang", "x.yang", "y.yang", "z.yang"},
		deviation: "z.yang",
	}}

	for _, sc := range scenarios {
		// Control: without the deviating module the error is recorded on a
		// tree node during augment merging and Process reports it.
		var without []string
		for _, n := range sc.order {
			if n != sc.deviation {
				without = append(without, n)
			}
		}
		control := f2Process(t, sc.srcs, without)
		if len(control) == 0 {
			t.Fatalf("%s: control (no deviation) unexpectedly clean", sc.name)
		}
		t.Logf("%s: without %s Process reports: %v", sc.name, sc.deviation, control)

		// The same set plus a module that only deviates the target away.
		errs := f2Process(t, sc.srcs, sc.order)
		if len(errs) == 0 {
			t.Errorf("%s: Process returned no errors although the set contains the error reported above; "+
				"the error was recorded on a tree node during augment merging and dropped with the node by the deviation", sc.name)
		}
	}
}

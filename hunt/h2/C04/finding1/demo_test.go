package yang

import (
	"fmt"
	"sort"
	"testing"
)

// f1ChoiceChildren walks the whole tree of e (Dir and rpc/action input/output)
// and returns one line for every child of a choice that is not a case.
func f1ChoiceChildren(e *Entry, path string) []string {
	var out []string
	var names []string
	for k := range e.Dir {
		names = append(names, k)
	}
	sort.Strings(names)
	for _, k := range names {
		c := e.Dir[k]
		if e.Kind == ChoiceEntry && c.Kind != CaseEntry {
			out = append(out, fmt.Sprintf("%s/%s: child of choice %q is a %v entry, not a case", path, k, e.Name, c.Kind))
		}
		out = append(out, f1ChoiceChildren(c, path+"/"+k)...)
	}
	if e.RPC != nil {
		if e.RPC.Input != nil {
			out = append(out, f1ChoiceChildren(e.RPC.Input, path+"/input")...)
		}
		if e.RPC.Output != nil {
			out = append(out, f1ChoiceChildren(e.RPC.Output, path+"/output")...)
		}
	}
	return out
}

// An augment whose target path goes through the implicit case of a shorthand
// choice member (the form RFC 7950 section 7.9.2 requires: "schema node
// identifiers MUST always explicitly include case node identifiers") can only
// be resolved after FixChoice has inserted that case.  Process applies it in
// the "remaining augments" pass, which runs after FixChoice, and never runs
// FixChoice again: the nodes that such an augment brings in keep their
// shorthand choice members unwrapped.  Process reports no errors.
func TestH2C04LateAugmentLeavesChoiceChildrenUnwrapped(t *testing.T) {
	inputs := []struct {
		name, text string
	}{{
		name: "augment adds a choice with a shorthand member",
		text: `module m {
  namespace "urn:m";
  prefix m;

  choice transport {
    container tcp { }              // shorthand for: case tcp { container tcp { } }
  }

  // /transport(choice) /tcp(case) /tcp(container)
  augment "/m:transport/m:tcp/m:tcp" {
    choice auth {
      leaf password { type string; }
    }
  }
}`,
	}, {
		name: "augment adds a shorthand member to an existing choice",
		text: `module m {
  namespace "urn:m";
  prefix m;

  choice transport {
    container tcp {
      choice auth {
        leaf password { type string; }
      }
    }
  }

  // /transport(choice) /tcp(case) /tcp(container) /auth(choice)
  augment "/m:transport/m:tcp/m:tcp/m:auth" {
    leaf token { type string; }
  }
}`,
	}}

	for _, in := range inputs {
		ms := NewModules()
		if err := ms.Parse(in.text, "m.yang"); err != nil {
			t.Fatalf("%s: Parse: %v", in.name, err)
		}
		if errs := ms.Process(); len(errs) != 0 {
			// Not the situation the property speaks about.
			t.Fatalf("%s: Process reported errors: %v", in.name, errs)
		}
		root := ToEntry(ms.Modules["m"])
		if n := len(root.Augments); n != 0 {
			t.Errorf("%s: %d augments left unapplied", in.name, n)
		}
		for _, v := range f1ChoiceChildren(root, "") {
			t.Errorf("%s: Process reported no errors, but %s", in.name, v)
		}
	}
}

package yang

import (
	"fmt"
	"testing"
)

// RFC 7950 section 14:
//
//	range-arg  = range-part *(optsep "|" optsep range-part)
//	range-part = range-boundary [optsep ".." optsep range-boundary]
//	optsep     = *(WSP / line-break)      ; SP, HTAB, CRLF, LF
//
// (length-arg likewise.)  No other character may stand between the boundaries
// and the ".." and "|" signs.  The library trims every boundary with
// strings.TrimSpace, which also removes VT, FF, U+0085, U+00A0, U+1680,
// U+2000..U+200A, U+2028, U+2029, U+202F, U+205F and U+3000.
func TestH5C10UnicodeSpaceInRestriction(t *testing.T) {
	for _, s := range []string{
		"1\u00a0..\u00a05",     // no-break space
		"1..5\u2003|\u20037",   // em space
		"\u30001..5",           // ideographic space
		"1\u0085..5",           // NEL
		"1\u2028..\u20295",     // line / paragraph separator
		"1\v..\f5",             // vertical tab, form feed
		"min\u00a0..\u00a0max", // around the keywords too
	} {
		if r, err := Int8Range.parseChildRanges(s, false, 0); err == nil {
			t.Errorf("int8 range %q = %v, want a syntax error", s, r)
		}
		if s[0] == 'm' {
			continue // min and max need a parent set
		}
		if r, err := ParseRangesInt(s); err == nil {
			t.Errorf("ParseRangesInt(%q) = %v, want a syntax error", s, r)
		}
		if r, err := ParseRangesDecimal(s, 1); err == nil {
			t.Errorf("ParseRangesDecimal(%q, 1) = %v, want a syntax error", s, r)
		}
	}

	// The same through a module.  The characters are written into the YANG
	// text as themselves (UTF-8), inside the quoted arguments.
	src := fmt.Sprintf(`module m { namespace "urn:m"; prefix m;
  leaf x { type int8 { range "1%s..%s5"; } }
  leaf y { type string { length "1%s..%s5 |%s7"; } }
  leaf z { type decimal64 { fraction-digits 1; range "%s1.5"; } }
}`, "\u00a0", "\u00a0", "\u2003", "\u2003", "\u3000", "\u0085")
	ms := NewModules()
	if err := ms.Parse(src, "m.yang"); err != nil {
		t.Fatalf("Parse: %v", err)
	}
	errs := ms.Process()
	if len(errs) != 3 {
		m, _ := ms.GetModule("m")
		t.Errorf("Process reports %d errors %v, want one for each of the three restrictions; x range %v, y length %v, z range %v",
			len(errs), errs, m.Dir["x"].Type.Range, m.Dir["y"].Type.Length, m.Dir["z"].Type.Range)
	}
}

package yang

import (
	"fmt"
	"testing"
)

// RFC 7950 section 14:
//
//	range-boundary = min-keyword / max-keyword / integer-value / decimal-value
//	decimal-value  = integer-value ("." zero-integer-value)
//	zero-integer-value = 1*DIGIT
//
// A decimal boundary has at least one digit on both sides of the point.
// The library deletes the first '.' of the text, pads with zeros and converts
// what is left, so a missing integer part or a missing fraction reads as 0:
// "." is 0, ".5" is 0.5, "5." is 5, and "0...5" (three dots) is 0..0.5.
func TestH5C10DecimalBoundaryWithoutDigits(t *testing.T) {
	for _, s := range []string{".", "-.", ".5", "-.5", "5.", "1..5.", "0...5", "-.5...5", ".|1.|2.5"} {
		r, err := ParseRangesDecimal(s, 2)
		if err == nil {
			t.Errorf("ParseRangesDecimal(%q, 2) = %v, want a syntax error", s, r)
		}
	}

	for _, s := range []string{".", "0...5", "5.", "-.5"} {
		src := fmt.Sprintf(`module m { namespace "urn:m"; prefix m;
  typedef d { type decimal64 { fraction-digits 2; range "-10..10"; } }
  leaf x { type d { range "%s"; } }
}`, s)
		ms := NewModules()
		if err := ms.Parse(src, "m.yang"); err != nil {
			t.Fatalf("Parse: %v", err)
		}
		if errs := ms.Process(); len(errs) == 0 {
			m, _ := ms.GetModule("m")
			t.Errorf("range %q on decimal64: Process reports no error, leaf x has range %v", s, m.Dir["x"].Type.Range)
		}
	}
}

package yang

import (
	"testing"
)

// RFC 7950 section 14:
//
//	range-boundary  = min-keyword / max-keyword / integer-value / decimal-value
//	length-boundary = min-keyword / max-keyword / non-negative-integer-value
//	integer-value   = ("-" non-negative-integer-value) / non-negative-integer-value
//	decimal-value   = integer-value ("." zero-integer-value)
//
// There is no "+" in a boundary (the optional "+" of sections 9.2.1 and 9.3.1
// belongs to the lexical form of instance values, not to range-arg).
func TestH5C10PlusSignInRestriction(t *testing.T) {
	for _, s := range []string{"+5", "1..+5", "+1|+3..+4"} {
		if r, err := ParseRangesInt(s); err == nil {
			t.Errorf("ParseRangesInt(%q) = %v, want a syntax error", s, r)
		}
	}
	for _, s := range []string{"+1.5", "+1..+2.5", "+0.0"} {
		if r, err := ParseRangesDecimal(s, 1); err == nil {
			t.Errorf("ParseRangesDecimal(%q, 1) = %v, want a syntax error", s, r)
		}
	}

	src := `module m { namespace "urn:m"; prefix m;
  leaf x { type int8 { range "+1..+5"; } }
  leaf y { type string { length "+1..+5"; } }
  leaf z { type decimal64 { fraction-digits 1; range "+1.5..+2"; } }
}`
	ms := NewModules()
	if err := ms.Parse(src, "m.yang"); err != nil {
		t.Fatalf("Parse: %v", err)
	}
	errs := ms.Process()
	if len(errs) != 3 {
		m, _ := ms.GetModule("m")
		t.Errorf("Process reports %d errors %v, want one for each of the three restrictions; x range %v, y length %v, z range %v",
			len(errs), errs, m.Dir["x"].Type.Range, m.Dir["y"].Type.Length, m.Dir["z"].Type.Range)
	}
}

package yang

import (
	"testing"
)

// A pattern with "modifier invert-match" (RFC 7950 9.4.6) is recorded in the
// resolved type exactly like an ordinary pattern: the modifier is dropped.
// Consequences, all on a valid YANG 1.1 module:
//   - typedef notlower (strings that do NOT match [a-z]+) resolves to a type
//     that is Equal to typedef lower (strings that DO match [a-z]+);
//   - a type derived from lower that adds the inverted pattern carries one
//     pattern instead of two (the "already seen" check is by regex text);
//   - union { type lower; type notlower; } loses its second member, because
//     the members compare Equal.
func TestInvertMatchPatternIsCarriedAsOrdinaryPattern(t *testing.T) {
	const src = `module a {
  yang-version 1.1;
  namespace "urn:a";
  prefix a;

  typedef lower    { type string { pattern "[a-z]+"; } }
  typedef notlower { type string { pattern "[a-z]+" { modifier invert-match; } } }

  leaf p  { type lower; }
  leaf n  { type notlower; }
  leaf d  { type lower { pattern "[a-z]+" { modifier invert-match; } } }
  leaf u  { type union { type lower; type notlower; } }
}`
	ms := NewModules()
	if err := ms.Parse(src, "a.yang"); err != nil {
		t.Fatalf("Parse: %v", err)
	}
	if errs := ms.Process(); len(errs) != 0 {
		t.Fatalf("Process: %v", errs)
	}
	e := ToEntry(ms.Modules["a"])
	p, n, d, u := e.Dir["p"].Type, e.Dir["n"].Type, e.Dir["d"].Type, e.Dir["u"].Type

	// 1. Two types with opposite value spaces must not be the same type.
	if p.Equal(n) {
		t.Errorf("leaf n (pattern %q with modifier invert-match) resolves to a type Equal to leaf p (pattern %q without): Pattern=%q vs %q; the modifier is lost",
			"[a-z]+", "[a-z]+", n.Pattern, p.Pattern)
	}
	// 2. Patterns accumulate along the chain: lower's pattern AND the
	// inverted one written at the use site.
	if len(d.Pattern) != 2 {
		t.Errorf("leaf d: derived type carries %d pattern(s) %q, want 2 (the inherited one and the inverted one of the use site)", len(d.Pattern), d.Pattern)
	}
	// 3. The union has two members with complementary value spaces.
	if len(u.Type) != 2 {
		var names []string
		for _, m := range u.Type {
			names = append(names, m.Name)
		}
		t.Errorf("leaf u: union { type lower; type notlower; } resolves to %d member(s) %v, want 2", len(u.Type), names)
	}
}

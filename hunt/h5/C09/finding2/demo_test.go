package yang

import (
	"testing"
)

// Union members are de-duplicated with YangType.Equal, which compares the text
// of a leafref path but not the module in whose prefix context the path was
// written.  Two leafref typedefs from two modules whose paths read the same
// but, because the prefix p is bound to different modules in the two places,
// point at different nodes, are taken for one and the same member: the second
// is dropped from the union.
func TestUnionDropsLeafrefMemberWithSamePathTextInOtherPrefixContext(t *testing.T) {
	srcs := []struct{ name, text string }{
		{"m1.yang", `module m1 { namespace "urn:m1"; prefix m1; container c { leaf x { type string; } } }`},
		{"m2.yang", `module m2 { namespace "urn:m2"; prefix m2; container c { leaf x { type int8; } } }`},
		{"b.yang", `module b {
  yang-version 1.1; namespace "urn:b"; prefix b;
  import m2 { prefix p; }
  typedef ref { type leafref { path "/p:c/p:x"; } }   // -> /m2:c/m2:x (int8)
}`},
		{"a.yang", `module a {
  yang-version 1.1; namespace "urn:a"; prefix a;
  import m1 { prefix p; }
  import b  { prefix b; }
  typedef ref { type leafref { path "/p:c/p:x"; } }   // -> /m1:c/m1:x (string)
  leaf one { type ref; }
  leaf two { type b:ref; }
  leaf l   { type union { type ref; type b:ref; } }
}`},
	}
	ms := NewModules()
	for _, s := range srcs {
		if err := ms.Parse(s.text, s.name); err != nil {
			t.Fatalf("Parse %s: %v", s.name, err)
		}
	}
	if errs := ms.Process(); len(errs) != 0 {
		t.Fatalf("Process: %v", errs)
	}
	e := ToEntry(ms.Modules["a"])

	// Sanity: taken one by one the two references bind lexically, to typedefs
	// of two different modules.
	one, two := e.Dir["one"].Type, e.Dir["two"].Type
	if m1, m2 := RootNode(one.Base).Name, RootNode(two.Base).Name; m1 != "a" || m2 != "b" {
		t.Fatalf("leaf one binds to a typedef of module %s, leaf two to one of module %s; want a and b", m1, m2)
	}

	u := e.Dir["l"].Type
	if len(u.Type) != 2 {
		var ms []string
		for _, m := range u.Type {
			ms = append(ms, RootNode(m.Base).Name+":"+m.Name+" path="+m.Path)
		}
		t.Errorf("union { type ref; type b:ref; } resolves to %d member(s) %v; want 2: a:ref (-> /m1:c/m1:x) and b:ref (-> /m2:c/m2:x)", len(u.Type), ms)
	}
}

package yang

import (
	"fmt"
	"strings"
	"testing"
)

// Two imports under one prefix (RFC 7950 7.1.5: "All prefixes, including the
// prefix for the module itself, MUST be unique within the module or
// submodule") are accepted.  A reference p:t then silently denotes the
// typedef of whichever module is imported FIRST, a typedef that only the
// second module has is "unknown", and swapping the two import statements
// changes the type of the leaf.
func TestTwoImportsUnderOnePrefix(t *testing.T) {
	const x = `module x { namespace "urn:x"; prefix x; typedef t { type string; units from-x; } }`
	const y = `module y { namespace "urn:y"; prefix y; typedef t { type int8; units from-y; } typedef only-y { type int16; } }`
	mod := func(first, second, leaves string) string {
		return fmt.Sprintf(`module a { namespace "urn:a"; prefix a;
  import %s { prefix p; }
  import %s { prefix p; }
  %s
}`, first, second, leaves)
	}
	load := func(a string) (*Modules, []error) {
		ms := NewModules()
		for _, src := range [][2]string{{"x.yang", x}, {"y.yang", y}, {"a.yang", a}} {
			if err := ms.Parse(src[1], src[0]); err != nil {
				return ms, []error{err}
			}
		}
		return ms, ms.Process()
	}

	// (1) p is ambiguous: the reference is not resolvable to "exactly the
	// module imported under that prefix" and must be reported.
	var got []string
	for _, order := range [][2]string{{"x", "y"}, {"y", "x"}} {
		ms, errs := load(mod(order[0], order[1], `leaf l { type p:t; }`))
		if len(errs) != 0 {
			got = append(got, "error")
			continue
		}
		ty := ToEntry(ms.Modules["a"]).Dir["l"].Type
		got = append(got, fmt.Sprintf("%s(units %s)", ty.Kind, ty.Units))
		t.Errorf("import %s {prefix p;} import %s {prefix p;}: no error; type p:t silently resolves to %s units=%s",
			order[0], order[1], ty.Kind, ty.Units)
	}
	if got[0] != got[1] {
		t.Errorf("the binding of p:t depends on the order of the import statements: %s vs %s", got[0], got[1])
	}

	// (2) the library itself shows that the second import is ignored: a
	// typedef that only y has is unknown under the prefix y is imported with,
	// and the message blames the type, not the prefix.
	_, errs := load(mod("x", "y", `leaf m { type p:only-y; }`))
	for _, err := range errs {
		if strings.Contains(err.Error(), "unknown type p:only-y") {
			t.Errorf("y is imported with prefix p and defines only-y, yet: %v", err)
		}
	}
}

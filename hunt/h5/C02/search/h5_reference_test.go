package yang

import (
	"fmt"
	"math/rand"
	"os"
	"strings"
	"testing"
	"unicode/utf8"
)

// ---------- independent reference reader ----------

type rTok struct {
	kind byte // 'u' unquoted, 's' string, ';', '{', '}'
	text string
	// for double quoted strings: raw text and the column of the quote
	dq   bool
	raw  string
	qcol int
}

type rStmt struct {
	kw     string
	hasArg bool
	arg    string
	subs   []*rStmt
}

var errOOS = fmt.Errorf("out of scope")

type rErr struct{ msg string }

func (e *rErr) Error() string { return e.msg }

func isWS(c byte) bool { return c == ' ' || c == '\t' || c == '\r' || c == '\n' }

// column (tab expanded, in characters) of byte offset off
func colOf(text string, off int) int {
	ls := strings.LastIndex(text[:off], "\n") + 1
	col := 0
	for _, r := range text[ls:off] {
		if r == '\t' {
			col = (col + 8) &^ 7
		} else {
			col++
		}
	}
	return col
}

func rTokenize(text string) ([]rTok, error) {
	var toks []rTok
	i := 0
	n := len(text)
	for i < n {
		c := text[i]
		switch {
		case isWS(c):
			i++
		case strings.HasPrefix(text[i:], "//"):
			j := strings.IndexByte(text[i:], '\n')
			if j < 0 {
				i = n
			} else {
				i += j + 1
			}
		case strings.HasPrefix(text[i:], "/*"):
			j := strings.Index(text[i+2:], "*/")
			if j < 0 {
				return nil, &rErr{"unterminated comment"}
			}
			i = i + 2 + j + 2
		case c == ';' || c == '{' || c == '}':
			toks = append(toks, rTok{kind: c})
			i++
		case c == '\'':
			j := strings.IndexByte(text[i+1:], '\'')
			if j < 0 {
				return nil, &rErr{"unterminated '"}
			}
			toks = append(toks, rTok{kind: 's', text: text[i+1 : i+1+j]})
			i = i + 1 + j + 1
		case c == '"':
			j := i + 1
			for {
				if j >= n {
					return nil, &rErr{"unterminated \""}
				}
				if text[j] == '\\' {
					j += 2
					continue
				}
				if text[j] == '"' {
					break
				}
				j++
			}
			if j >= n {
				return nil, &rErr{"unterminated \""}
			}
			toks = append(toks, rTok{kind: 's', dq: true, raw: text[i+1 : j], qcol: colOf(text, i)})
			i = j + 1
		default:
			j := i
			for j < n && !isWS(text[j]) && !strings.ContainsRune(";{}\"'", rune(text[j])) {
				j++
			}
			t := text[i:j]
			if strings.Contains(t, "//") || strings.Contains(t, "/*") {
				return nil, errOOS
			}
			toks = append(toks, rTok{kind: 'u', text: t})
			i = j
		}
	}
	return toks, nil
}

// dequote applies RFC 7950 6.1.3 to the raw text of a double quoted string.
func dequote(raw string, qcol int, pattern bool) (string, error) {
	lines := strings.Split(raw, "\n")
	var out strings.Builder
	for li, ln := range lines {
		if li > 0 {
			// strip leading blanks up to and including qcol
			col := 0
			k := 0
			for k < len(ln) && (ln[k] == ' ' || ln[k] == '\t') {
				if col > qcol {
					break
				}
				if ln[k] == ' ' {
					col++
				} else {
					nc := (col + 8) &^ 7
					if nc > qcol+1 {
						return "", errOOS // straddling tab
					}
					col = nc
				}
				k++
			}
			// col > qcol or non blank reached
			ln = ln[k:]
		}
		if li < len(lines)-1 {
			if strings.HasSuffix(ln, "\r") {
				return "", errOOS
			}
			// strip trailing literal blanks
			e := len(ln)
			for e > 0 && (ln[e-1] == ' ' || ln[e-1] == '\t') {
				e--
			}
			nb := 0
			for e-nb > 0 && ln[e-nb-1] == '\\' {
				nb++
			}
			if nb%2 == 1 && e < len(ln) {
				return "", errOOS // backslash blank linebreak
			}
			stripped := ln[:e]
			if e >= 2 && ln[e-1] == 't' {
				bb := 0
				for e-1-bb > 0 && ln[e-1-bb-1] == '\\' {
					bb++
				}
				if bb%2 == 1 && (e == len(ln) || os.Getenv("H5STRICT") == "") {
					return "", errOOS
				}
			}
			ln = stripped
		}
		out.WriteString(ln)
		if li < len(lines)-1 {
			out.WriteByte('\n')
		}
	}
	s := out.String()
	// now substitute escapes
	var res strings.Builder
	for i := 0; i < len(s); i++ {
		if s[i] != '\\' {
			res.WriteByte(s[i])
			continue
		}
		if i+1 >= len(s) {
			return "", &rErr{"dangling backslash"}
		}
		i++
		switch s[i] {
		case 'n':
			res.WriteByte('\n')
		case 't':
			res.WriteByte('\t')
		case '"':
			res.WriteByte('"')
		case '\\':
			res.WriteByte('\\')
		default:
			if !pattern {
				return "", &rErr{"bad escape"}
			}
			res.WriteByte('\\')
			res.WriteByte(s[i])
		}
	}
	return res.String(), nil
}

func rParse(text string) ([]*rStmt, error) {
	toks, err := rTokenize(text)
	if err != nil {
		return nil, err
	}
	pos := 0
	var oos bool
	var parseBlock func(top bool) ([]*rStmt, error)
	// iterative would be nicer; depth is small in tests
	parseBlock = func(top bool) ([]*rStmt, error) {
		var out []*rStmt
		for {
			if pos >= len(toks) {
				if top {
					return out, nil
				}
				return nil, &rErr{"missing }"}
			}
			t := toks[pos]
			if t.kind == '}' {
				if top {
					return nil, &rErr{"unexpected }"}
				}
				pos++
				return out, nil
			}
			if t.kind != 'u' {
				return nil, &rErr{"keyword expected"}
			}
			pos++
			st := &rStmt{kw: t.text}
			pat := t.text == "pattern"
			if pos < len(toks) && toks[pos].kind == 'u' {
				st.hasArg = true
				st.arg = toks[pos].text
				pos++
			} else if pos < len(toks) && toks[pos].kind == 's' {
				st.hasArg = true
				for {
					p := toks[pos]
					pos++
					if p.dq {
						v, err := dequote(p.raw, p.qcol, pat)
						if err == errOOS {
							oos = true
						} else if err != nil {
							return nil, err
						}
						st.arg += v
					} else {
						st.arg += p.text
					}
					if pos+1 < len(toks) && toks[pos].kind == 'u' && toks[pos].text == "+" && toks[pos+1].kind == 's' {
						pos++
						continue
					}
					break
				}
			}
			if pos >= len(toks) {
				return nil, &rErr{"EOF in statement"}
			}
			switch toks[pos].kind {
			case ';':
				pos++
			case '{':
				pos++
				subs, err := parseBlock(false)
				if err != nil {
					return nil, err
				}
				st.subs = subs
			default:
				return nil, &rErr{"expected ; or {"}
			}
			out = append(out, st)
		}
	}
	// every double quoted string must be well formed even in a rejected text; irrelevant
	res, err := parseBlock(true)
	if oos {
		return nil, errOOS
	}
	// a text that is rejected for syntax may also hold a bad escape: either way rejected
	if err != nil {
		return nil, err
	}
	return res, nil
}

func sameForest(a []*rStmt, b []*Statement) string {
	if len(a) != len(b) {
		return fmt.Sprintf("len %d vs %d", len(a), len(b))
	}
	for i := range a {
		if a[i].kw != b[i].Keyword {
			return fmt.Sprintf("kw %q vs %q", a[i].kw, b[i].Keyword)
		}
		arg, has := b[i].Arg()
		if a[i].hasArg != has || a[i].arg != arg {
			return fmt.Sprintf("arg of %s: %v %q vs %v %q", a[i].kw, a[i].hasArg, a[i].arg, has, arg)
		}
		if d := sameForest(a[i].subs, b[i].SubStatements()); d != "" {
			return d
		}
	}
	return ""
}

// check returns a description of a disagreement, or ""
func check(text string) string {
	if !utf8.ValidString(text) {
		return ""
	}
	ref, rerr := rParse(text)
	if rerr == errOOS {
		return ""
	}
	got, gerr := Parse(text, "t")
	if rerr != nil {
		if gerr == nil {
			return fmt.Sprintf("ACCEPTED ill-formed (%v): lib=%s", rerr, dump(got))
		}
		if got != nil {
			return "statements returned on rejection"
		}
		if gerr.Error() == "" {
			return "empty error"
		}
		return ""
	}
	if gerr != nil {
		return fmt.Sprintf("REJECTED well-formed: %v", gerr)
	}
	if d := sameForest(ref, got); d != "" {
		return "DIFF " + d
	}
	return ""
}

func dump(ss []*Statement) string {
	var b strings.Builder
	for _, s := range ss {
		fmt.Fprintf(&b, "%s", s.Keyword)
		if s.HasArgument {
			fmt.Fprintf(&b, " %q", s.Argument)
		}
		if len(s.statements) > 0 {
			b.WriteString("{" + dump(s.statements) + "}")
		} else {
			b.WriteString(";")
		}
	}
	return b.String()
}

func TestH5Enum(t *testing.T) {
	alpha := []string{"a", " ", "\n", "\t", "\"", "'", ";", "{", "}", "+", "\\", "n", "/", "*", "pattern", "é", "\r", "t"}
	maxLen := 5
	if os.Getenv("H5LEN") != "" {
		fmt.Sscan(os.Getenv("H5LEN"), &maxLen)
	}
	seen := map[string]bool{}
	count := 0
	var rec func(prefix string, depth int)
	rec = func(prefix string, depth int) {
		if d := check(prefix); d != "" {
			key := d
			if len(key) > 40 {
				key = key[:40]
			}
			if !seen[key] || count < 30 {
				seen[key] = true
				count++
				t.Errorf("%q: %s", prefix, d)
			}
		}
		if depth == maxLen {
			return
		}
		for _, a := range alpha {
			rec(prefix+a, depth+1)
		}
	}
	rec("", 0)
}

func TestH5Rand(t *testing.T) {
	pieces := []string{"a", "b ", " ", "  ", "\n", "\t", "\"", "\"", "'", ";", "{", "}", "+", " + ", "\\", "\\n", "\\t", "\\\"", "\\\\", "\\d", "n", "/", "*", "//", "/*", "*/", "pattern ", "é", "\r\n", "\r", "x:pattern ", "\n   ", "\n\t", "日本"}
	seed := int64(1)
	if os.Getenv("H5SEED") != "" {
		fmt.Sscan(os.Getenv("H5SEED"), &seed)
	}
	rng := rand.New(rand.NewSource(seed))
	N := 3000000
	if os.Getenv("H5N") != "" {
		fmt.Sscan(os.Getenv("H5N"), &N)
	}
	count := 0
	for i := 0; i < N; i++ {
		n := 1 + rng.Intn(14)
		var b strings.Builder
		for j := 0; j < n; j++ {
			b.WriteString(pieces[rng.Intn(len(pieces))])
		}
		s := b.String()
		if d := check(s); d != "" {
			count++
			if count < 40 {
				t.Errorf("%q: %s", s, d)
			}
		}
	}
}

// grammar directed generation
func genStmt(rng *rand.Rand, depth int, b *strings.Builder) {
	sep := func(must bool) {
		opts := []string{" ", "\n", "\t", "  ", "\n    ", " /* c */ ", " // c\n", "\r\n", " /**/", " /*/*/"}
		if !must && rng.Intn(3) == 0 {
			return
		}
		k := 1 + rng.Intn(2)
		for i := 0; i < k; i++ {
			b.WriteString(opts[rng.Intn(len(opts))])
		}
	}
	kws := []string{"a", "pattern", "x:pattern", "+", "leaf", "é", "a+b", "/", "*", "-", "\\", "a\\b"}
	kw := kws[rng.Intn(len(kws))]
	b.WriteString(kw)
	switch rng.Intn(4) {
	case 0:
		// no arg
		sep(false)
	case 1:
		sep(true)
		ua := []string{"b", "+", "c/d", "\\n", "a+b", "é日", "1..2", "*", "a\\", "pattern"}
		b.WriteString(ua[rng.Intn(len(ua))])
		sep(false)
	default:
		sep(rng.Intn(2) == 0)
		np := 1 + rng.Intn(3)
		for p := 0; p < np; p++ {
			if p > 0 {
				sep(false)
				b.WriteString("+")
				sep(false)
			}
			if rng.Intn(3) == 0 {
				b.WriteString("'")
				sq := []string{"a", "\\", "\"", "\n", "  ", "\t", "//", "/*", "+", ";", "{", "}", "\\n", "é"}
				for k := rng.Intn(5); k > 0; k-- {
					b.WriteString(sq[rng.Intn(len(sq))])
				}
				b.WriteString("'")
			} else {
				b.WriteString("\"")
				dq := []string{"a", "\\\\", "\\\"", "\n", " ", "  ", "\t", "//", "/*", "+", ";", "{", "}", "\\n", "\\t", "é", "'", "\n      ", "\n\t", "\n \t", " \n", "日", "*/"}
				if kw == "pattern" {
					dq = append(dq, "\\d", "\\.", "\\ ", "\\é", "\\\n", "\\'")
				}
				if rng.Intn(40) == 0 {
					dq = append(dq, "\\d")
				}
				for k := rng.Intn(7); k > 0; k-- {
					b.WriteString(dq[rng.Intn(len(dq))])
				}
				b.WriteString("\"")
			}
		}
		sep(false)
	}
	if depth > 0 && rng.Intn(3) == 0 {
		b.WriteString("{")
		sep(false)
		for k := rng.Intn(3); k > 0; k-- {
			genStmt(rng, depth-1, b)
			sep(false)
		}
		b.WriteString("}")
	} else {
		b.WriteString(";")
	}
}

func TestH5Gram(t *testing.T) {
	seed := int64(7)
	if os.Getenv("H5SEED") != "" {
		fmt.Sscan(os.Getenv("H5SEED"), &seed)
	}
	rng := rand.New(rand.NewSource(seed))
	N := 2000000
	if os.Getenv("H5N") != "" {
		fmt.Sscan(os.Getenv("H5N"), &N)
	}
	count, oos, acc := 0, 0, 0
	for i := 0; i < N; i++ {
		var b strings.Builder
		pre := []string{"", " ", "\t", "  ", "\n", "é ", "\t ", "/* x */"}
		b.WriteString(pre[rng.Intn(len(pre))])
		for k := 1 + rng.Intn(2); k > 0; k-- {
			genStmt(rng, 2, &b)
			if rng.Intn(2) == 0 {
				b.WriteString(" ")
			}
		}
		s := b.String()
		// mutate sometimes
		if rng.Intn(5) == 0 && len(s) > 0 {
			p := rng.Intn(len(s))
			s = s[:p] + s[p+1:]
		}
		if _, e := rParse(s); e == errOOS {
			oos++
		} else if e == nil {
			acc++
		}
		if d := check(s); d != "" {
			count++
			if count < 40 {
				t.Errorf("%q: %s", s, d)
			}
		}
	}
	t.Logf("N=%d oos=%d accepted=%d", N, oos, acc)
}

func enumAll(alpha []string, maxLen int, f func(string)) {
	var rec func(p string, d int)
	rec = func(p string, d int) {
		f(p)
		if d == maxLen {
			return
		}
		for _, a := range alpha {
			rec(p+a, d+1)
		}
	}
	rec("", 0)
}

func TestH5Indent(t *testing.T) {
	cnt := 0
	enumAll([]string{" ", "\t", "é", "/**/", "'\n'", "''"}, 4, func(pre string) {
		enumAll([]string{" ", "\t", "\n", "x", "\\t"}, 6, func(body string) {
			s := pre + "a \"x\n" + body + "y\";"
			if d := check(s); d != "" {
				cnt++
				if cnt < 20 {
					t.Errorf("%q: %s", s, d)
				}
			}
		})
	})
}

func TestH5Pattern(t *testing.T) {
	cnt := 0
	for _, pre := range []string{"pattern ", "pattern", "x{pattern", "a:pattern ", "pattern 'z'+", "b \"q\" + ", "b;pattern\n", "pattern a{c ", "pattern{c"} {
		enumAll([]string{"\"", "\\", "n", "d", " ", "\n", "+", "'", ";", "\t", "{", "}"}, 6, func(body string) {
			s := pre + body
			if d := check(s); d != "" {
				cnt++
				if cnt < 20 {
					t.Errorf("%q: %s", s, d)
				}
			}
		})
	}
}

func TestH5Tok(t *testing.T) {
	seed := int64(5)
	if os.Getenv("H5SEED") != "" {
		fmt.Sscan(os.Getenv("H5SEED"), &seed)
	}
	rng := rand.New(rand.NewSource(seed))
	N := 3000000
	if os.Getenv("H5N") != "" {
		fmt.Sscan(os.Getenv("H5N"), &N)
	}
	unq := []string{"a", "b", "+", "+", "pattern", "pattern", "++", "a+", "+a", "/", "*", "x:pattern", "é", "\\", "\\n", "-", "*/", "a/b", "patterns", "\\d", "\ufeff", "\u00a0", "\v", "\f"}
	strs := []string{`""`, `"+"`, `'+'`, `"a"`, `'a'`, `"\d"`, `"\n"`, "\"a\n  b\"", `" "`, "\"a \n b\"", `'"'`, `"'"`, `"\""`, `"\\"`, `";"`, `"{"`, `'}'`, `"//"`, `'/*'`, `"*/"`, `'\d'`, "'\n'", `''`, `"\\d"`, `"\t"`, "\"\t\"", "\"\n\t\tx\"", `"pattern"`, `"\q"`, "\"\\\n\"", `"\ "`, "\"é\n é\"", "\"\n\"", "\" \n\"", "\"a\\n \n\""}
	punct := []string{";", ";", "{", "}"}
	seps := []string{"", "", " ", " ", "\n", "\t", " /*c*/ ", " //c\n", "\r\n", "\n    ", "\n\t", "  ", " /*/*/ ", " /***/ ", " //\n"}
	pick := func(l []string) string { return l[rng.Intn(len(l))] }
	var genS func(d int) []string
	genS = func(d int) []string {
		var out []string
		out = append(out, pick(unq))
		switch rng.Intn(4) {
		case 0:
		case 1:
			out = append(out, pick(unq))
		default:
			out = append(out, pick(strs))
			for rng.Intn(2) == 0 {
				out = append(out, "+", pick(strs))
			}
		}
		if d > 0 && rng.Intn(3) == 0 {
			out = append(out, "{")
			for k := rng.Intn(3); k > 0; k-- {
				out = append(out, genS(d-1)...)
			}
			out = append(out, "}")
		} else {
			out = append(out, ";")
		}
		return out
	}
	any := func() string {
		switch rng.Intn(3) {
		case 0:
			return pick(unq)
		case 1:
			return pick(strs)
		}
		return pick(punct)
	}
	cnt, acc, oos := 0, 0, 0
	for i := 0; i < N; i++ {
		var toks []string
		if rng.Intn(4) == 0 {
			for k := 1 + rng.Intn(8); k > 0; k-- {
				toks = append(toks, any())
			}
		} else {
			for k := 1 + rng.Intn(2); k > 0; k-- {
				toks = append(toks, genS(2)...)
			}
			for m := rng.Intn(3); m > 0 && len(toks) > 0; m-- {
				p := rng.Intn(len(toks))
				switch rng.Intn(4) {
				case 0:
					toks = append(toks[:p], toks[p+1:]...)
				case 1:
					toks = append(toks[:p], append([]string{any()}, toks[p:]...)...)
				case 2:
					toks[p] = any()
				case 3:
					q := rng.Intn(len(toks))
					toks[p], toks[q] = toks[q], toks[p]
				}
			}
		}
		var b strings.Builder
		b.WriteString(pick(seps))
		for _, tk := range toks {
			b.WriteString(tk)
			b.WriteString(pick(seps))
		}
		s := b.String()
		if _, e := rParse(s); e == errOOS {
			oos++
		} else if e == nil {
			acc++
		}
		if d := check(s); d != "" {
			cnt++
			if cnt < 30 {
				t.Errorf("%q: %s", s, d)
			}
		}
	}
	t.Logf("N=%d oos=%d accepted=%d", N, oos, acc)
}

func TestH5Indent2(t *testing.T) {
	cnt := 0
	enumAll([]string{" ", "\t", "/*\t*/", "'\n\t'", "/*é\n \t*/", "\"\n\t\"+", "\"\n  \\t\" +", "'\t'+", "/*\r*/", "日"}, 3, func(pre string) {
		enumAll([]string{" ", "\t", "\n", "x"}, 6, func(body string) {
			s := "a " + pre + "\"x\n" + body + "y\";"
			if d := check(s); d != "" {
				cnt++
				if cnt < 20 {
					t.Errorf("%q: %s", s, d)
				}
			}
		})
	})
}

func TestH5Many(t *testing.T) {
	for n := 1; n < 30; n++ {
		for _, unit := range []string{`\q`, `\%`, `\%d`, "\\\n", `a "\q";`, `"`, `'`, `}`, `{`, `;`, `a "\q" + "\q" `, `a "x" + `, `/*`, `a b c;`, `"a" `, `+ `} {
			for _, wrap := range [][2]string{{`a "`, `";`}, {"", ""}, {"a {", "}"}, {`pattern "\d`, `";`}, {`a "b" + '`, `';`}} {
				s := wrap[0] + strings.Repeat(unit, n) + wrap[1]
				if d := check(s); d != "" {
					t.Errorf("%q: %s", s, d)
				}
				st, err := Parse(s, "")
				if err != nil && (st != nil || strings.TrimSpace(err.Error()) == "") {
					t.Errorf("%q: %v %v", s, st, err)
				}
			}
		}
	}
	for _, s := range []string{"\ufeffa b;", "a\u00a0b;", "a\u2028b c;", "a \"\u2028  b\";", "a\x00b;", "a \"\x00\";", "a '\x00';"} {
		st, err := Parse(s, "")
		t.Logf("%q -> %s %v", s, dump(st), err)
	}
}

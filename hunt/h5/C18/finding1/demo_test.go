package yang

import (
	"fmt"
	"os"
	"path/filepath"
	"strings"
	"testing"
)

// Process twice must give the same errors (and links) as Process once.
//
// zz is loaded explicitly; it imports aa (which is on the search path and is
// fetched by Process) and then q (which exists nowhere).  aa in turn imports
// w, which exists nowhere either.
//
// Run 1: the only root of the linking pass is zz.  Linking zz descends into aa,
// fails on w, and gives up on zz at that point: the import of q is never
// looked at.  Errors: [no such module: w].
//
// Run 2: aa has meanwhile become a member of the set, so it is a root of its
// own.  It is linked first (it sorts before zz), fails on w and is marked as
// visited; when zz is linked afterwards, its import of aa succeeds silently
// (already visited), zz->aa is linked, and linking goes on to q.
// Errors: [no such module: q, no such module: w].
func TestProcessTwiceDiffersAfterImplicitLoad(t *testing.T) {
	dir := t.TempDir()
	cwd := t.TempDir() // an empty current directory: "." is always searched
	old, err := os.Getwd()
	if err != nil {
		t.Fatal(err)
	}
	if err := os.Chdir(cwd); err != nil {
		t.Fatal(err)
	}
	defer os.Chdir(old)

	aa := `module aa { namespace "urn:aa"; prefix a; import w { prefix w; } }`
	if err := os.WriteFile(filepath.Join(dir, "aa.yang"), []byte(aa), 0o644); err != nil {
		t.Fatal(err)
	}
	zz := `module zz { namespace "urn:zz"; prefix z; import aa { prefix a; } import q { prefix q; } }`

	ms := NewModules()
	ms.AddPath(dir)
	if err := ms.Parse(zz, "zz.yang"); err != nil {
		t.Fatal(err)
	}

	show := func(errs []error) string {
		var s []string
		for _, e := range errs {
			s = append(s, e.Error())
		}
		return "[" + strings.Join(s, "; ") + "]"
	}
	link := func() string {
		i := ms.Modules["zz"].Import[0]
		if i.Module == nil {
			return "zz->aa: not linked"
		}
		return fmt.Sprintf("zz->aa: linked to %s", i.Module.Name)
	}

	once := show(ms.Process())
	linkOnce := link()
	twice := show(ms.Process())
	linkTwice := link()
	thrice := show(ms.Process())

	t.Logf("run 1: %s  %s", once, linkOnce)
	t.Logf("run 2: %s  %s", twice, linkTwice)
	t.Logf("run 3: %s", thrice)
	if once != twice {
		t.Errorf("Process twice reports other errors than Process once:\n  once : %s\n  twice: %s", once, twice)
	}
	if linkOnce != linkTwice {
		t.Errorf("Process twice leaves other links than Process once: %q vs %q", linkOnce, linkTwice)
	}
}

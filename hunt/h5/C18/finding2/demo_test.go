package yang

import (
	"fmt"
	"os"
	"path/filepath"
	"sort"
	"strings"
	"testing"
)

// Loading more modules after a processing run and processing again must give
// the same result as loading everything into a fresh set first.
//
// x imports b without a revision-date.  The search path holds b@2021-01-01.
// The caller's own text of b is the revision 2019-01-01.
//
//   incremental: Parse(x); Process(); Parse(b@2019); Process()
//   batch      : Parse(x); Parse(b@2019); Process()
//
// The first run of the incremental sequence fetches b@2021-01-01 from the
// search path.  It stays in the set for good: after b@2019-01-01 has been
// loaded, the second run links x to the fetched revision (the newest), types
// /x/v as string, applies the augment of the fetched revision and reports the
// node both revisions add as a duplicate.  The batch run never looks at the
// search path: x is linked to b@2019-01-01, /x/v is an int8, and there are no
// errors.
func TestIncrementalDiffersFromBatchAfterImplicitLoad(t *testing.T) {
	dir := t.TempDir()
	cwd := t.TempDir() // an empty current directory: "." is always searched
	old, err := os.Getwd()
	if err != nil {
		t.Fatal(err)
	}
	if err := os.Chdir(cwd); err != nil {
		t.Fatal(err)
	}
	defer os.Chdir(old)

	b21 := `module b { namespace "urn:b"; prefix b; import x { prefix x; } revision 2021-01-01;
  typedef t { type string; }
  augment "/x:c" { leaf added { type string; } } }`
	if err := os.WriteFile(filepath.Join(dir, "b@2021-01-01.yang"), []byte(b21), 0o644); err != nil {
		t.Fatal(err)
	}
	b19 := `module b { namespace "urn:b"; prefix b; import x { prefix x; } revision 2019-01-01;
  typedef t { type int8; }
  augment "/x:c" { leaf added { type int8; } } }`
	x := `module x { namespace "urn:x"; prefix x; import b { prefix b; }
  leaf v { type b:t; }
  container c { } }`

	type result struct {
		loaded, link, vtype, errs string
	}
	observe := func(ms *Modules, errs []error) result {
		var r result
		var keys []string
		for k := range ms.Modules {
			keys = append(keys, k)
		}
		sort.Strings(keys)
		r.loaded = strings.Join(keys, " ")
		if m := ms.Modules["x"].Import[0].Module; m != nil {
			r.link = m.FullName()
		}
		if v := ToEntry(ms.Modules["x"]).Dir["v"]; v != nil && v.Type != nil {
			r.vtype = v.Type.Kind.String()
		}
		var es []string
		for _, e := range errs {
			es = append(es, strings.ReplaceAll(e.Error(), dir, "DIR"))
		}
		r.errs = fmt.Sprintf("%q", es)
		return r
	}
	load := func(ms *Modules, text, name string) {
		if err := ms.Parse(text, name); err != nil {
			t.Fatal(err)
		}
	}

	inc := NewModules()
	inc.AddPath(dir)
	load(inc, x, "x.yang")
	if errs := inc.Process(); len(errs) != 0 {
		t.Fatalf("first run: %v", errs)
	}
	load(inc, b19, "b19.yang")
	incr := observe(inc, inc.Process())

	bat := NewModules()
	bat.AddPath(dir)
	load(bat, x, "x.yang")
	load(bat, b19, "b19.yang")
	batch := observe(bat, bat.Process())

	t.Logf("incremental: %+v", incr)
	t.Logf("batch      : %+v", batch)
	if incr != batch {
		t.Errorf("incremental loading differs from the batch run:\n  incremental: %+v\n  batch      : %+v", incr, batch)
	}
}

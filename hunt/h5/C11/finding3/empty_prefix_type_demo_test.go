package yang

import "testing"

func TestZZEmptyPrefixType(t *testing.T) {
	ms := NewModules()
	if err := ms.Parse(`module a { namespace "urn:a"; prefix a; typedef t { type string; } leaf l { type ":t"; } }`, "a.yang"); err != nil {
		t.Fatal(err)
	}
	if errs := ms.Process(); len(errs) == 0 {
		t.Fatal("type \":t\" accepted")
	} else {
		t.Log(errs)
	}
}

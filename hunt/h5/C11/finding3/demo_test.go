package yang

import "testing"

// The argument of base is an identifier-ref: [prefix ":"] identifier, where a
// prefix is an identifier and so has at least one character (RFC 7950 14).
// ":ok" names no identity under any prefix the module declares, yet the
// library takes the empty string in front of the colon for "no prefix" and
// resolves it to the local identity ok, both for identity bases and for
// identityref bases.  ("a:" - empty name - and "zz:ok" - unknown prefix - are
// reported, as they should be.)
func TestH5C11BaseWithEmptyPrefix(t *testing.T) {
	for _, body := range []string{
		`identity d { base ":ok"; }`,
		`leaf l { type identityref { base ":ok"; } }`,
		`typedef t { type identityref { base ":ok"; } }`,
	} {
		ms := NewModules()
		src := `module a { namespace "urn:a"; prefix a; identity ok; ` + body + ` }`
		if err := ms.Parse(src, "a.yang"); err != nil {
			continue // reported
		}
		if errs := ms.Process(); len(errs) != 0 {
			continue // reported
		}
		var got []string
		for _, i := range ToEntry(ms.Modules["a"]).Identities {
			if i.Name == "ok" {
				for _, v := range i.Values {
					got = append(got, v.Name)
				}
			}
		}
		t.Errorf("%s: the base \":ok\" is not a reference to any identity (empty prefix) and no error is reported; identity ok now lists %v", body, got)
	}
}

package yang

import (
	"strings"
	"testing"
)

// A type statement that names a typedef of an identityref and carries a base
// statement of its own.  RFC 7950 9.10.1: "An identityref cannot be
// restricted", so the honest outcomes are (a) an error, or (b) the type points
// at the identity its base statement names.  The library does neither on a
// leaf: the base statement is dropped without a word, even when it names an
// identity that does not exist; on a typedef the same type statement is
// honoured (the base is replaced), so the same type expression means two
// different things.
func TestH5C11IdentityrefBaseOnDerivedType(t *testing.T) {
	load := func(body string) (*Modules, []error) {
		ms := NewModules()
		src := `module a { yang-version 1.1; namespace "urn:a"; prefix a;
			identity x; identity y;
			identity dx { base x; }
			identity dy { base y; }
			typedef r { type identityref { base x; } }
			` + body + ` }`
		if err := ms.Parse(src, "a.yang"); err != nil {
			return ms, []error{err}
		}
		return ms, ms.Process()
	}
	names := func(i *Identity) string {
		if i == nil {
			return "<nil>"
		}
		var s []string
		for _, v := range i.Values {
			s = append(s, v.Name)
		}
		return i.Name + "[" + strings.Join(s, " ") + "]"
	}

	// 1. An undefined base must be reported.
	if _, errs := load(`leaf l { type r { base nope; } }`); len(errs) == 0 {
		t.Errorf("leaf l { type r { base nope; } }: the base nope is not defined anywhere and Process reported no error")
	}

	// 2. A defined base: either an error, or the type points at that base;
	// and the same type expression must mean the same inline and via a typedef.
	ms, errs := load(`
		leaf l1 { type r { base y; } }
		typedef r2 { type r { base y; } }
		leaf l2 { type r2; }`)
	if len(errs) != 0 {
		t.Logf("reported (acceptable): %v", errs)
		return
	}
	e := ToEntry(ms.Modules["a"])
	b1, b2 := e.Dir["l1"].Type.IdentityBase, e.Dir["l2"].Type.IdentityBase
	if b1 == nil || b1.Name != "y" {
		t.Errorf("leaf l1 { type r { base y; } }: no error, and the type points at %s, not at the identity y its base statement names", names(b1))
	}
	if b1 != b2 {
		t.Errorf("type r { base y; } points at %s on the leaf l1 but at %s through typedef r2 { type r { base y; } }", names(b1), names(b2))
	}
}

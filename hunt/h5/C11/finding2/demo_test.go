package yang

import "testing"

// RFC 7950 9.10.2: "The 'base' statement, which is a substatement to the
// 'type' statement, MUST be present at least once if the type is
// 'identityref'. ... If multiple 'base' statements are specified, a valid
// instance value ... MUST be derived from all the specified base identities."
// An identityref with two base statements is therefore legal YANG 1.1, just as
// an identity with two base statements is.  The library accepts the latter and
// refuses the former while the module is being built.
func TestH5C11IdentityrefWithTwoBases(t *testing.T) {
	src := `module a { yang-version 1.1; namespace "urn:a"; prefix a;
		identity x;
		identity y;
		identity both { base x; base y; }
		identity only-x { base x; }
		leaf l { type identityref { base x; base y; } }
	}`
	ms := NewModules()
	if err := ms.Parse(src, "a.yang"); err != nil {
		t.Fatalf("a legal YANG 1.1 module is refused: %v", err)
	}
	if errs := ms.Process(); len(errs) != 0 {
		t.Fatalf("Process: %v", errs)
	}
	ty := ToEntry(ms.Modules["a"]).Dir["l"].Type
	if ty == nil || ty.Kind != Yidentityref || ty.IdentityBase == nil {
		t.Fatalf("leaf l: identityref without a resolved base: %+v", ty)
	}
}

package yang

import (
	"fmt"
	"sort"
	"strings"
	"testing"
)

// FindGrouping hands a name that still carries a foreign prefix on to the
// submodules the file includes, and there the prefix is interpreted with the
// prefix table of the submodule (its imports, its belongs-to prefix).  A uses
// statement whose prefix does not lead to the grouping in its own file is so
// bound to a grouping of a module that the file never imported.
func TestUsesPrefixResolvedWithPrefixesOfIncludedSubmodule(t *testing.T) {
	process := func(t *testing.T, srcs ...string) (*Modules, []error) {
		t.Helper()
		ms := NewModules()
		for i, s := range srcs {
			if err := ms.Parse(s, fmt.Sprintf("src%d.yang", i)); err != nil {
				t.Fatalf("Parse: %v", err)
			}
		}
		return ms, ms.Process()
	}
	children := func(ms *Modules, mod, c string) string {
		var names []string
		if e := ToEntry(ms.Modules[mod]).Dir[c]; e != nil {
			for k, v := range e.Dir {
				names = append(names, k+"("+v.Node.Statement().Location()+")")
			}
		}
		sort.Strings(names)
		return strings.Join(names, " ")
	}

	t.Run("prefix declared only by an included submodule", func(t *testing.T) {
		// Module a does not import y; "p" is not a prefix of module a.
		ms, errs := process(t,
			`module a { namespace "urn:a"; prefix a;
  include s;
  container c { uses p:g; }
}`,
			`submodule s { belongs-to a { prefix a; } import y { prefix p; } }`,
			`module y { namespace "urn:y"; prefix y; grouping g { leaf from-y { type string; } } }`)
		if len(errs) == 0 {
			t.Errorf("Process accepted 'uses p:g' in module a, which declares no prefix p; /a:c received: %s", children(ms, "a", "c"))
		}
	})

	t.Run("prefix declared differently by module and submodule", func(t *testing.T) {
		// In module a, p is module x, which has no grouping g (any more):
		// the uses must be reported.  In submodule s, p is module y.
		ms, errs := process(t,
			`module a { namespace "urn:a"; prefix a;
  import x { prefix p; }
  include s;
  container c { uses p:g; }
}`,
			`submodule s { belongs-to a { prefix a; } import y { prefix p; } }`,
			`module x { namespace "urn:x"; prefix x; grouping other { leaf from-x { type string; } } }`,
			`module y { namespace "urn:y"; prefix y; grouping g { leaf from-y { type string; } } }`)
		if len(errs) == 0 {
			t.Errorf("Process accepted 'uses p:g' in module a (p = x, x has no g); /a:c received: %s", children(ms, "a", "c"))
		}
	})

	t.Run("prefix is the belongs-to prefix of an included submodule", func(t *testing.T) {
		// In module a, p is module x (no grouping g).  Submodule s calls
		// module a "p" and defines a grouping g.
		ms, errs := process(t,
			`module a { namespace "urn:a"; prefix a;
  import x { prefix p; }
  include s;
  container c { uses p:g; }
}`,
			`submodule s { belongs-to a { prefix p; } grouping g { leaf from-s { type string; } } }`,
			`module x { namespace "urn:x"; prefix x; grouping other { leaf from-x { type string; } } }`)
		if len(errs) == 0 {
			t.Errorf("Process accepted 'uses p:g' in module a (p = x, x has no g); /a:c received: %s", children(ms, "a", "c"))
		}
	})

	t.Run("prefix chain through the imports of an imported module", func(t *testing.T) {
		// Module a imports only b.  "b:cc:h" is no identifier reference at
		// all; it is taken apart twice and leads to module c, which b
		// imports as cc and a does not import.
		ms, errs := process(t,
			`module a { namespace "urn:a"; prefix a;
  import b { prefix b; }
  container c { uses b:cc:h; }
}`,
			`module b { namespace "urn:b"; prefix bp; import c { prefix cc; } }`,
			`module c { namespace "urn:c"; prefix c; grouping h { leaf from-c { type string; } } }`)
		if len(errs) == 0 {
			t.Errorf("Process accepted 'uses b:cc:h' in module a; /a:c received: %s", children(ms, "a", "c"))
		}
	})

	t.Run("control: a type with the same prefix is refused", func(t *testing.T) {
		_, errs := process(t,
			`module a { namespace "urn:a"; prefix a;
  include s;
  container c { leaf l { type p:t; } }
}`,
			`submodule s { belongs-to a { prefix a; } import y { prefix p; } }`,
			`module y { namespace "urn:y"; prefix y; typedef t { type string; } }`)
		if len(errs) == 0 {
			t.Errorf("control: Process accepted 'type p:t' in module a")
		} else {
			t.Logf("control: type p:t is refused, as it should be: %v", errs)
		}
	})
}

package yang

import (
	"fmt"
	"testing"
)

// A uses statement may carry extension statements.  The library hands them on
// to every node the grouping contributes (Entry.Exts of the copies), next to
// the extensions the grouping's own text puts on those nodes.
//
// MatchingEntryExtensions resolves the prefix of every statement in
// Entry.Exts in the module of Entry.Node.  For a copy of a grouping node that
// is the module that DEFINES the grouping, so an extension written on the
// uses statement - in the using module, with the using module's prefixes - is
// looked up with the prefix table of the wrong module.
func TestUsesExtensionResolvedInDefiningModule(t *testing.T) {
	load := func(t *testing.T, srcs ...string) *Modules {
		t.Helper()
		ms := NewModules()
		for i, s := range srcs {
			if err := ms.Parse(s, fmt.Sprintf("src%d.yang", i)); err != nil {
				t.Fatalf("Parse: %v", err)
			}
		}
		if errs := ms.Process(); len(errs) != 0 {
			t.Fatalf("Process: %v", errs)
		}
		return ms
	}
	args := func(ss []*Statement) []string {
		out := []string{}
		for _, s := range ss {
			out = append(out, s.Argument)
		}
		return out
	}

	const (
		ext1 = `module ext1 { namespace "urn:ext1"; prefix e1; extension mark { argument a; } }`
		ext2 = `module ext2 { namespace "urn:ext2"; prefix e2; extension mark { argument a; } }`
		a    = `module a { namespace "urn:a"; prefix a;
  import b    { prefix b; }
  import ext2 { prefix e; }          // in module a, "e" is ext2
  container c { uses b:g { e:mark "written-in-a"; } }
  container d { leaf y { type string; e:mark "written-in-a"; } }
}`
	)

	t.Run("same prefix, other module", func(t *testing.T) {
		// In module b, "e" is ext1.
		ms := load(t, ext1, ext2, a, `module b { namespace "urn:b"; prefix b;
  import ext1 { prefix e; }
  grouping g { leaf x { type string; e:mark "written-in-b"; } }
}`)
		root := ToEntry(ms.Modules["a"])
		x := root.Dir["c"].Dir["x"] // copy of b:g/x, carries both statements
		y := root.Dir["d"].Dir["y"] // control: written in a directly

		if got, err := MatchingEntryExtensions(y, "ext2", "mark"); err != nil || fmt.Sprint(args(got)) != "[written-in-a]" {
			t.Fatalf("control /a:d/y: ext2:mark = %v, %v", args(got), err)
		}
		got2, err2 := MatchingEntryExtensions(x, "ext2", "mark")
		got1, err1 := MatchingEntryExtensions(x, "ext1", "mark")
		if err1 != nil || err2 != nil {
			t.Fatalf("unexpected errors: %v, %v", err1, err2)
		}
		if fmt.Sprint(args(got2)) != "[written-in-a]" {
			t.Errorf("/a:c/x: statements of ext2:mark = %v, want [written-in-a] (e:mark on the uses in module a, where e is ext2)", args(got2))
		}
		if fmt.Sprint(args(got1)) != "[written-in-b]" {
			t.Errorf("/a:c/x: statements of ext1:mark = %v, want [written-in-b] (only the one the grouping's text carries)", args(got1))
		}
	})

	t.Run("prefix unknown to the defining module", func(t *testing.T) {
		// Module b imports nothing: it has no prefix "e" at all.
		ms := load(t, ext1, ext2, a, `module b { namespace "urn:b"; prefix b;
  grouping g { leaf x { type string; } }
}`)
		x := ToEntry(ms.Modules["a"]).Dir["c"].Dir["x"]
		got, err := MatchingEntryExtensions(x, "ext2", "mark")
		if err != nil || fmt.Sprint(args(got)) != "[written-in-a]" {
			t.Errorf("/a:c/x: ext2:mark = %v, err = %v; want [written-in-a], nil", args(got), err)
		}
	})
}

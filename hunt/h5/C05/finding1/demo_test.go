package yang

import (
	"fmt"
	"io/ioutil"
	"os"
	"path/filepath"
	"strings"
	"testing"
)

// TestGetModuleErrorListFollowsLoadOrder loads the same three sources with
// GetModule in two orders.  Two of the sources are rejected when they are
// read.  The property demands the same error list for both orders, ordered by
// file, line and column; GetModule returns the errors in the order in which
// the sources were named.
func TestGetModuleErrorListFollowsLoadOrder(t *testing.T) {
	dir, err := ioutil.TempDir("", "h5c05f1")
	if err != nil {
		t.Fatal(err)
	}
	defer os.RemoveAll(dir)
	files := map[string]string{
		"a.yang": "module a {\n  namespace \"urn:a\";\n  prefix a;\n  frobnicate now;\n}\n",
		"b.yang": "module b {\n  namespace \"urn:b\";\n  prefix b;\n  leaf l { type string; }\n}\n",
		"c.yang": "module c {\n  namespace \"urn:c\";\n  prefix c;\n  leaf l { type string; bogus 1; }\n}\n",
	}
	path := func(n string) string { return filepath.Join(dir, n) }
	for n, text := range files {
		if err := ioutil.WriteFile(path(n), []byte(text), 0o644); err != nil {
			t.Fatal(err)
		}
	}
	show := func(errs []error) string {
		var ss []string
		for _, e := range errs {
			ss = append(ss, strings.Replace(e.Error(), dir+string(os.PathSeparator), "", -1))
		}
		return fmt.Sprintf("%q", ss)
	}

	_, fwd := GetModule("b", path("a.yang"), path("b.yang"), path("c.yang"))
	_, rev := GetModule("b", path("c.yang"), path("b.yang"), path("a.yang"))
	t.Logf("load order a,b,c: %s", show(fwd))
	t.Logf("load order c,b,a: %s", show(rev))
	if len(fwd) != 2 || len(rev) != 2 {
		t.Fatalf("expected two errors from each call, got %d and %d", len(fwd), len(rev))
	}
	if show(fwd) != show(rev) {
		t.Errorf("same sources, different load order, different error list:\n  a,b,c: %s\n  c,b,a: %s", show(fwd), show(rev))
	}
	// The list of either order has to be the one that errorSort makes of it.
	for name, errs := range map[string][]error{"a,b,c": fwd, "c,b,a": rev} {
		if sorted := errorSort(append([]error{}, errs...)); show(sorted) != show(errs) {
			t.Errorf("load order %s: error list is not ordered by file, line and column:\n  got  %s\n  want %s", name, show(errs), show(sorted))
		}
	}
}

package yang

import (
	"fmt"
	"sort"
	"strings"
	"testing"
)

// TestConflictingSourcesSurvivorFollowsLoadOrder loads the same three sources
// in two orders.  Two of them are versions of one module, one without a
// revision statement and one with; Modules.Parse refuses whichever of the two
// comes second.  The property demands the same outcome for both orders: the
// same error list, or else the same trees.  Both differ.
func TestConflictingSourcesSurvivorFollowsLoadOrder(t *testing.T) {
	srcs := map[string]string{
		"m.yang":            "module m {\n  namespace \"urn:m\";\n  prefix m;\n  typedef t { type int8; }\n  leaf only-in-unrevised { type t; }\n}\n",
		"m@2020-01-01.yang": "module m {\n  namespace \"urn:m\";\n  prefix m;\n  revision 2020-01-01;\n  typedef t { type string; }\n  leaf only-in-2020 { type t; }\n}\n",
		"u.yang":            "module u {\n  namespace \"urn:u\";\n  prefix u;\n  import m { prefix m; }\n  leaf x { type m:t; }\n}\n",
	}
	run := func(order ...string) (loadErrs []string, procErrs []string, tree string) {
		ms := NewModules()
		for _, name := range order {
			if err := ms.Parse(srcs[name], name); err != nil {
				loadErrs = append(loadErrs, err.Error())
			}
		}
		// The order in which the load errors are handed back is the
		// caller's; compare them as a set.
		sort.Strings(loadErrs)
		for _, err := range ms.Process() {
			procErrs = append(procErrs, err.Error())
		}
		var names []string
		for k := range ms.Modules {
			names = append(names, k)
		}
		sort.Strings(names)
		var b strings.Builder
		for _, k := range names {
			e := ToEntry(ms.Modules[k])
			var kids []string
			for c, ce := range e.Dir {
				kids = append(kids, fmt.Sprintf("%s(%s)", c, ce.Type.Kind))
			}
			sort.Strings(kids)
			fmt.Fprintf(&b, "%s -> %s %v\n", k, Source(ms.Modules[k]), kids)
		}
		return loadErrs, procErrs, b.String()
	}

	le1, pe1, tree1 := run("m.yang", "m@2020-01-01.yang", "u.yang")
	le2, pe2, tree2 := run("u.yang", "m@2020-01-01.yang", "m.yang")
	t.Logf("order m, m@2020, u:\n load errors %q\n process errors %q\n%s", le1, pe1, tree1)
	t.Logf("order u, m@2020, m:\n load errors %q\n process errors %q\n%s", le2, pe2, tree2)

	if fmt.Sprint(le1) != fmt.Sprint(le2) {
		t.Errorf("the error list of loading depends on the load order:\n  %q\n  %q", le1, le2)
	}
	if fmt.Sprint(pe1) != fmt.Sprint(pe2) {
		t.Errorf("the error list of Process depends on the load order:\n  %q\n  %q", pe1, pe2)
	}
	if tree1 != tree2 {
		t.Errorf("the resolved trees depend on the load order:\n%s---\n%s", tree1, tree2)
	}
}

package yang

import (
	"fmt"
	"strings"
	"testing"
)

// A comment opener that directly follows the characters of an unquoted string
// (RFC 7950 6.1.3: an unquoted string does not contain the comment sequences
// "//", "/*" or "*/", so the unquoted string ends in front of them and the
// comment starts there) is not seen by the lexer: lexUnquoted only stops at
// white space, quotes, ';', '{' and '}' (see the TODO in lexUnquoted).
//
//  1. An unterminated comment that starts there is not reported at its opener;
//     the error names a word inside the comment.
//  2. In a text that is accepted, the words inside such a comment come back as
//     statements, with positions that lie inside the comment.
func TestCommentOpenerAfterUnquotedString(t *testing.T) {
	// Control: with a space in front of the opener the library behaves as
	// the property says.
	_, err := Parse("leaf x /* never closed\n", "f.yang")
	if want := "f.yang:1:8: missing closing */"; err == nil || !strings.HasPrefix(err.Error(), want) {
		t.Fatalf("control: got %v, want %s", err, want)
	}

	// 1. The same fault, the opener directly behind the argument.
	_, err = Parse("leaf x/* never closed\n", "f.yang")
	if want := "f.yang:1:7: missing closing */"; err == nil || !strings.HasPrefix(err.Error(), want) {
		t.Errorf("unterminated comment behind an unquoted string:\n got  %v\n want %s", err, want)
	}

	// 2. An accepted text: two statements, "a b;" and "e f;".  The comment
	// holds text that looks like statements.
	text := "a b/*;c d;*/;\ne f;\n"
	ss, err := Parse(text, "f.yang")
	if err != nil {
		t.Fatalf("Parse(%q): %v", text, err)
	}
	var got []string
	for _, s := range ss {
		got = append(got, fmt.Sprintf("%s@%s", s.Keyword, s.Location()))
	}
	want := []string{"a@f.yang:1:1", "e@f.yang:2:1"}
	if fmt.Sprint(got) != fmt.Sprint(want) {
		t.Errorf("statements of %q:\n got  %v\n want %v", text, got, want)
	}

	// Control for 2: the same text with a space in front of the opener.
	ss, err = Parse("a b /*;c d;*/;\ne f;\n", "f.yang")
	if err != nil || len(ss) != 2 || ss[1].Location() != "f.yang:2:1" {
		t.Fatalf("control 2: %v %v", ss, err)
	}
}

package yang

import (
	"bytes"
	"fmt"
	"sort"
	"strings"
	"sync"
	"testing"
)

type scen struct {
	name  string
	files [][2]string // name, text
	reads []string
	paths []string
	opts  func(*Options)
}

var scens = []scen{
	{name: "stress", files: func() [][2]string {
		s := stressSet("Y")
		return [][2]string{{"baseY.yang", s["base"]}, {"subY.yang", s["sub"]}, {"extY.yang", s["ext"]}, {"augY.yang", s["aug"]}}
	}()},
	{name: "disk", reads: []string{"base", "aug"}, paths: []string{"../../testdata/..."}},
	{name: "disk2", reads: []string{"00-valid-module", "02-valid-import", "04-valid-module-one", "04-valid-module-two"}, paths: []string{"../yangentry/testdata/..."}},
	{name: "diskerr", reads: []string{"03-invalid-import"}, paths: []string{"../yangentry/testdata"}},
	{name: "tworev", files: [][2]string{
		{"m1", `module m { namespace "urn:m"; prefix m; revision 2019-01-01; identity base-id; typedef t { type int8 { range "1..5"; } } container c { leaf a { type t; } } }`},
		{"m2", `module m { namespace "urn:m"; prefix m; revision 2021-01-01; identity base-id; identity other { base base-id; } typedef t { type int16 { range "1..500"; } } container c { leaf a { type t; } leaf b { type identityref { base base-id; } } } }`},
		{"u", `module u { namespace "urn:u"; prefix u; import m { prefix m; revision-date 2019-01-01; } import m { prefix m2; revision-date 2021-01-01; } identity d { base m2:base-id; } leaf x { type m:t; } leaf y { type m2:t; } augment "/m2:c" { leaf z { type u:ut; } } typedef ut { type union { type m:t; type m2:t; type enumeration { enum q; } } } }`},
	}},
	{name: "errs", files: [][2]string{
		{"e1", `module e1 { namespace "urn:e1"; prefix e; typedef a { type b; } typedef b { type a; } leaf l { type nope; } leaf m { type int8 { range "1..1000"; } } leaf n { type string { length "5..1"; } } uses missing; container c { leaf l { type e:zz; } leaf l { type string; } } grouping g { uses g; } container d { uses g; } leaf idr { type identityref { base nobase; } } }`},
	}},
	{name: "errs2", files: [][2]string{
		{"e2", `module e2 { namespace "urn:e2"; prefix e; container c { leaf l { type string; } } augment "/e:c/e:nope" { leaf x { type string; } } augment "/e:c" { leaf l { type int8; } } deviation "/e:c/e:gone" { deviate not-supported; } deviation "/e:c/e:l" { deviate add { units m; } deviate delete { default 5; } } }`},
	}},
	{name: "circ", opts: func(o *Options) { o.IgnoreSubmoduleCircularDependencies = true; o.StoreUses = true }, files: [][2]string{
		{"p", `module p { namespace "urn:p"; prefix p; include s1; include s2; grouping pg { leaf pl { type string; } } container pc { uses pg; uses sg1; } }`},
		{"s1", `submodule s1 { belongs-to p { prefix p; } include s2; grouping sg1 { leaf s1l { type string; } } container s1c { uses sg1; } }`},
		{"s2", `submodule s2 { belongs-to p { prefix p; } include s1; container s2c { leaf s2l { type string; } } }`},
	}},
	{name: "dev", files: [][2]string{
		{"t", `module t { namespace "urn:t"; prefix t; container c { leaf a { type string; default x; units u; } leaf-list ll { type int8; min-elements 1; max-elements 4; } list li { key k; unique "v"; leaf k { type string; } leaf v { type string; } } leaf ro { config false; type string; } leaf m { mandatory true; type string; } } }`},
		{"d", `module d { namespace "urn:d"; prefix d; import t { prefix t; }
  deviation "/t:c/t:a" { deviate delete { default x; units u; } }
  deviation "/t:c/t:ll" { deviate replace { min-elements 0; max-elements 9; type uint8; } }
  deviation "/t:c/t:li" { deviate delete { unique "v"; } }
  deviation "/t:c/t:ro" { deviate replace { config true; } }
  deviation "/t:c/t:m" { deviate replace { mandatory false; } deviate add { default dd; } }
}`},
	}},
}

func loadScen(s scen) (*Modules, []error) {
	ms := NewModules()
	if s.opts != nil {
		s.opts(&ms.ParseOptions)
	}
	ms.AddPath(s.paths...)
	var errs []error
	for _, f := range s.files {
		if err := ms.Parse(f[1], f[0]); err != nil {
			errs = append(errs, err)
		}
	}
	for _, r := range s.reads {
		if err := ms.Read(r); err != nil {
			errs = append(errs, err)
		}
	}
	if len(errs) > 0 {
		return ms, errs
	}
	return ms, ms.Process()
}

func absPath(e *Entry) (string, bool) {
	// build a prefixed absolute path to e from the module entry at the root
	var parts []string
	c := e
	for ; c.Parent != nil; c = c.Parent {
		parts = append([]string{c.Name}, parts...)
	}
	m, ok := c.Node.(*Module)
	if !ok || len(parts) == 0 {
		return "", false
	}
	pfx := m.GetPrefix()
	return "/" + pfx + ":" + strings.Join(parts, "/"+pfx+":"), true
}

func genericWalk(b *bytes.Buffer, root, e *Entry, seen map[*Entry]bool) {
	if e == nil || seen[e] {
		return
	}
	seen[e] = true
	im, imerr := e.InstantiatingModule()
	fmt.Fprintf(b, "%s kind=%v ro=%v def=%v ns=%q im=%s/%v errs=%v", e.Path(), e.Kind, e.ReadOnly(), e.DefaultValues(), e.Namespace().Name, im, imerr, e.GetErrors())
	if sd, ok := e.SingleDefaultValue(); ok {
		fmt.Fprintf(b, " sd=%q", sd)
	}
	dumpType(b, e.Type, 0)
	if p, ok := absPath(e); ok {
		f := root.Find(p)
		fmt.Fprintf(b, " find(%s)=%v", p, f == e)
		if e.Node != nil && RootNode(e.Node) == RootNode(root.Node) {
			f2 := e.Find(p)
			fmt.Fprintf(b, "/%v", f2 == e)
		}
		if up := e.Find(".."); up != e.Parent {
			fmt.Fprintf(b, " UPBAD")
		}
	}
	if e.Node != nil {
		fmt.Fprintf(b, " cache=%v", ToEntry(e.Node) != nil)
	}
	b.WriteString("\n")
	var names []string
	for k := range e.Dir {
		names = append(names, k)
	}
	sort.Strings(names)
	for _, k := range names {
		genericWalk(b, root, e.Dir[k], seen)
	}
	if e.RPC != nil {
		genericWalk(b, root, e.RPC.Input, seen)
		genericWalk(b, root, e.RPC.Output, seen)
	}
	for _, u := range e.Uses {
		fmt.Fprintf(b, " uses %s\n", u.Uses.Name)
	}
}

func genericDump(ms *Modules, errs []error, processed bool) string {
	var b bytes.Buffer
	fmt.Fprintf(&b, "errs=%v\n", errs)
	if !processed {
		return b.String()
	}
	var names []string
	for k := range ms.Modules {
		names = append(names, k)
	}
	for k := range ms.SubModules {
		names = append(names, "~"+k)
	}
	sort.Strings(names)
	nss := map[string]bool{}
	for _, k := range names {
		var m *Module
		if strings.HasPrefix(k, "~") {
			m = ms.SubModules[k[1:]]
		} else {
			m = ms.Modules[k]
			nss[m.Namespace.Name] = true
		}
		e := ToEntry(m)
		fmt.Fprintf(&b, "== %s\n", k)
		genericWalk(&b, e, e, map[*Entry]bool{})
		e.Print(&b)
	}
	var nl []string
	for ns := range nss {
		nl = append(nl, ns)
	}
	sort.Strings(nl)
	for _, ns := range append(nl, "urn:nothing") {
		m, err := ms.FindModuleByNamespace(ns)
		n := ""
		if m != nil {
			n = m.FullName()
		}
		fmt.Fprintf(&b, "ns %s -> %s %v\n", ns, n, err)
	}
	return b.String()
}

func TestStress2Parallel(t *testing.T) {
	want := map[string]string{}
	for _, s := range scens {
		ms, errs := loadScen(s)
		want[s.name] = genericDump(ms, errs, len(errs) == 0)
		t.Logf("%s: %d bytes, errs=%d", s.name, len(want[s.name]), len(errs))
		if len(errs) > 0 {
			for _, e := range errs {
				t.Logf("   %v", e)
			}
		}
	}
	for round := 0; round < 15; round++ {
		var wg sync.WaitGroup
		type res struct{ name, got string }
		out := make([]res, 0)
		var mu sync.Mutex
		for rep := 0; rep < 3; rep++ {
			for _, s := range scens {
				wg.Add(1)
				go func(s scen) {
					defer wg.Done()
					ms, errs := loadScen(s)
					g := genericDump(ms, errs, len(errs) == 0)
					mu.Lock()
					out = append(out, res{s.name, g})
					mu.Unlock()
				}(s)
			}
		}
		wg.Wait()
		for _, r := range out {
			if r.got != want[r.name] {
				t.Fatalf("round %d scenario %s differs:\n%s\n----\n%s", round, r.name, r.got, want[r.name])
			}
		}
	}
}

func TestStress2Readers(t *testing.T) {
	for _, s := range scens {
		ms0, errs0 := loadScen(s)
		if len(errs0) > 0 {
			continue
		}
		want := genericDump(ms0, errs0, true)
		for round := 0; round < 10; round++ {
			ms, errs := loadScen(s)
			var wg sync.WaitGroup
			got := make([]string, 8)
			for i := range got {
				wg.Add(1)
				go func(i int) {
					defer wg.Done()
					got[i] = genericDump(ms, errs, true)
				}(i)
			}
			wg.Wait()
			for i := range got {
				if got[i] != want {
					t.Fatalf("%s round %d goroutine %d differs", s.name, round, i)
				}
			}
		}
	}
}

package yang

import (
	"bytes"
	"fmt"
	"sort"
	"strings"
	"sync"
	"testing"
)

func stressSet(tag string) map[string]string {
	r := strings.NewReplacer("TAG", tag)
	return map[string]string{
		"base": r.Replace(`module baseTAG {
  yang-version 1.1;
  namespace "urn:baseTAG";
  prefix b;
  include subTAG;
  import extTAG { prefix oc-ext; }
  revision 2020-01-01;
  extension note { argument text; }
  feature f1;
  identity root-id;
  identity mid-id { base root-id; }
  identity leaf-id { base b:mid-id; }
  typedef pct { type uint8 { range "0..100"; } default 50; units percent; }
  typedef pct2 { type pct { range "10..90"; } }
  typedef dec { type decimal64 { fraction-digits 3; range "-1.5..2.5 | 10..max"; } }
  typedef en { type enumeration { enum a; enum b { value 7; } enum c; } default b; }
  typedef bt { type bits { bit x; bit y { position 5; } bit z; } }
  typedef un { type union { type pct2; type en; type string { length "1..5|7"; pattern "[a-z]+"; oc-ext:posix-pattern "^[a-z]+$"; } type un2; } }
  typedef un2 { type union { type int64; type idr; } }
  typedef idr { type identityref { base root-id; } }
  typedef lr { type leafref { path "/b:top/b:name"; } }
  grouping g1 {
    typedef inner { type pct2; default 20; }
    leaf g1a { type inner; }
    leaf g1b { type un; b:note "hello"; }
    container g1c { config false; leaf deep { type dec; } uses g2; }
  }
  grouping g2 {
    leaf-list ll { type en; }
    choice ch { default alt1; leaf alt1 { type string; } case alt2 { leaf alt2a { type bt; } } }
  }
  container top {
    leaf name { type string; mandatory true; }
    leaf ref { type lr; }
    leaf idl { type idr; default b:leaf-id; }
    uses g1;
    list items { key "k"; ordered-by user; min-elements 1; max-elements 10; leaf k { type pct; } uses g2; uses subg;
      action reset { input { leaf when-in { type string; } } output { leaf ok { type boolean; } } }
      action noio;
    }
    anydata ad; anyxml ax;
  }
  container second { when "../top/name = 'x'"; uses g1; }
  rpc do-it { input { uses g2; } output { leaf res { type un; } } }
  rpc bare;
  rpc only-in { input { leaf x { type pct; } } }
  notification ev { leaf sev { type en; } }
}`),
		"sub": r.Replace(`submodule subTAG {
  yang-version 1.1;
  belongs-to baseTAG { prefix bb; }
  typedef subtd { type string { length "2..4"; } default "ab"; }
  grouping subg { leaf fromsub { type subtd; } }
  container subtop { leaf sl { type subtd; } leaf sl2 { type bb:subtd; } }
}`),
		"ext": r.Replace(`module extTAG {
  namespace "urn:extTAG";
  prefix oc-ext;
  extension posix-pattern { argument p; }
}`),
		"aug": r.Replace(`module augTAG {
  yang-version 1.1;
  namespace "urn:augTAG";
  prefix a;
  import baseTAG { prefix b; revision-date 2020-01-01; }
  typedef apct { type b:pct2 { range "20..30"; } }
  augment "/b:top" { leaf added { type apct; } uses b:g2; container ac { leaf al { type b:un; } } }
  augment "/b:top/b:items" { leaf added2 { type b:dec; } }
  augment "/b:top/b:ch" { leaf alt3 { type string; } }
  augment "/b:do-it/b:input" { leaf extra-in { type int8; } }
  augment "/b:only-in/b:output" { leaf extra-out { type int8; } }
  deviation "/b:second/b:g1a" { deviate replace { type string; } }
  deviation "/b:top/b:ad" { deviate not-supported; }
  deviation "/b:top/b:name" { deviate add { default "dflt"; } }
  deviation "/b:top/b:items" { deviate replace { max-elements 5; } }
  container own { leaf l { type leafref { path "/b:top/b:added"; } } }
}`),
	}
}

func loadStress(tag string) (*Modules, []error) {
	ms := NewModules()
	src := stressSet(tag)
	for _, k := range []string{"base", "sub", "ext", "aug"} {
		if err := ms.Parse(src[k], k+tag+".yang"); err != nil {
			return nil, []error{err}
		}
	}
	return ms, ms.Process()
}

func dumpType(b *bytes.Buffer, t *YangType, depth int) {
	if t == nil || depth > 6 {
		return
	}
	fmt.Fprintf(b, "{%s %v def=%q/%v units=%q range=%v len=%v pat=%v posix=%v fd=%d path=%q opt=%v",
		t.Name, t.Kind, t.Default, t.HasDefault, t.Units, t.Range, t.Length, t.Pattern, t.POSIXPattern, t.FractionDigits, t.Path, t.OptionalInstance)
	if t.Enum != nil {
		fmt.Fprintf(b, " enum=%v%v", t.Enum.Names(), t.Enum.Values())
	}
	if t.Bit != nil {
		fmt.Fprintf(b, " bit=%v%v", t.Bit.Names(), t.Bit.Values())
	}
	if t.IdentityBase != nil {
		fmt.Fprintf(b, " idbase=%s[", t.IdentityBase.Name)
		for _, v := range t.IdentityBase.Values {
			fmt.Fprintf(b, "%s,", v.Name)
		}
		b.WriteString("]")
	}
	if t.Root != nil && t.Root != t {
		fmt.Fprintf(b, " root=%s", t.Root.Name)
	}
	for _, u := range t.Type {
		dumpType(b, u, depth+1)
	}
	b.WriteString("}")
}

func dumpEntry(b *bytes.Buffer, e *Entry, withIM bool) {
	if e == nil {
		return
	}
	fmt.Fprintf(b, "%s kind=%v ro=%v cfg=%v mand=%v def=%v key=%q ns=%q errs=%v",
		e.Path(), e.Kind, e.ReadOnly(), e.Config, e.Mandatory, e.DefaultValues(), e.Key, e.Namespace().Name, e.GetErrors())
	if sd, ok := e.SingleDefaultValue(); ok {
		fmt.Fprintf(b, " sd=%q", sd)
	}
	if w, ok := e.GetWhenXPath(); ok {
		fmt.Fprintf(b, " when=%q", w)
	}
	if withIM {
		im, err := e.InstantiatingModule()
		fmt.Fprintf(b, " im=%s/%v", im, err)
	}
	if e.Prefix != nil {
		fmt.Fprintf(b, " pfx=%s", e.Prefix.Name)
	}
	if e.ListAttr != nil {
		fmt.Fprintf(b, " la=%d/%d/%v", e.ListAttr.MinElements, e.ListAttr.MaxElements, e.ListAttr.OrderedByUser)
	}
	var xs []string
	for k, v := range e.Extra {
		xs = append(xs, fmt.Sprintf("%s:%d", k, len(v)))
	}
	sort.Strings(xs)
	fmt.Fprintf(b, " extra=%v exts=%d", xs, len(e.Exts))
	dumpType(b, e.Type, 0)
	b.WriteString("\n")
	var names []string
	for k := range e.Dir {
		names = append(names, k)
	}
	sort.Strings(names)
	for _, k := range names {
		dumpEntry(b, e.Dir[k], withIM)
	}
	if e.RPC != nil {
		dumpEntry(b, e.RPC.Input, withIM)
		dumpEntry(b, e.RPC.Output, withIM)
	}
}

var stressPaths = []string{
	"/b:top/b:name", "/b:top/b:items/b:k", "/b:top/b:g1c/b:ch/b:alt2/b:alt2a", "/b:top/b:items/b:reset/b:input/b:when-in",
	"/b:do-it/b:input/b:ll", "/b:do-it/b:output/b:res", "/b:top/b:added", "/b:top/b:ac/b:al", "/b:second/b:g1a",
	"/b:top/b:items/b:fromsub", "/b:subtop/b:sl", "/b:ev/b:sev", "/b:top/b:ad", "/b:nothere", "/b:top/b:ch/b:alt3",
	"/b:only-in/b:input/b:x", "/b:do-it/b:input/b:extra-in",
}

func dumpSet(ms *Modules, tag string, errs []error) string {
	var b bytes.Buffer
	fmt.Fprintf(&b, "errs=%v\n", errs)
	var names []string
	for k := range ms.Modules {
		names = append(names, k)
	}
	for k := range ms.SubModules {
		names = append(names, "~"+k)
	}
	sort.Strings(names)
	for _, k := range names {
		var m *Module
		if strings.HasPrefix(k, "~") {
			m = ms.SubModules[k[1:]]
		} else {
			m = ms.Modules[k]
		}
		e := ToEntry(m)
		fmt.Fprintf(&b, "== %s\n", k)
		dumpEntry(&b, e, true)
		e.Print(&b)
	}
	// Path lookup from an entry of the aug module
	own := ToEntry(ms.Modules["aug"+tag]).Dir["own"]
	for _, p := range stressPaths {
		f := own.Find(p)
		fmt.Fprintf(&b, "find %s -> %s\n", p, f.Path())
		if f != nil {
			fmt.Fprintf(&b, "  up: %s\n", f.Find("..").Path())
		}
	}
	for _, ns := range []string{"urn:base" + tag, "urn:aug" + tag, "urn:ext" + tag, "urn:none"} {
		m, err := ms.FindModuleByNamespace(ns)
		n := ""
		if m != nil {
			n = m.Name
		}
		fmt.Fprintf(&b, "ns %s -> %s %v\n", ns, n, err)
	}
	return b.String()
}

func TestStressParallelSets(t *testing.T) {
	ms, errs := loadStress("X")
	if ms == nil {
		t.Fatal(errs)
	}
	want := dumpSet(ms, "X", errs)
	if len(errs) > 0 {
		t.Logf("errs: %v", errs)
	}
	t.Logf("dump bytes: %d", len(want))
	for round := 0; round < 10; round++ {
		var wg sync.WaitGroup
		got := make([]string, 8)
		for i := range got {
			wg.Add(1)
			go func(i int) {
				defer wg.Done()
				ms, errs := loadStress("X")
				got[i] = dumpSet(ms, "X", errs)
			}(i)
		}
		wg.Wait()
		for i := range got {
			if got[i] != want {
				t.Fatalf("round %d goroutine %d differs", round, i)
			}
		}
	}
}

func TestStressSharedReaders(t *testing.T) {
	ms0, errs0 := loadStress("X")
	want := dumpSet(ms0, "X", errs0)
	for round := 0; round < 20; round++ {
		ms, errs := loadStress("X")
		var wg sync.WaitGroup
		got := make([]string, 8)
		for i := range got {
			wg.Add(1)
			go func(i int) {
				defer wg.Done()
				got[i] = dumpSet(ms, "X", errs)
			}(i)
		}
		wg.Wait()
		for i := range got {
			if got[i] != want {
				t.Fatalf("round %d goroutine %d differs", round, i)
			}
		}
	}
}

package yang

import "testing"

// A submodule is loaded whose owner module (belongs-to) is not in the set and
// is never asked for.  Its augment is applied to module b, the grafted nodes
// carry the EMPTY namespace, and Process reports nothing.
func TestH6C07AugmentFromSubmoduleWithoutOwner(t *testing.T) {
	const b = `module b { namespace "urn:b"; prefix b; container bt; }`
	const so = `submodule so {
  belongs-to nowhere { prefix n; }
  import b { prefix b; }
  augment "/b:bt" { container grafted { leaf gl { type string; } } }
}`
	ms := NewModules()
	if err := ms.Parse(b, "b.yang"); err != nil {
		t.Fatal(err)
	}
	if err := ms.Parse(so, "so.yang"); err != nil {
		t.Fatal(err)
	}
	errs := ms.Process()
	g := ToEntry(ms.Modules["b"]).Dir["bt"].Dir["grafted"]

	switch {
	case g == nil && len(errs) > 0:
		return // reported: fine
	case g == nil:
		t.Fatalf("augment /b:bt of submodule so was dropped and Process reported nothing")
	}
	// Applied: then the nodes must be attributed to the augmenting module.
	ns := g.Namespace().Name
	im, imErr := g.InstantiatingModule()
	lns := g.Dir["gl"].Namespace().Name
	if len(errs) == 0 && (ns == "" || lns == "" || imErr != nil) {
		t.Errorf("Process() is clean, /b:bt/grafted was grafted, but Namespace()=%q (leaf gl: %q), InstantiatingModule()=%q, %v; "+
			"want the namespace of the augmenting module, or an error from Process", ns, lns, im, imErr)
	}
}

package yang

import (
	"strings"
	"testing"
)

// A top-level augment must name its target with an absolute schema node
// identifier (RFC 7950 7.17).  "../x" names no schema node, yet it is followed
// from the augment statement up to the module and down to /d:x, the augment is
// applied there and Process reports nothing.
func TestH6C07TopLevelAugmentRelativePath(t *testing.T) {
	for _, path := range []string{"../x", "./../x", "../y/../x"} {
		src := `module d { namespace "urn:d"; prefix d;
  container x; container y;
  augment "` + path + `" { leaf rel { type string; } }
}`
		ms := NewModules()
		if err := ms.Parse(src, "d.yang"); err != nil {
			continue // refused at parse time: fine
		}
		errs := ms.Process()
		reported := false
		for _, err := range errs {
			if strings.Contains(err.Error(), "augment") {
				reported = true
			}
		}
		grafted := ToEntry(ms.Modules["d"]).Dir["x"].Dir["rel"] != nil
		if grafted || !reported {
			t.Errorf("augment %q at module level: grafted into /d:x = %v, errors = %v; want not applied and reported (no such target)", path, grafted, errs)
		}
	}
}

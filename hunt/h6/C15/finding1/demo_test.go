package yang

import "testing"

// ParseDecimal must return the number a decimal literal denotes, or an error.
// None of the strings below is a decimal literal ([sign] digits [. digits]):
// they have no digit at all, or carry the sign inside the fraction part.
// Each of them must be refused; the library returns a Number instead.
func TestH6ParseDecimalAcceptsNonLiterals(t *testing.T) {
	for _, tt := range []struct {
		in string
		fd uint8
	}{
		{".", 1},    // no digit at all        -> 0.0
		{"-.", 1},   // sign and point only    -> 0.0
		{"+.", 3},   //                         -> 0.000
		{".-", 2},   // (refused at fd=1, accepted from fd=2 on) -> 0.00
		{".+", 2},   //                         -> 0.00
		{".-5", 2},  // sign after the point   -> -0.05
		{".+5", 2},  //                         -> 0.05
		{".-05", 3}, // the sign is counted as a fraction digit -> -0.005
	} {
		n, err := ParseDecimal(tt.in, tt.fd)
		if err == nil {
			t.Errorf("ParseDecimal(%q, %d) = %s (%+v), want an error: the string denotes no number", tt.in, tt.fd, n, n)
		}
	}
	// The same string is refused or accepted depending on the precision asked for.
	_, e1 := ParseDecimal(".-", 1)
	_, e2 := ParseDecimal(".-", 2)
	if (e1 == nil) != (e2 == nil) {
		t.Errorf(`ParseDecimal(".-", 1) err=%v but ParseDecimal(".-", 2) err=%v`, e1, e2)
	}
}

package yang

import "testing"

func TestZZNamespaceClashErrorStable(t *testing.T) {
	texts := map[string]string{}
	seen := map[string]bool{}
	for i := 0; i < 60; i++ {
		ms := NewModules()
		for _, n := range []string{"alpha", "beta", "gamma"} {
			if err := ms.Parse("module "+n+" { namespace \"urn:same\"; prefix "+n+"; }", n+".yang"); err != nil {
				t.Fatal(err)
			}
		}
		_, err := ms.FindModuleByNamespace("urn:same")
		if err == nil {
			t.Fatal("no error")
		}
		seen[err.Error()] = true
		_ = texts
	}
	if len(seen) != 1 {
		t.Fatalf("error text varies: %v", seen)
	}
}

package yang

// Demonstration: one semantic error (an unknown type) at the bottom of a chain
// of groupings makes Modules.Process double its work and its memory with every
// link of the chain.  The entry tree is tiny (one container per link); what
// doubles is the number of copies of the single error that are kept on the
// entries.  With 40 links (a 1.8 KB module) Process needs 2^40 error slots: it
// never returns the error, the process runs out of memory or of time.
//
// Copy this file into pkg/yang and run
//
//	go test -vet=off -count=1 -run TestH3ErrorChain ./pkg/yang

import (
	"bytes"
	"fmt"
	"os"
	"os/exec"
	"strconv"
	"strings"
	"syscall"
	"testing"
	"time"
)

// h3ErrorChainModule returns a module with k groupings, each of which puts the
// one before it into a container, and a single mistake: the leaf at the bottom
// has a type that does not exist.
func h3ErrorChainModule(k int) string {
	var b strings.Builder
	b.WriteString("module a {\n  namespace \"urn:a\";\n  prefix a;\n")
	b.WriteString("  grouping g0 { leaf l { type no-such-type; } }\n")
	for i := 1; i <= k; i++ {
		fmt.Fprintf(&b, "  grouping g%d { container c { uses g%d; } }\n", i, i-1)
	}
	fmt.Fprintf(&b, "  uses g%d;\n}\n", k)
	return b.String()
}

func TestH3ErrorChain(t *testing.T) {
	if ks := os.Getenv("H3_CHILD_ERRCHAIN"); ks != "" {
		k, _ := strconv.Atoi(ks)
		// Keep the damage bounded.
		lim := &syscall.Rlimit{Cur: 3 << 30, Max: 3 << 30}
		if err := syscall.Setrlimit(syscall.RLIMIT_AS, lim); err != nil {
			fmt.Println("SETRLIMIT FAILED:", err)
			os.Exit(3)
		}
		ms := NewModules()
		if err := ms.Parse(h3ErrorChainModule(k), "a.yang"); err != nil {
			fmt.Println("RETURNED parse error:", err)
			return
		}
		start := time.Now()
		errs := ms.Process()
		fmt.Printf("RETURNED k=%d after %v with %d error(s): %v\n", k, time.Since(start), len(errs), errs)
		return
	}

	run := func(k int, limit time.Duration) (string, bool, error) {
		cmd := exec.Command(os.Args[0], "-test.run", "^TestH3ErrorChain$", "-test.v")
		cmd.Env = append(os.Environ(), "H3_CHILD_ERRCHAIN="+strconv.Itoa(k))
		var out bytes.Buffer
		cmd.Stdout, cmd.Stderr = &out, &out
		if err := cmd.Start(); err != nil {
			t.Fatal(err)
		}
		done := make(chan error, 1)
		go func() { done <- cmd.Wait() }()
		select {
		case err := <-done:
			return out.String(), false, err
		case <-time.After(limit):
			cmd.Process.Kill()
			return out.String(), true, <-done
		}
	}
	returned := func(s string) string {
		for _, l := range strings.Split(s, "\n") {
			if strings.HasPrefix(l, "RETURNED") {
				return l
			}
		}
		return ""
	}

	// Short chains work, and show the doubling.
	for _, k := range []int{10, 14, 18, 20} {
		out, _, _ := run(k, 60*time.Second)
		t.Logf("%s", returned(out))
	}

	const k = 40
	src := h3ErrorChainModule(k)
	out, timedOut, err := run(k, 60*time.Second)
	if len(out) > 1200 {
		out = out[:1200] + "\n...[truncated]"
	}
	switch {
	case returned(out) != "":
		t.Logf("Process returned, as the property demands: %s", returned(out))
	case timedOut:
		t.Errorf("Modules.Process did not return within 60s for a %d byte module with one unknown type (child killed)\n%s", len(src), out)
	default:
		t.Errorf("Modules.Process did not return for a %d byte module with one unknown type; the child process died: %v\n%s", len(src), err, out)
	}
}

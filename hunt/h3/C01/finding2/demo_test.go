package yang

// Demonstration: the argument of an import (or include) statement is used as a
// file system path.  A module that "imports" /dev/zero makes Modules.Process
// read that device until memory is exhausted: Process never returns an error,
// the process dies with "fatal error: runtime: out of memory" (or, with enough
// memory, keeps reading for as long as it is allowed to).
//
// Copy this file into pkg/yang and run
//
//	go test -vet=off -count=1 -run TestH3ImportDevZero ./pkg/yang

import (
	"bytes"
	"fmt"
	"os"
	"os/exec"
	"strings"
	"syscall"
	"testing"
	"time"
)

const h3ImportDevZero = `module a {
  namespace "urn:a";
  prefix a;
  import /dev/zero { prefix z; }
}`

func TestH3ImportDevZero(t *testing.T) {
	if os.Getenv("H3_CHILD") == "devzero" {
		// Child: keep the damage bounded, then do what any user of the
		// library does: load the text and process it.
		lim := &syscall.Rlimit{Cur: 3 << 30, Max: 3 << 30}
		if err := syscall.Setrlimit(syscall.RLIMIT_AS, lim); err != nil {
			fmt.Println("SETRLIMIT FAILED:", err)
			os.Exit(3)
		}
		ms := NewModules()
		if err := ms.Parse(h3ImportDevZero, "a.yang"); err != nil {
			fmt.Println("RETURNED parse error:", err)
			return
		}
		errs := ms.Process()
		fmt.Println("RETURNED from Process with errors:", errs)
		return
	}
	if _, err := os.Stat("/dev/zero"); err != nil {
		t.Skip("no /dev/zero on this system")
	}

	cmd := exec.Command(os.Args[0], "-test.run", "^TestH3ImportDevZero$", "-test.v")
	cmd.Env = append(os.Environ(), "H3_CHILD=devzero")
	var out bytes.Buffer
	cmd.Stdout, cmd.Stderr = &out, &out
	if err := cmd.Start(); err != nil {
		t.Fatal(err)
	}
	done := make(chan error, 1)
	go func() { done <- cmd.Wait() }()
	var werr error
	timedOut := false
	select {
	case werr = <-done:
	case <-time.After(60 * time.Second):
		timedOut = true
		cmd.Process.Kill()
		werr = <-done
	}
	s := out.String()
	if len(s) > 1500 {
		s = s[:1500] + "\n...[truncated]"
	}
	switch {
	case strings.Contains(out.String(), "RETURNED"):
		t.Logf("Process returned, as the property demands:\n%s", s)
	case timedOut:
		t.Errorf("Modules.Process did not return within 60s for a module that imports /dev/zero (child killed)\n%s", s)
	default:
		t.Errorf("Modules.Process did not return for a module that imports /dev/zero; the child process died: %v\n%s", werr, s)
	}
}

package yang

// Demonstration: a small, legal module whose typedefs are unions of unions
// makes Modules.Process take time that doubles with every level of typedefs.
// When a union is resolved, each member type is compared with the members
// already taken (YangType.Equal, to drop duplicates).  Equal compares union
// members recursively and only short-cuts on pointer identity, so two unions
// that were written separately but look the same are compared member by member
// all the way down: 2 comparisons at the next level, 4 below that, ...  With
// 40 levels (a 10 KB module, 164 typedefs) Process needs about 2^40 of them.
//
// Copy this file into pkg/yang and run
//
//	go test -vet=off -count=1 -run TestH3UnionOfUnions ./pkg/yang

import (
	"bytes"
	"fmt"
	"os"
	"os/exec"
	"strconv"
	"strings"
	"testing"
	"time"
)

// h3UnionModule returns a module with two families of typedefs, A and B.  At
// every level i there are two typedefs per family that differ in their units
// only; each is the union of the two typedefs of level i-1 of its family.  The
// families are written out separately but describe the same types.  The leaf
// is a union of the top of both families.
func h3UnionModule(k int) string {
	var b strings.Builder
	b.WriteString("module a {\n  namespace \"urn:a\";\n  prefix a;\n")
	for _, f := range []string{"A", "B"} {
		fmt.Fprintf(&b, "  typedef %s0 { type string; units u1; }\n", f)
		fmt.Fprintf(&b, "  typedef %sx0 { type string; units u2; }\n", f)
		for i := 1; i <= k; i++ {
			fmt.Fprintf(&b, "  typedef %s%d { type union { type %s%d; type %sx%d; } units u1; }\n", f, i, f, i-1, f, i-1)
			fmt.Fprintf(&b, "  typedef %sx%d { type union { type %s%d; type %sx%d; } units u2; }\n", f, i, f, i-1, f, i-1)
		}
	}
	fmt.Fprintf(&b, "  leaf l { type union { type A%d; type B%d; } }\n}\n", k, k)
	return b.String()
}

func TestH3UnionOfUnions(t *testing.T) {
	if ks := os.Getenv("H3_CHILD_UNION"); ks != "" {
		k, _ := strconv.Atoi(ks)
		ms := NewModules()
		if err := ms.Parse(h3UnionModule(k), "a.yang"); err != nil {
			fmt.Println("RETURNED parse error:", err)
			return
		}
		start := time.Now()
		errs := ms.Process()
		fmt.Printf("RETURNED k=%d after %v with %d error(s): %v\n", k, time.Since(start), len(errs), errs)
		return
	}

	run := func(k int, limit time.Duration) (string, bool, error) {
		cmd := exec.Command(os.Args[0], "-test.run", "^TestH3UnionOfUnions$", "-test.v")
		cmd.Env = append(os.Environ(), "H3_CHILD_UNION="+strconv.Itoa(k))
		var out bytes.Buffer
		cmd.Stdout, cmd.Stderr = &out, &out
		if err := cmd.Start(); err != nil {
			t.Fatal(err)
		}
		done := make(chan error, 1)
		go func() { done <- cmd.Wait() }()
		select {
		case err := <-done:
			return out.String(), false, err
		case <-time.After(limit):
			cmd.Process.Kill()
			return out.String(), true, <-done
		}
	}
	returned := func(s string) string {
		for _, l := range strings.Split(s, "\n") {
			if strings.HasPrefix(l, "RETURNED") {
				return l
			}
		}
		return ""
	}

	// A few levels work, and show the doubling.
	for _, k := range []int{8, 12, 14, 16, 18} {
		out, _, _ := run(k, 120*time.Second)
		t.Logf("%s", returned(out))
	}

	const k = 40
	src := h3UnionModule(k)
	out, timedOut, err := run(k, 60*time.Second)
	if len(out) > 1200 {
		out = out[:1200] + "\n...[truncated]"
	}
	switch {
	case returned(out) != "":
		t.Logf("Process returned, as the property demands: %s", returned(out))
	case timedOut:
		t.Errorf("Modules.Process did not return within 60s for a legal %d byte module (%d typedefs); child killed\n%s", len(src), 4*(k+1), out)
	default:
		t.Errorf("Modules.Process did not return for a legal %d byte module; the child process died: %v\n%s", len(src), err, out)
	}
}

package yang

import (
	"fmt"
	"math"
	"math/rand"
	"os"
	"sort"
	"strconv"
	"strings"
	"testing"
)

// ---------- generator model ----------

type gTypedef struct {
	name string
	max  int // range 0..max on int32
	file *gFile
}

type gGrouping struct {
	name     string
	body     *gNode // kind "grouping"
	file     *gFile
	toplevel bool
}

type gNode struct {
	kind      string
	name      string
	children  []*gNode
	groupings []*gGrouping
	typedefs  []*gTypedef
	parent    *gNode
	file      *gFile

	// leaf / leaf-list
	typText  string
	typName  string
	typMax   int    // -1 if none
	idMod    string // identityref base module
	def      []string
	config   string
	mand     string
	key      string
	min, max uint64
	uses     *gGrouping
	usesText string
	when     bool
}

type gImport struct {
	mod    *gModule
	prefix string
}

type gFile struct {
	name    string
	mod     *gModule
	isSub   bool
	prefix  string // own prefix (belongs-to prefix for submodules)
	imports []gImport
	incl    []*gFile
	root    *gNode // kind "file": children = data nodes, groupings, typedefs
}

type gModule struct {
	name  string
	ns    string
	files []*gFile // submodules first, main last
	main  *gFile
}

type gen struct {
	r    *rand.Rand
	id   int
	mods []*gModule
}

func (g *gen) next() int { g.id++; return g.id }

func (g *gen) pick(n int) int { return g.r.Intn(n) }

// visible groupings at scope node sc (inside file f): returns candidates with text
type gCand struct {
	g    *gGrouping
	text string
}

func filesVisible(f *gFile) []*gFile {
	seen := map[*gFile]bool{f: true}
	out := []*gFile{f}
	var rec func(x *gFile)
	rec = func(x *gFile) {
		for _, i := range x.incl {
			if !seen[i] {
				seen[i] = true
				out = append(out, i)
				rec(i)
			}
		}
	}
	rec(f)
	return out
}

func (g *gen) visibleGroupings(sc *gNode) []gCand {
	var out []gCand
	f := sc.file
	pfx := func(name string) string {
		if g.pick(3) == 0 {
			return f.prefix + ":" + name
		}
		return name
	}
	for n := sc; n != nil; n = n.parent {
		if n.kind == "file" {
			break
		}
		for _, gr := range n.groupings {
			if gr.body != nil && gr.body.kind == "grouping" && gr.body.children != nil || true {
				out = append(out, gCand{gr, pfx(gr.name)})
			}
		}
	}
	for _, vf := range filesVisible(f) {
		for _, gr := range vf.root.groupings {
			out = append(out, gCand{gr, pfx(gr.name)})
		}
	}
	for _, im := range f.imports {
		for _, mf := range im.mod.files {
			for _, gr := range mf.root.groupings {
				out = append(out, gCand{gr, im.prefix + ":" + gr.name})
			}
		}
	}
	return out
}

type tCand struct {
	t    *gTypedef
	text string
}

func (g *gen) visibleTypedefs(sc *gNode) []tCand {
	var out []tCand
	f := sc.file
	pfx := func(name string) string {
		if g.pick(3) == 0 {
			return f.prefix + ":" + name
		}
		return name
	}
	for n := sc; n != nil; n = n.parent {
		if n.kind == "file" {
			break
		}
		for _, t := range n.typedefs {
			out = append(out, tCand{t, pfx(t.name)})
		}
	}
	for _, vf := range filesVisible(f) {
		for _, t := range vf.root.typedefs {
			out = append(out, tCand{t, pfx(t.name)})
		}
	}
	for _, im := range f.imports {
		for _, mf := range im.mod.files {
			for _, t := range mf.root.typedefs {
				out = append(out, tCand{t, im.prefix + ":" + t.name})
			}
		}
	}
	return out
}

// names in scope chain (for shadow check)
func scopeHasGrouping(sc *gNode, name string) bool {
	for n := sc; n != nil; n = n.parent {
		for _, gr := range n.groupings {
			if gr.name == name {
				return true
			}
		}
	}
	return false
}
func scopeHasTypedef(sc *gNode, name string) bool {
	for n := sc; n != nil; n = n.parent {
		for _, t := range n.typedefs {
			if t.name == name {
				return true
			}
		}
	}
	return false
}

// expanded names of a node list (reference)
func expandedNames(children []*gNode, into map[string]bool) {
	for _, c := range children {
		if c.kind == "uses" {
			expandedNames(c.uses.body.children, into)
		} else {
			into[c.name] = true
		}
	}
}

func canHoldDefs(kind string) bool {
	switch kind {
	case "container", "list", "grouping", "rpc", "action", "input", "output", "notification":
		return true
	}
	return false
}

// fill generates the body of directory-like node n
func (g *gen) fill(n *gNode, depth int, inGrouping bool) {
	// own definitions first
	if canHoldDefs(n.kind) && depth < 4 {
		for g.pick(4) == 0 {
			nm := fmt.Sprintf("nt%d", g.pick(2))
			if scopeHasTypedef(n, nm) || moduleHasTypedef(n.file.mod, nm) {
				nm = fmt.Sprintf("t%d", g.next())
			}
			n.typedefs = append(n.typedefs, &gTypedef{name: nm, max: 1000 + g.next(), file: n.file})
		}
		for g.pick(3) == 0 {
			nm := fmt.Sprintf("ng%d", g.pick(2))
			if scopeHasGrouping(n, nm) || moduleHasGrouping(n.file.mod, nm) {
				nm = fmt.Sprintf("g%d", g.next())
			}
			gr := &gGrouping{name: nm, file: n.file}
			body := &gNode{kind: "grouping", name: nm, parent: n, file: n.file}
			gr.body = body
			// register before fill? no: a grouping must not use itself. Fill first with it invisible.
			g.fill(body, depth+1, true)
			n.groupings = append(n.groupings, gr)
		}
	}
	if n.kind == "rpc" || n.kind == "action" {
		for _, io := range []string{"input", "output"} {
			if g.pick(4) != 0 {
				c := &gNode{kind: io, name: io, parent: n, file: n.file}
				g.fill(c, depth+1, inGrouping)
				n.children = append(n.children, c)
			}
		}
		return
	}
	cnt := 1 + g.pick(4)
	if depth >= 4 {
		cnt = 1 + g.pick(2)
	}
	names := map[string]bool{}
	for i := 0; i < cnt; i++ {
		kinds := []string{"leaf", "leaf", "leaf-list", "container", "list", "choice", "uses", "uses", "uses"}
		if n.kind == "container" || n.kind == "list" || n.kind == "grouping" {
			kinds = append(kinds, "action", "notification")
		}
		if n.kind == "choice" {
			kinds = []string{"leaf", "container", "case", "case", "leaf-list", "list"}
		}
		if depth >= 4 {
			kinds = []string{"leaf", "leaf-list", "uses"}
			if n.kind == "choice" {
				kinds = []string{"leaf"}
			}
		}
		// no action/notification inside rpc/notification/action trees or list without key.. keep simple
		k := kinds[g.pick(len(kinds))]
		if (k == "action" || k == "notification") && g.insideOp(n) {
			k = "leaf"
		}
		c := &gNode{kind: k, parent: n, file: n.file, typMax: -1}
		switch k {
		case "uses":
			cands := g.visibleGroupings(n)
			if len(cands) == 0 {
				continue
			}
			cd := cands[g.pick(len(cands))]
			en := map[string]bool{}
			expandedNames(cd.g.body.children, en)
			clash := false
			for x := range en {
				if names[x] {
					clash = true
				}
			}
			if clash || len(en) == 0 {
				continue
			}
			if g.insideOp(n) && hasOp(cd.g.body) {
				continue
			}
			for x := range en {
				names[x] = true
			}
			c.uses = cd.g
			c.usesText = cd.text
			c.name = cd.text
			c.when = g.pick(5) == 0
		default:
			c.name = fmt.Sprintf("%s%d", k[:2], g.next())
			if k == "case" {
				c.name = fmt.Sprintf("cs%d", g.next())
			}
			names[c.name] = true
			switch k {
			case "leaf", "leaf-list":
				g.fillLeaf(c, n)
			case "list":
				g.fill(c, depth+1, inGrouping)
				kl := &gNode{kind: "leaf", name: fmt.Sprintf("k%d", g.next()), parent: c, file: n.file, typText: "string", typName: "string", typMax: -1}
				c.children = append(c.children, kl)
				c.key = kl.name
				c.min, c.max = 0, math.MaxUint64
				if g.pick(3) == 0 {
					c.min = uint64(g.pick(3))
					c.max = uint64(5 + g.pick(5))
				}
			default:
				if k == "container" && g.pick(6) == 0 && !g.underConfigFalse(n) {
					c.config = "false"
				}
				g.fill(c, depth+1, inGrouping)
			}
		}
		n.children = append(n.children, c)
	}
	if len(n.children) == 0 {
		c := &gNode{kind: "leaf", name: fmt.Sprintf("le%d", g.next()), parent: n, file: n.file, typText: "string", typName: "string", typMax: -1}
		n.children = append(n.children, c)
	}
}

func hasOp(n *gNode) bool {
	for _, c := range n.children {
		if c.kind == "action" || c.kind == "notification" {
			return true
		}
		if c.kind == "uses" {
			if hasOp(c.uses.body) {
				return true
			}
		} else if hasOp(c) {
			return true
		}
	}
	return false
}

func (g *gen) insideOp(n *gNode) bool {
	for ; n != nil; n = n.parent {
		switch n.kind {
		case "rpc", "action", "notification", "input", "output", "choice", "case":
			return true
		}
	}
	return false
}

func (g *gen) underConfigFalse(n *gNode) bool {
	return false
}

func moduleHasGrouping(m *gModule, name string) bool {
	for _, f := range m.files {
		for _, gr := range f.root.groupings {
			if gr.name == name {
				return true
			}
		}
	}
	return false
}
func moduleHasTypedef(m *gModule, name string) bool {
	for _, f := range m.files {
		for _, t := range f.root.typedefs {
			if t.name == name {
				return true
			}
		}
	}
	return false
}

func (g *gen) fillLeaf(c *gNode, sc *gNode) {
	switch g.pick(5) {
	case 0:
		c.typText, c.typName = "string", "string"
	case 1:
		c.typText, c.typName = "int8", "int8"
	case 2:
		// identityref to idc, local (main file only) or imported
		f := sc.file
		var opts [][2]string
		if !f.isSub {
			opts = append(opts, [2]string{"idc", f.mod.name}, [2]string{f.prefix + ":idc", f.mod.name})
		}
		for _, im := range f.imports {
			opts = append(opts, [2]string{im.prefix + ":idc", im.mod.name})
		}
		if len(opts) == 0 {
			c.typText, c.typName = "string", "string"
			break
		}
		o := opts[g.pick(len(opts))]
		c.typText = "identityref { base " + o[0] + "; }"
		c.typName = "identityref"
		c.idMod = o[1]
	default:
		cands := g.visibleTypedefs(sc)
		if len(cands) == 0 {
			c.typText, c.typName = "string", "string"
			break
		}
		cd := cands[g.pick(len(cands))]
		c.typText = cd.text
		_, c.typName = getPrefix(cd.text)
		c.typMax = cd.t.max
	}
	if c.kind == "leaf-list" {
		c.min, c.max = 0, math.MaxUint64
		if g.pick(3) == 0 {
			c.max = uint64(4 + g.pick(5))
		}
		if c.idMod == "" && g.pick(3) == 0 {
			c.def = []string{"1", "2"}
		}
	} else {
		if c.idMod == "" && g.pick(3) == 0 {
			c.def = []string{strconv.Itoa(g.pick(100))}
		} else if g.pick(5) == 0 && sc.kind != "choice" {
			c.mand = "true"
		}
	}
}

func (g *gen) build(nmods int) {
	for mi := 0; mi < nmods; mi++ {
		m := &gModule{name: fmt.Sprintf("m%d", mi), ns: fmt.Sprintf("urn:m%d", mi)}
		nsub := g.pick(3)
		mkFile := func(name string, sub bool) *gFile {
			f := &gFile{name: name, mod: m, isSub: sub}
			f.prefix = fmt.Sprintf("p%d", mi)
			if sub && g.pick(2) == 0 {
				f.prefix = fmt.Sprintf("q%d%s", mi, name)
			}
			for j, om := range g.mods {
				if g.pick(4) != 0 {
					f.imports = append(f.imports, gImport{om, fmt.Sprintf("i%d%s", j, []string{"", "x", "y"}[g.pick(3)])})
				}
			}
			f.root = &gNode{kind: "file", name: name, file: f}
			return f
		}
		for si := 0; si < nsub; si++ {
			f := mkFile(fmt.Sprintf("m%ds%d", mi, si), true)
			if os.Getenv("H3NOSUBINC") == "" {
				f.incl = append(f.incl, m.files...)
			}
			m.files = append(m.files, f)
			g.fillFile(f)
		}
		f := mkFile(m.name, false)
		f.incl = append(f.incl, m.files...)
		m.files = append(m.files, f)
		m.main = f
		g.fillFile(f)
		if os.Getenv("H3CIRC") != "" {
			for _, sf := range m.files {
				if !sf.isSub {
					continue
				}
				sf.incl = nil
				for _, of := range m.files {
					if of.isSub && of != sf {
						sf.incl = append(sf.incl, of)
					}
				}
			}
		}
		g.mods = append(g.mods, m)
	}
}

func (g *gen) fillFile(f *gFile) {
	root := f.root
	// shared-name definitions
	if !moduleHasTypedef(f.mod, "tc") && (g.pick(2) == 0 || !f.isSub) {
		root.typedefs = append(root.typedefs, &gTypedef{name: "tc", max: 1000 + g.next(), file: f})
	}
	for i := g.pick(3); i > 0; i-- {
		root.typedefs = append(root.typedefs, &gTypedef{name: fmt.Sprintf("t%d", g.next()), max: 1000 + g.next(), file: f})
	}
	ng := 1 + g.pick(4)
	for i := 0; i < ng; i++ {
		nm := fmt.Sprintf("g%d", g.next())
		if !moduleHasGrouping(f.mod, "gc") && (g.pick(2) == 0 || (!f.isSub && i == ng-1)) {
			nm = "gc"
		}
		gr := &gGrouping{name: nm, file: f, toplevel: true}
		gr.body = &gNode{kind: "grouping", name: nm, parent: root, file: f}
		g.fill(gr.body, 1, true)
		root.groupings = append(root.groupings, gr)
	}
	nd := 1 + g.pick(3)
	for i := 0; i < nd; i++ {
		kinds := []string{"container", "container", "list", "rpc", "notification"}
		k := kinds[g.pick(len(kinds))]
		c := &gNode{kind: k, name: fmt.Sprintf("%s%d", k[:2], g.next()), parent: root, file: f, typMax: -1}
		if k == "list" {
			g.fill(c, 1, false)
			kl := &gNode{kind: "leaf", name: fmt.Sprintf("k%d", g.next()), parent: c, file: f, typText: "string", typName: "string", typMax: -1}
			c.children = append(c.children, kl)
			c.key = kl.name
			c.min, c.max = 0, math.MaxUint64
		} else {
			g.fill(c, 1, false)
		}
		root.children = append(root.children, c)
	}
	// top-level uses sometimes
	if g.pick(3) == 0 {
		cands := g.visibleGroupings(root)
		if len(cands) > 0 {
			cd := cands[g.pick(len(cands))]
			en := map[string]bool{}
			expandedNames(cd.g.body.children, en)
			// must not clash with any top-level name in the whole module
			all := map[string]bool{}
			for _, of := range f.mod.files {
				expandedNames(of.root.children, all)
			}
			expandedNames(root.children, all)
			ok := !hasOpAtTop(cd.g.body)
			for x := range en {
				if all[x] {
					ok = false
				}
			}
			if ok {
				root.children = append(root.children, &gNode{kind: "uses", name: cd.text, uses: cd.g, usesText: cd.text, parent: root, file: f})
			}
		}
	}
}

func hasOpAtTop(n *gNode) bool {
	for _, c := range n.children {
		if c.kind == "action" {
			return true
		}
		if c.kind == "uses" && hasOpAtTop(c.uses.body) {
			return true
		}
	}
	return false
}

// ---------- rendering ----------

func (g *gen) render(f *gFile) string {
	var sb strings.Builder
	m := f.mod
	if f.isSub {
		fmt.Fprintf(&sb, "submodule %s {\n  yang-version 1.1;\n  belongs-to %s { prefix %s; }\n", f.name, m.name, f.prefix)
	} else {
		fmt.Fprintf(&sb, "module %s {\n  yang-version 1.1;\n  namespace \"%s\";\n  prefix %s;\n", f.name, m.ns, f.prefix)
	}
	for _, im := range f.imports {
		fmt.Fprintf(&sb, "  import %s { prefix %s; }\n", im.mod.name, im.prefix)
	}
	for _, in := range f.incl {
		fmt.Fprintf(&sb, "  include %s;\n", in.name)
	}
	if !f.isSub {
		sb.WriteString("  identity idc;\n")
	}
	g.renderBody(&sb, f.root, "  ")
	sb.WriteString("}\n")
	return sb.String()
}

func (g *gen) renderBody(sb *strings.Builder, n *gNode, ind string) {
	defsFirst := g.pick(2) == 0
	defs := func() {
		for _, t := range n.typedefs {
			fmt.Fprintf(sb, "%stypedef %s { type int32 { range \"0..%d\"; } }\n", ind, t.name, t.max)
		}
		for _, gr := range n.groupings {
			fmt.Fprintf(sb, "%sgrouping %s {\n", ind, gr.name)
			g.renderBody(sb, gr.body, ind+"  ")
			fmt.Fprintf(sb, "%s}\n", ind)
		}
	}
	if defsFirst {
		defs()
	}
	if n.key != "" {
		fmt.Fprintf(sb, "%skey %s;\n", ind, n.key)
		if n.min != 0 {
			fmt.Fprintf(sb, "%smin-elements %d;\n", ind, n.min)
		}
		if n.max != math.MaxUint64 {
			fmt.Fprintf(sb, "%smax-elements %d;\n", ind, n.max)
		}
	}
	if n.config != "" && n.kind != "file" {
		fmt.Fprintf(sb, "%sconfig %s;\n", ind, n.config)
	}
	for _, c := range n.children {
		switch c.kind {
		case "uses":
			if c.when {
				fmt.Fprintf(sb, "%suses %s { when \"1=1\"; }\n", ind, c.usesText)
			} else {
				fmt.Fprintf(sb, "%suses %s;\n", ind, c.usesText)
			}
		case "leaf", "leaf-list":
			tt := c.typText + ";"
			if strings.HasSuffix(c.typText, "}") {
				tt = c.typText
			}
			fmt.Fprintf(sb, "%s%s %s { type %s", ind, c.kind, c.name, tt)
			for _, d := range c.def {
				fmt.Fprintf(sb, " default %s;", d)
			}
			if c.mand != "" {
				fmt.Fprintf(sb, " mandatory %s;", c.mand)
			}
			if c.kind == "leaf-list" && c.max != math.MaxUint64 {
				fmt.Fprintf(sb, " max-elements %d;", c.max)
			}
			sb.WriteString(" }\n")
		default:
			if c.kind == "input" || c.kind == "output" {
				fmt.Fprintf(sb, "%s%s {\n", ind, c.kind)
			} else {
				fmt.Fprintf(sb, "%s%s %s {\n", ind, c.kind, c.name)
			}
			g.renderBody(sb, c, ind+"  ")
			fmt.Fprintf(sb, "%s}\n", ind)
		}
	}
	if !defsFirst {
		defs()
	}
}

// ---------- reference expansion ----------

type xNode struct {
	name, kind string
	typName    string
	typMax     int
	idMod      string
	def        []string
	config     string
	mand       string
	key        string
	min, max   uint64
	ns         string
	children   map[string]*xNode
	parent     *xNode
	implicit   bool
}

func expand(children []*gNode, ns string, parent *xNode) map[string]*xNode {
	out := map[string]*xNode{}
	for _, c := range children {
		if c.kind == "uses" {
			for k, v := range expand(c.uses.body.children, ns, parent) {
				if out[k] != nil {
					panic("generator produced clash " + k)
				}
				out[k] = v
			}
			continue
		}
		x := &xNode{name: c.name, kind: c.kind, typName: c.typName, typMax: c.typMax, idMod: c.idMod, def: c.def, config: c.config, mand: c.mand, key: c.key, min: c.min, max: c.max, ns: ns, parent: parent}
		if c.kind != "leaf" && c.kind != "leaf-list" {
			x.children = expand(c.children, ns, x)
		}
		if parent != nil && parent.kind == "choice" && c.kind != "case" {
			cs := &xNode{name: c.name, kind: "case", ns: ns, parent: parent, typMax: -1, config: c.config, implicit: true}
			cs.children = map[string]*xNode{c.name: x}
			x.parent = cs
			x = cs
		}
		if out[x.name] != nil {
			panic("generator produced clash " + x.name)
		}
		out[x.name] = x
	}
	return out
}

func dumpX(x *xNode, ind string, sb *strings.Builder) {
	fmt.Fprintf(sb, "%s%s %s ns=%s", ind, x.kind, x.name, x.ns)
	switch x.kind {
	case "leaf", "leaf-list":
		fmt.Fprintf(sb, " type=%s", x.typName)
		if x.typMax >= 0 {
			fmt.Fprintf(sb, " range=0..%d", x.typMax)
		}
		if x.idMod != "" {
			fmt.Fprintf(sb, " idmod=%s", x.idMod)
		}
		fmt.Fprintf(sb, " def=%v mand=%s", x.def, x.mand)
	}
	if x.kind == "leaf-list" || x.kind == "list" {
		fmt.Fprintf(sb, " min=%d max=%d key=%s", x.min, x.max, x.key)
	}
	if x.config != "" {
		fmt.Fprintf(sb, " config=%s", x.config)
	}
	sb.WriteString("\n")
	var ks []string
	for k := range x.children {
		ks = append(ks, k)
	}
	sort.Strings(ks)
	for _, k := range ks {
		dumpX(x.children[k], ind+"  ", sb)
	}
}

func dumpXs(m map[string]*xNode) string {
	var sb strings.Builder
	var ks []string
	for k := range m {
		ks = append(ks, k)
	}
	sort.Strings(ks)
	for _, k := range ks {
		dumpX(m[k], "", &sb)
	}
	return sb.String()
}

// dump goyang entry in the same format
func entryKind(e *Entry) string {
	switch {
	case e.RPC != nil:
		if _, ok := e.Node.(*Action); ok {
			return "action"
		}
		return "rpc"
	case e.Kind == InputEntry:
		return "input"
	case e.Kind == OutputEntry:
		return "output"
	case e.Kind == NotificationEntry:
		return "notification"
	case e.Kind == ChoiceEntry:
		return "choice"
	case e.Kind == CaseEntry:
		return "case"
	case e.Kind == LeafEntry && e.ListAttr != nil:
		return "leaf-list"
	case e.Kind == LeafEntry:
		return "leaf"
	case e.Kind == DirectoryEntry && e.ListAttr != nil:
		return "list"
	case e.Kind == DirectoryEntry:
		return "container"
	}
	return e.Kind.String()
}

func dumpEn(e *Entry, ind string, sb *strings.Builder) {
	k := entryKind(e)
	fmt.Fprintf(sb, "%s%s %s ns=%s", ind, k, e.Name, e.Namespace().Name)
	switch k {
	case "leaf", "leaf-list":
		if e.Type == nil {
			fmt.Fprintf(sb, " type=<nil>")
		} else {
			fmt.Fprintf(sb, " type=%s", e.Type.Name)
			if e.Type.Kind == Yint32 && len(e.Type.Range) > 0 {
				fmt.Fprintf(sb, " range=%s", e.Type.Range.String())
			}
			if e.Type.IdentityBase != nil {
				fmt.Fprintf(sb, " idmod=%s", RootNode(e.Type.IdentityBase).Name)
			}
		}
		ms := ""
		if e.Mandatory == TSTrue {
			ms = "true"
		} else if e.Mandatory == TSFalse {
			ms = "false"
		}
		d := e.Default
		if d == nil {
			d = []string{}
		}
		fmt.Fprintf(sb, " def=%v mand=%s", d, ms)
	}
	if k == "leaf-list" || k == "list" {
		fmt.Fprintf(sb, " min=%d max=%d key=%s", e.ListAttr.MinElements, e.ListAttr.MaxElements, e.Key)
	}
	if e.Config == TSFalse {
		fmt.Fprintf(sb, " config=false")
	} else if e.Config == TSTrue {
		fmt.Fprintf(sb, " config=true")
	}
	sb.WriteString("\n")
	var ks []string
	kids := map[string]*Entry{}
	for kk, v := range e.Dir {
		kids[kk] = v
	}
	if e.RPC != nil {
		if e.RPC.Input != nil {
			kids["input"] = e.RPC.Input
		}
		if e.RPC.Output != nil {
			kids["output"] = e.RPC.Output
		}
	}
	for kk := range kids {
		ks = append(ks, kk)
	}
	sort.Strings(ks)
	for _, kk := range ks {
		c := kids[kk]
		if c.Parent != e {
			fmt.Fprintf(sb, "%s  !!bad parent\n", ind)
		}
		if c.Name != kk {
			fmt.Fprintf(sb, "%s  !!name %s != key %s\n", ind, c.Name, kk)
		}
		dumpEn(c, ind+"  ", sb)
	}
}

func dumpEnKids(e *Entry) string {
	var sb strings.Builder
	var ks []string
	for k := range e.Dir {
		ks = append(ks, k)
	}
	sort.Strings(ks)
	for _, k := range ks {
		dumpEn(e.Dir[k], "", &sb)
	}
	return sb.String()
}

// ---------- mutations ----------

type mutation struct {
	text  string
	apply func()
}

func xPath(x *xNode, pfx string) string {
	var parts []string
	for n := x; n != nil; n = n.parent {
		parts = append([]string{pfx + ":" + n.name}, parts...)
	}
	return "/" + strings.Join(parts, "/")
}

func collect(m map[string]*xNode, out *[]*xNode) {
	var ks []string
	for k := range m {
		ks = append(ks, k)
	}
	sort.Strings(ks)
	for _, k := range ks {
		*out = append(*out, m[k])
		collect(m[k].children, out)
	}
}

func (g *gen) mutate(trees map[*gModule]map[string]*xNode, count int) (string, []func()) {
	var sb strings.Builder
	sb.WriteString("module dev {\n  yang-version 1.1;\n  namespace \"urn:dev\";\n  prefix dev;\n")
	for i, m := range g.mods {
		fmt.Fprintf(&sb, "  import %s { prefix d%d; }\n", m.name, i)
	}
	var applies []func()
	var used []string
	for i, m := range g.mods {
		var all []*xNode
		collect(trees[m], &all)
		if len(all) == 0 {
			continue
		}
		pfx := fmt.Sprintf("d%d", i)
		for c := 0; c < count; c++ {
			x := all[g.pick(len(all))]
			p := xPath(x, pfx)
			bad := false
			for _, u := range used {
				if strings.HasPrefix(u+"/", p+"/") || strings.HasPrefix(p+"/", u+"/") {
					bad = true
				}
			}
			if bad {
				continue
			}
			m := m
			switch x.kind {
			case "rpc", "action":
				continue
			case "leaf", "leaf-list":
				// never touch list keys
				if x.parent != nil && x.parent.key == x.name {
					continue
				}
				switch g.pick(4) {
				case 0:
					fmt.Fprintf(&sb, "  deviation %s { deviate not-supported; }\n", p)
					applies = append(applies, func() { removeX(trees[m], x) })
				case 1:
					fmt.Fprintf(&sb, "  deviation %s { deviate replace { type uint8; } }\n", p)
					applies = append(applies, func() { x.typName = "uint8"; x.typMax = -1; x.idMod = "" })
				case 2:
					if x.kind == "leaf-list" {
						fmt.Fprintf(&sb, "  deviation %s { deviate replace { min-elements 3; max-elements 77; } }\n", p)
						applies = append(applies, func() { x.min = 3; x.max = 77 })
					} else {
						fmt.Fprintf(&sb, "  deviation %s { deviate replace { mandatory false; } }\n", p)
						applies = append(applies, func() { x.mand = "false" })
					}
				case 3:
					if x.kind == "leaf-list" {
						fmt.Fprintf(&sb, "  deviation %s { deviate add { default 9; } }\n", p)
						applies = append(applies, func() { x.def = append(append([]string{}, x.def...), "9") })
					} else if len(x.def) == 0 {
						fmt.Fprintf(&sb, "  deviation %s { deviate add { default 9; } }\n", p)
						applies = append(applies, func() { x.def = []string{"9"} })
					} else {
						fmt.Fprintf(&sb, "  deviation %s { deviate replace { default 9; } }\n", p)
						applies = append(applies, func() { x.def = []string{"9"} })
					}
				}
			default:
				// directory-ish: augment, or not-supported, or list min-elements
				switch g.pick(4) {
				case 0:
					if x.kind == "input" || x.kind == "output" || x.kind == "case" {
						continue
					}
					fmt.Fprintf(&sb, "  deviation %s { deviate not-supported; }\n", p)
					applies = append(applies, func() { removeX(trees[m], x) })
				case 1:
					if x.kind != "list" {
						continue
					}
					fmt.Fprintf(&sb, "  deviation %s { deviate replace { min-elements 2; } }\n", p)
					applies = append(applies, func() { x.min = 2 })
				default:
					if x.implicit {
						continue
					}
					nm := fmt.Sprintf("aug%d", g.next())
					usesTxt := ""
					var usesG *gGrouping
					if x.kind != "choice" && g.pick(2) == 0 {
						// uses of a random top-level grouping of a random module
						j := g.pick(len(g.mods))
						om := g.mods[j]
						of := om.files[g.pick(len(om.files))]
						if len(of.root.groupings) > 0 {
							gr := of.root.groupings[g.pick(len(of.root.groupings))]
							en := map[string]bool{}
							expandedNames(gr.body.children, en)
							okk := !hasOp(gr.body)
							for k := range en {
								if x.children[k] != nil {
									okk = false
								}
							}
							if okk {
								usesG = gr
								usesTxt = fmt.Sprintf(" uses d%d:%s;", j, gr.name)
							}
						}
					}
					fmt.Fprintf(&sb, "  augment %s { leaf %s { type string; }%s }\n", p, nm, usesTxt)
					applies = append(applies, func() {
						if usesG != nil {
							for k, v := range expand(usesG.body.children, "urn:dev", x) {
								x.children[k] = v
							}
						}
						l := &xNode{name: nm, kind: "leaf", typName: "string", typMax: -1, ns: "urn:dev", parent: x}
						if x.kind == "choice" {
							cs := &xNode{name: nm, kind: "case", ns: "urn:dev", parent: x, typMax: -1, children: map[string]*xNode{nm: l}}
							l.parent = cs
							l = cs
						}
						x.children[nm] = l
					})
				}
			}
			used = append(used, p)
		}
	}
	sb.WriteString("}\n")
	return sb.String(), applies
}

func removeX(top map[string]*xNode, x *xNode) {
	if x.parent == nil {
		delete(top, x.name)
		return
	}
	delete(x.parent.children, x.name)
}

// ---------- the test ----------

func firstDiff(a, b string) string {
	la, lb := strings.Split(a, "\n"), strings.Split(b, "\n")
	for i := 0; i < len(la) && i < len(lb); i++ {
		if la[i] != lb[i] {
			return fmt.Sprintf("line %d:\n  want: %s\n  got:  %s", i, la[i], lb[i])
		}
	}
	return fmt.Sprintf("length differs: want %d lines, got %d", len(la), len(lb))
}

func runSeed(t *testing.T, seed int64, withMut bool) (ok bool) {
	g := &gen{r: rand.New(rand.NewSource(seed))}
	g.build(2 + g.pick(3))
	texts := map[string]string{}
	var order []string
	for _, m := range g.mods {
		for _, f := range m.files {
			texts[f.name] = g.render(f)
			if os.Getenv("H3CRLF") != "" {
				texts[f.name] = strings.ReplaceAll(strings.ReplaceAll(texts[f.name], "  ", "\t"), "\n", "\r\n")
			}
			order = append(order, f.name)
		}
	}
	trees := map[*gModule]map[string]*xNode{}
	for _, m := range g.mods {
		var all []*gNode
		for _, f := range m.files {
			all = append(all, f.root.children...)
		}
		trees[m] = expand(all, m.ns, nil)
	}
	// grouping reference (unmutated) dumps
	type gref struct {
		mod  *gModule
		file *gFile
		idx  int
		want string
	}
	var grefs []gref
	for _, m := range g.mods {
		for _, f := range m.files {
			for i, gr := range f.root.groupings {
				grefs = append(grefs, gref{m, f, i, dumpXs(expand(gr.body.children, m.ns, nil))})
			}
		}
	}
	var applies []func()
	if withMut {
		var dt string
		dt, applies = g.mutate(trees, 3)
		texts["dev"] = dt
		order = append(order, "dev")
	}
	fail := func(format string, a ...interface{}) {
		ok = false
		t.Errorf("seed %d: "+format, append([]interface{}{seed}, a...)...)
		dir := fmt.Sprintf("/tmp/gy-h3-C06/OUT/scratch/seed%d", seed)
		os.MkdirAll(dir, 0o755)
		for n, tx := range texts {
			os.WriteFile(dir+"/"+n+".yang", []byte(tx), 0o644)
		}
	}
	again := false
	ms := NewModules()
	if os.Getenv("H3CIRC") != "" {
		ms.ParseOptions.IgnoreSubmoduleCircularDependencies = true
	}
	if os.Getenv("H3STORE") != "" {
		ms.ParseOptions.StoreUses = true
	}
	// random load order
	g.r.Shuffle(len(order), func(i, j int) { order[i], order[j] = order[j], order[i] })
	for _, n := range order {
		if err := ms.Parse(texts[n], n+".yang"); err != nil {
			fail("parse %s: %v", n, err)
			return
		}
		if os.Getenv("H3INCR") != "" && g.pick(2) == 0 {
			ms.Process()
		}
	}
	if errs := ms.Process(); len(errs) > 0 {
		fail("process errors: %v", errs)
		return
	}
	for _, a := range applies {
		a()
	}
	ok = true
check:
	for _, m := range g.mods {
		want := dumpXs(trees[m])
		got := dumpEnKids(ToEntry(ms.Modules[m.name]))
		if want != got {
			fail("module %s differs: %s", m.name, firstDiff(want, got))
			return
		}
	}
	if os.Getenv("H3TWICE") != "" && !again {
		again = true
		if errs := ms.Process(); len(errs) > 0 {
			fail("second process errors: %v", errs)
			return
		}
		goto check
	}
	// cached groupings unchanged
	for _, gr := range grefs {
		var mod *Module
		if gr.file.isSub {
			mod = ms.SubModules[gr.file.name]
		} else {
			mod = ms.Modules[gr.file.name]
		}
		// AST order of groupings == generation order
		ast := mod.Grouping[gr.idx]
		got := dumpEnKids(ToEntry(ast))
		// the cached grouping tree has no implicit cases inserted; normalise by comparing
		// after inserting them on a copy
		cp := ToEntry(ast).dup()
		cp.FixChoice()
		got = dumpEnKids(cp)
		if got != gr.want {
			fail("grouping %s in %s differs: %s", ast.Name, gr.file.name, firstDiff(gr.want, got))
			return
		}
	}
	return ok
}

func TestH3Random(t *testing.T) {
	n := 300
	if s := os.Getenv("H3N"); s != "" {
		n, _ = strconv.Atoi(s)
	}
	bad := 0
	for seed := int64(1); seed <= int64(n); seed++ {
		if !runSeed(t, seed, true) {
			bad++
			if bad > 5 {
				break
			}
		}
	}
}

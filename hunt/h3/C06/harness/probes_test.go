package yang

import (
	"fmt"
	"sort"
	"strings"
	"testing"
)

type src struct{ name, text string }

func loadAll(t *testing.T, srcs ...src) (*Modules, []error) {
	ms := NewModules()
	for _, s := range srcs {
		if err := ms.Parse(s.text, s.name); err != nil {
			t.Fatalf("parse %s: %v", s.name, err)
		}
	}
	return ms, ms.Process()
}

func dumpE(e *Entry, ind string, sb *strings.Builder) {
	if e == nil {
		return
	}
	ty := ""
	if e.Type != nil {
		ty = " type=" + e.Type.Name + "/" + e.Type.Kind.String()
		if e.Type.IdentityBase != nil {
			ty += " base=" + e.Type.IdentityBase.Name
		}
		if len(e.Type.Range) > 0 {
			ty += " range=" + e.Type.Range.String()
		}
	}
	la := ""
	if e.ListAttr != nil {
		la = fmt.Sprintf(" min=%d max=%d", e.ListAttr.MinElements, e.ListAttr.MaxElements)
	}
	var ex []string
	for k, v := range e.Extra {
		ex = append(ex, fmt.Sprintf("%s#%d", k, len(v)))
	}
	sort.Strings(ex)
	fmt.Fprintf(sb, "%s%s kind=%v ns=%s cfg=%v mand=%v def=%v key=%q%s%s extra=%v errs=%d\n", ind, e.Name, e.Kind, e.Namespace().Name, e.Config, e.Mandatory, e.Default, e.Key, ty, la, ex, len(e.Errors))
	var ks []string
	for k := range e.Dir {
		ks = append(ks, k)
	}
	sort.Strings(ks)
	for _, k := range ks {
		c := e.Dir[k]
		if c.Parent != e {
			fmt.Fprintf(sb, "%s  !! bad parent for %s\n", ind, k)
		}
		dumpE(c, ind+"  ", sb)
	}
	if e.RPC != nil {
		if e.RPC.Input != nil {
			dumpE(e.RPC.Input, ind+"  <in>", sb)
		}
		if e.RPC.Output != nil {
			dumpE(e.RPC.Output, ind+"  <out>", sb)
		}
	}
}

func dumpS(e *Entry) string {
	var sb strings.Builder
	dumpE(e, "", &sb)
	return sb.String()
}

func TestH3Sub11(t *testing.T) {
	ms, errs := loadAll(t,
		src{"m.yang", `module m { yang-version 1.1; namespace "urn:m"; prefix m; include s1; include s2;
  grouping gm { leaf inmain { type string; } } }`},
		src{"s1.yang", `submodule s1 { yang-version 1.1; belongs-to m { prefix m; } grouping g1 { leaf a { type string; } } }`},
		src{"s2.yang", `submodule s2 { yang-version 1.1; belongs-to m { prefix m; } container c { uses g1; uses m:gm; } }`},
	)
	t.Logf("errs: %v", errs)
	if len(errs) == 0 {
		t.Log(dumpS(ToEntry(ms.Modules["m"])))
	}
}

func TestH3Probe2(t *testing.T) {
	// typedef + identity in main module / sibling submodule used from grouping in submodule (1.1)
	ms, errs := loadAll(t,
		src{"m.yang", `module m { yang-version 1.1; namespace "urn:m"; prefix m; include s1; include s2;
  typedef tm { type uint8; } identity idm; container top { uses g2; } }`},
		src{"s1.yang", `submodule s1 { yang-version 1.1; belongs-to m { prefix m; } typedef t1 { type int8; } identity id1; }`},
		src{"s2.yang", `submodule s2 { yang-version 1.1; belongs-to m { prefix m; } grouping g2 { leaf a { type t1; } leaf b { type tm; } leaf c { type identityref { base id1; } } leaf d { type identityref { base m:idm; } } } }`},
	)
	t.Logf("errs: %v", errs)
	if len(errs) == 0 {
		t.Log(dumpS(ToEntry(ms.Modules["m"])))
	}
}

func TestH3Probe3(t *testing.T) {
	// 1.0: s2 includes s1
	ms, errs := loadAll(t,
		src{"m.yang", `module m { namespace "urn:m"; prefix m; include s1; include s2; }`},
		src{"s1.yang", `submodule s1 { belongs-to m { prefix m; } grouping g1 { leaf a { type string; } } }`},
		src{"s2.yang", `submodule s2 { belongs-to m { prefix m; } include s1; container c { uses g1; } }`},
	)
	t.Logf("errs: %v", errs)
	if len(errs) == 0 {
		t.Log(dumpS(ToEntry(ms.Modules["m"])))
	}
}

func TestH3Probe4(t *testing.T) {
	// imported module's submodule, nested include; import in a submodule with different prefix
	ms, errs := loadAll(t,
		src{"a.yang", `module a { namespace "urn:a"; prefix a; import b { prefix bb; } include as; container top { uses bb:g; } }`},
		src{"as.yang", `submodule as { belongs-to a { prefix ax; } import b { prefix q; } container top2 { uses q:g; uses ax:la; } grouping la { leaf z { type q:tb; } } }`},
		src{"b.yang", `module b { namespace "urn:b"; prefix b; include bs1; include bs2; }`},
		src{"bs1.yang", `submodule bs1 { belongs-to b { prefix b; } include bs2; }`},
		src{"bs2.yang", `submodule bs2 { belongs-to b { prefix bz; } typedef tb { type uint16; } grouping g { leaf x { type bz:tb; } container c { uses h; } grouping h { leaf y { type tb; } } } }`},
	)
	t.Logf("errs: %v", errs)
	if len(errs) == 0 {
		t.Log(dumpS(ToEntry(ms.Modules["a"])))
	}
}

func TestH3ActionNoInput(t *testing.T) {
	ms, errs := loadAll(t,
		src{"a.yang", `module a { yang-version 1.1; namespace "urn:a"; prefix a;
  grouping g { container c { action act; leaf-list ll { type string; } list l { key k; leaf k { type string; } } } }
  container one { uses g; }
  container two { uses g; }
  augment /one/c/act/input { leaf extra { type string; } }
  augment /one/c/act/output { leaf extra { type string; } }
  deviation /a:one/a:c/a:ll { deviate add { default x; } }
  deviation /a:one/a:c/a:l { deviate replace { max-elements 3; } }
}`},
	)
	t.Logf("errs: %v", errs)
	if len(errs) == 0 {
		t.Log(dumpS(ToEntry(ms.Modules["a"])))
		t.Log(dumpS(ToEntry(ms.Modules["a"].Grouping[0])))
	}
}

func TestH3Revs(t *testing.T) {
	ms, errs := loadAll(t,
		src{"b@2020-01-01.yang", `module b { yang-version 1.1; namespace "urn:b"; prefix b; include bs; revision 2020-01-01; typedef t { type int8; } identity id;
  grouping g { leaf old { type t; } leaf i { type identityref { base id; } } uses gs; uses h; } grouping h { leaf hold { type string; } } container bc { uses g; } }`},
		src{"b@2021-01-01.yang", `module b { yang-version 1.1; namespace "urn:b"; prefix b; include bs; revision 2021-01-01; typedef t { type int16; } identity id;
  grouping g { leaf new { type t; } leaf i { type identityref { base id; } } uses gs; uses h; } grouping h { leaf hnew { type string; } } container bc { uses g; } }`},
		src{"bs.yang", `submodule bs { yang-version 1.1; belongs-to b { prefix b; } grouping gs { leaf ins { type string; } } container frombs { uses gs; } }`},
		src{"a1.yang", `module a1 { yang-version 1.1; namespace "urn:a1"; prefix a1; import b { prefix b; revision-date 2020-01-01; } container c { uses b:g; } }`},
		src{"a2.yang", `module a2 { yang-version 1.1; namespace "urn:a2"; prefix a2; import b { prefix b; } container c { uses b:g; } }`},
		src{"a3.yang", `module a3 { yang-version 1.1; namespace "urn:a3"; prefix a3; import b { prefix b1; revision-date 2020-01-01; } import b { prefix b2; revision-date 2021-01-01; } container c1 { uses b1:g; } container c2 { uses b2:g; } }`},
	)
	t.Logf("errs: %v", errs)
	if len(errs) == 0 {
		for _, n := range []string{"a1", "a2", "a3", "b@2020-01-01", "b@2021-01-01"} {
			t.Log(dumpS(ToEntry(ms.Modules[n])))
		}
	}
}

func TestH3NestedUsesOuter(t *testing.T) {
	ms, errs := loadAll(t,
		src{"a.yang", `module a { namespace "urn:a"; prefix a;
  grouping g { leaf x { type string; } container c { grouping h { uses g; } leaf y { type string; } } }
  container top { uses g; }
}`},
	)
	t.Logf("errs: %v", errs)
	if len(errs) == 0 {
		t.Log(dumpS(ToEntry(ms.Modules["a"])))
	}
}

func TestH3Keywords(t *testing.T) {
	ms, errs := loadAll(t,
		src{"a.yang", "module a { namespace \"urn:a\"; prefix uses;\r\n  import b { prefix grouping; }\r\n grouping input { leaf type { type string; } uses grouping:uses; }\r\n container container { uses uses:input; uses \"grou\" + 'ping:' + \"grouping\"; }\r\n}"},
		src{"b.yang", "module b { namespace \"urn:b\"; prefix \"b\"; grouping uses { leaf\tleaf { type string; } } grouping grouping { leaf-list default { type string; } } }"},
	)
	t.Logf("errs: %v", errs)
	if len(errs) == 0 {
		t.Log(dumpS(ToEntry(ms.Modules["a"])))
	}
}

func TestH3PrefixClash(t *testing.T) {
	ms, errs := loadAll(t,
		src{"a.yang", `module a { namespace "urn:a"; prefix a; import d { prefix p; } include s;
  container top { uses gs; container viaMain { uses p:g; leaf l2 { type p:t; } leaf i2 { type identityref { base p:id; } } } }
}`},
		src{"s.yang", `submodule s { belongs-to a { prefix p2; } import c { prefix p; } import d { prefix a; }
  grouping gs { uses p:g; leaf l { type p:t; } leaf i { type identityref { base p:id; } } container viaD { uses a:g; } } }`},
		src{"c.yang", `module c { namespace "urn:c"; prefix p; typedef t { type int8; } identity id; grouping g { leaf fromc { type p:t; } } }`},
		src{"d.yang", `module d { namespace "urn:d"; prefix p; typedef t { type int16; } identity id; grouping g { leaf fromd { type t; } } }`},
	)
	t.Logf("errs: %v", errs)
	if len(errs) == 0 {
		var sb strings.Builder
		dumpEn(ToEntry(ms.Modules["a"]), "", &sb)
		t.Log(sb.String())
	}
}

func TestH3Crashy(t *testing.T) {
	for i, srcs := range [][]src{
		{{"a.yang", `module a { namespace "urn:a"; prefix a; import b; container c { uses b:g; } }`}, {"b.yang", `module b { namespace "urn:b"; prefix b; grouping g { leaf x { type string; } } }`}},
		{{"a.yang", `module a { namespace "urn:a"; prefix a; container c { uses ""; } }`}},
		{{"a.yang", `module a { namespace "urn:a"; prefix a; include s; container c { uses g; } }`}, {"s.yang", `submodule s { belongs-to a; grouping g { leaf x { type string; } } container d { uses g; uses :g; } }`}},
		{{"a.yang", `module a { namespace "urn:a"; container c { uses g; uses :g; } grouping g { leaf x { type string; } } }`}},
	} {
		func() {
			defer func() {
				if r := recover(); r != nil {
					t.Logf("case %d: PANIC %v", i, r)
				}
			}()
			ms := NewModules()
			for _, s := range srcs {
				if err := ms.Parse(s.text, s.name); err != nil {
					t.Logf("case %d parse: %v", i, err)
					return
				}
			}
			t.Logf("case %d: %v", i, ms.Process())
		}()
	}
}

func TestH3TwoNamespaces(t *testing.T) {
	ms, errs := loadAll(t,
		src{"a.yang", `module a { namespace "urn:a"; prefix a; grouping g { leaf foo { type string; } } container top { uses g; } }`},
		src{"x.yang", `module x { namespace "urn:x"; prefix x; import a { prefix a; } augment /a:top { uses a:g; } }`},
	)
	t.Logf("errs: %v", errs)
	if len(errs) == 0 {
		t.Log(dumpS(ToEntry(ms.Modules["a"])))
	}
}

package yang

import (
	"testing"
)

// "... while the copies belong to the namespace of the module that uses them."
// Module a uses grouping g in container top: the copy of leaf foo is a:foo.
// Module x augments /a:top and uses the same grouping there: its copy is
// x:foo, a different node (RFC 7950 section 7.17 only forbids an augment to add
// "multiple nodes with the same name from the same module").  Both uses must
// receive their copy.  The library files the children of a node under their
// bare names, so the second use is rejected as a duplicate of the first.
func TestH3C06SameGroupingUsedByTwoModulesInOneParent(t *testing.T) {
	srcs := []struct{ name, text string }{
		{"a.yang", `module a {
  namespace "urn:a";
  prefix a;
  grouping g { leaf foo { type string; } }
  container top { uses g; }
}`},
		{"x.yang", `module x {
  namespace "urn:x";
  prefix x;
  import a { prefix a; }
  augment "/a:top" { uses a:g; }
}`},
	}
	ms := NewModules()
	for _, s := range srcs {
		if err := ms.Parse(s.text, s.name); err != nil {
			t.Fatalf("parse %s: %v", s.name, err)
		}
	}
	if errs := ms.Process(); len(errs) != 0 {
		t.Fatalf("valid modules rejected; Process() = %v", errs)
	}
	top := ToEntry(ms.Modules["a"]).Dir["top"]
	seen := map[string]bool{}
	var walk func(e *Entry)
	walk = func(e *Entry) {
		for _, c := range e.Dir {
			if c.Name == "foo" {
				seen[c.Namespace().Name] = true
			}
		}
	}
	walk(top)
	if !seen["urn:a"] || !seen["urn:x"] {
		t.Fatalf("copies of foo under /a:top found in namespaces %v, want urn:a and urn:x", seen)
	}
}

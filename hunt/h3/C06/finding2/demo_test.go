package yang

import (
	"testing"
)

// "Names inside the grouping (types, ...) resolve in the scope where the
// grouping is defined."  The grouping g2 is defined in submodule s2 of a YANG
// 1.1 module.  Its scope contains the typedefs of the main module and of the
// sibling submodule s1 (RFC 7950 section 5.1: a submodule can reference any
// definition of its module and of all submodules the module includes).  The
// library looks for an unprefixed (or own-prefix) type name only in the
// ancestors of the leaf and in the submodules that the *file of the leaf*
// includes, so every use of g2 - here from the main module - fails with
// "unknown type".
func TestH3C06TypesInGroupingOfSubmodule(t *testing.T) {
	srcs := []struct{ name, text string }{
		{"m.yang", `module m {
  yang-version 1.1;
  namespace "urn:m";
  prefix m;
  include s1;
  include s2;
  typedef tm { type uint8; }
  container top { uses g2; }
}`},
		{"s1.yang", `submodule s1 {
  yang-version 1.1;
  belongs-to m { prefix m; }
  typedef t1 { type int8; }
}`},
		{"s2.yang", `submodule s2 {
  yang-version 1.1;
  belongs-to m { prefix m; }
  grouping g2 {
    leaf a { type t1; }     // typedef of sibling submodule s1
    leaf b { type m:tm; }   // typedef of the main module
  }
}`},
	}
	ms := NewModules()
	for _, s := range srcs {
		if err := ms.Parse(s.text, s.name); err != nil {
			t.Fatalf("parse %s: %v", s.name, err)
		}
	}
	if errs := ms.Process(); len(errs) != 0 {
		t.Fatalf("valid YANG 1.1 module rejected; Process() = %v", errs)
	}
	top := ToEntry(ms.Modules["m"]).Dir["top"]
	for name, want := range map[string]TypeKind{"a": Yint8, "b": Yuint8} {
		e := top.Dir[name]
		if e == nil || e.Type == nil {
			t.Fatalf("/m:top/%s missing or untyped", name)
		}
		if e.Type.Kind != want {
			t.Errorf("/m:top/%s has kind %v, want %v", name, e.Type.Kind, want)
		}
	}
}

package yang

import (
	"sort"
	"strings"
	"testing"
)

// A YANG 1.1 submodule may reference every definition of the module it belongs
// to and of all submodules that module includes, without including anything
// itself (RFC 7950 section 5.1 and 7.1.6).  "uses" of a grouping that a sibling
// submodule or the main module defines must therefore be expanded like any
// other; the library only searches the submodule's own include statements and
// reports "unknown group".
func TestH3C06UsesOfModuleScopeGroupingFromSubmodule(t *testing.T) {
	srcs := []struct{ name, text string }{
		{"m.yang", `module m {
  yang-version 1.1;
  namespace "urn:m";
  prefix m;
  include s1;
  include s2;
  grouping gm { leaf in-main { type string; } }
}`},
		{"s1.yang", `submodule s1 {
  yang-version 1.1;
  belongs-to m { prefix m; }
  grouping g1 { leaf in-s1 { type int8; default 7; } }
}`},
		{"s2.yang", `submodule s2 {
  yang-version 1.1;
  belongs-to m { prefix m; }
  container c {
    uses g1;     // defined in sibling submodule s1
    uses m:gm;   // defined in the main module
  }
}`},
	}
	ms := NewModules()
	for _, s := range srcs {
		if err := ms.Parse(s.text, s.name); err != nil {
			t.Fatalf("parse %s: %v", s.name, err)
		}
	}
	if errs := ms.Process(); len(errs) != 0 {
		t.Fatalf("valid YANG 1.1 module rejected; Process() = %v", errs)
	}
	c := ToEntry(ms.Modules["m"]).Dir["c"]
	if c == nil {
		t.Fatalf("/m:c missing")
	}
	var got []string
	for k, e := range c.Dir {
		got = append(got, k+"@"+e.Namespace().Name)
	}
	sort.Strings(got)
	want := "in-main@urn:m in-s1@urn:m"
	if g := strings.Join(got, " "); g != want {
		t.Fatalf("children of /m:c = %q, want %q", g, want)
	}
}

// Control: the same schema passes once s2 includes s1 (YANG 1.0 style) and the
// grouping of the main module is not referenced - the library implements only
// the YANG 1.0 visibility rule.
func TestH3C06Control10Style(t *testing.T) {
	srcs := []struct{ name, text string }{
		{"m.yang", `module m { yang-version 1.1; namespace "urn:m"; prefix m; include s1; include s2; }`},
		{"s1.yang", `submodule s1 { yang-version 1.1; belongs-to m { prefix m; } grouping g1 { leaf in-s1 { type int8; } } }`},
		{"s2.yang", `submodule s2 { yang-version 1.1; belongs-to m { prefix m; } include s1; container c { uses g1; } }`},
	}
	ms := NewModules()
	for _, s := range srcs {
		if err := ms.Parse(s.text, s.name); err != nil {
			t.Fatalf("parse %s: %v", s.name, err)
		}
	}
	if errs := ms.Process(); len(errs) != 0 {
		t.Fatalf("Process() = %v", errs)
	}
	if ToEntry(ms.Modules["m"]).Dir["c"].Dir["in-s1"] == nil {
		t.Fatalf("in-s1 missing")
	}
}

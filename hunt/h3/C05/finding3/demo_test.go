package yang

import (
	"fmt"
	"regexp"
	"strconv"
	"strings"
	"testing"
)

// TestErrorListOrderedByLineAndColumn processes one module whose leaves use
// unknown types, so that Process returns one error per leaf, and checks that the
// errors come back in the order of their line and column.  The module text is
// the same in every case; only the name the caller gives the source differs.
func TestErrorListOrderedByLineAndColumn(t *testing.T) {
	var sb strings.Builder
	sb.WriteString("module m {\n namespace \"urn:m\";\n prefix m;\n")
	n := 0
	// Lines 4..12: one error per line, so that the list spans one-digit and
	// two-digit line numbers.
	for line := 4; line <= 12; line++ {
		n++
		fmt.Fprintf(&sb, " leaf l%d { type nope%02d; }\n", n, n)
	}
	// Line 13: two errors on one line, at a one-digit and a two-digit column.
	sb.WriteString("leaf p {type nope10; } leaf q { type nope11; }\n")
	sb.WriteString("}\n")
	text := sb.String()

	pos := regexp.MustCompile(`(\d+):(\d+): unknown type: m:nope(\d+)$`)
	for _, name := range []string{
		"m.yang",           // control: an ordinary name
		"",                 // a source without a name: Location() prints "line L:C"
		`C:\models\m.yang`, // an absolute Windows path
		"http://example.com/models/m.yang",
	} {
		ms := NewModules()
		if err := ms.Parse(text, name); err != nil {
			t.Fatalf("%q: %v", name, err)
		}
		errs := ms.Process()
		if len(errs) != 11 {
			t.Fatalf("%q: got %d errors, want 11: %v", name, len(errs), errs)
		}
		var prevL, prevC int
		sorted := true
		var list []string
		for _, err := range errs {
			list = append(list, err.Error())
			m := pos.FindStringSubmatch(err.Error())
			if m == nil {
				t.Fatalf("%q: unexpected error %v", name, err)
			}
			l, _ := strconv.Atoi(m[1])
			c, _ := strconv.Atoi(m[2])
			if l < prevL || l == prevL && c < prevC {
				sorted = false
			}
			prevL, prevC = l, c
		}
		if !sorted {
			t.Errorf("source named %q: the error list is not ordered by line and column:\n  %s", name, strings.Join(list, "\n  "))
		}
	}
}

package yang

import (
	"fmt"
	"io/ioutil"
	"os"
	"path/filepath"
	"sort"
	"strings"
	"testing"
)

// TestLoadOrderChangesImplicitSearchPath loads the same two files, dirA/a.yang
// and dirB/b.yang, in the two possible orders and processes them once.  Both
// import module c, which is not named by the caller; a copy of c.yang lies next
// to each of them (as in vendor model trees that each ship the common modules
// they were written against).  The property demands the same outcome for both
// load orders.
func TestLoadOrderChangesImplicitSearchPath(t *testing.T) {
	root, err := ioutil.TempDir("", "h3-c05-f1")
	if err != nil {
		t.Fatal(err)
	}
	defer os.RemoveAll(root)
	write := func(rel, text string) string {
		p := filepath.Join(root, rel)
		if err := os.MkdirAll(filepath.Dir(p), 0755); err != nil {
			t.Fatal(err)
		}
		if err := ioutil.WriteFile(p, []byte(text), 0644); err != nil {
			t.Fatal(err)
		}
		return p
	}
	a := write("dirA/a.yang", `module a { namespace "urn:a"; prefix a; import c { prefix c; } leaf la { type c:t; } }`)
	b := write("dirB/b.yang", `module b { namespace "urn:b"; prefix b; import c { prefix c; } leaf lb { type c:t; } }`)
	write("dirA/c.yang", `module c { namespace "urn:c"; prefix c; revision 2020-01-01; typedef t { type string; } leaf from-dirA { type t; } }`)
	write("dirB/c.yang", `module c { namespace "urn:c"; prefix c; revision 2021-01-01; typedef t { type int32; } leaf from-dirB { type t; } }`)

	// The current directory is searched first; make sure it has no c.yang.
	empty := filepath.Join(root, "empty")
	if err := os.MkdirAll(empty, 0755); err != nil {
		t.Fatal(err)
	}
	wd, _ := os.Getwd()
	if err := os.Chdir(empty); err != nil {
		t.Fatal(err)
	}
	defer os.Chdir(wd)

	run := func(files ...string) string {
		ms := NewModules()
		for _, f := range files {
			if err := ms.Read(f); err != nil {
				t.Fatalf("Read(%s): %v", f, err)
			}
		}
		if errs := ms.Process(); len(errs) > 0 {
			t.Fatalf("Process: %v", errs)
		}
		var names []string
		for n := range ms.Modules {
			names = append(names, n)
		}
		sort.Strings(names)
		var sb strings.Builder
		for _, n := range names {
			e := ToEntry(ms.Modules[n])
			var ks []string
			for k := range e.Dir {
				ks = append(ks, k)
			}
			sort.Strings(ks)
			fmt.Fprintf(&sb, "%s (%s):", n, ms.Modules[n].FullName())
			for _, k := range ks {
				fmt.Fprintf(&sb, " %s:%s", k, e.Dir[k].Type.Kind)
			}
			fmt.Fprintln(&sb)
		}
		return sb.String()
	}

	ab := run(a, b)
	ba := run(b, a)
	if ab != ba {
		t.Errorf("the same two sources give different trees depending on the order they are loaded in\n--- Read(a), Read(b):\n%s--- Read(b), Read(a):\n%s", ab, ba)
	}
}

package yang

import (
	"fmt"
	"io/ioutil"
	"os"
	"path/filepath"
	"sort"
	"strings"
	"testing"
)

// TestGetModuleOrderChangesBoundRevision asks one Modules for the modules a and
// b, in the two possible orders.  One directory holds everything: a imports m
// without a revision date, b imports m with "revision-date 2020-01-01", and
// both m@2020-01-01.yang and m@2021-01-01.yang are there.  The property
// demands the same resolved trees whichever of a and b is loaded first.
func TestGetModuleOrderChangesBoundRevision(t *testing.T) {
	dir, err := ioutil.TempDir("", "h3-c05-f2")
	if err != nil {
		t.Fatal(err)
	}
	defer os.RemoveAll(dir)
	write := func(name, text string) {
		if err := ioutil.WriteFile(filepath.Join(dir, name), []byte(text), 0644); err != nil {
			t.Fatal(err)
		}
	}
	write("a.yang", `module a { namespace "urn:a"; prefix a; import m { prefix m; } leaf la { type m:t; } }`)
	write("b.yang", `module b { namespace "urn:b"; prefix b; import m { prefix m; revision-date 2020-01-01; } leaf lb { type m:t; } }`)
	write("m@2020-01-01.yang", `module m { namespace "urn:m"; prefix m; revision 2020-01-01; typedef t { type string; } }`)
	write("m@2021-01-01.yang", `module m { namespace "urn:m"; prefix m; revision 2021-01-01; typedef t { type int32; } }`)

	run := func(order ...string) string {
		ms := NewModules()
		ms.AddPath(dir)
		for _, n := range order {
			if _, errs := ms.GetModule(n); len(errs) > 0 {
				t.Fatalf("GetModule(%s): %v", n, errs)
			}
		}
		// Everything is loaded now; process once more and describe the result.
		if errs := ms.Process(); len(errs) > 0 {
			t.Fatalf("Process: %v", errs)
		}
		var names []string
		for n := range ms.Modules {
			names = append(names, n)
		}
		sort.Strings(names)
		var sb strings.Builder
		fmt.Fprintf(&sb, "loaded: %v\n", names)
		for _, n := range []string{"a", "b"} {
			m := ms.Modules[n]
			e := ToEntry(m)
			for _, i := range m.Import {
				want := i.Name
				if i.RevisionDate != nil {
					want += "@" + i.RevisionDate.Name
				}
				fmt.Fprintf(&sb, "%s: import %s -> %s\n", n, want, i.Module.FullName())
			}
			for k, l := range e.Dir {
				fmt.Fprintf(&sb, "%s: leaf %s has type %s\n", n, k, l.Type.Kind)
			}
		}
		return sb.String()
	}

	ab := run("a", "b")
	ba := run("b", "a")
	if ab != ba {
		t.Errorf("the same sources give different trees depending on the order they are loaded in\n--- GetModule(a), GetModule(b):\n%s--- GetModule(b), GetModule(a):\n%s", ab, ba)
	}
	if !strings.Contains(ab, "b: import m@2020-01-01 -> m@2020-01-01") {
		t.Errorf("after GetModule(a), GetModule(b) the import of m pinned to 2020-01-01 is bound to another revision although m@2020-01-01.yang is on the search path:\n%s", ab)
	}
}

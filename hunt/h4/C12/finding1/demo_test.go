package yang

import (
	"testing"
)

// The implicit case that FixChoice inserts around a shorthand choice member
// takes over the member's own config statement.  The case node carries no
// config statement (a case cannot have one, RFC 7950 7.9.2), none of its
// ancestors does, so by the property it is read-write -- as it is when the
// same schema is written with an explicit case statement.
func TestImplicitCaseTakesOverConfigOfItsMember(t *testing.T) {
	t.Run("shorthand-vs-explicit-case", implicitCaseVsExplicitCase)
	t.Run("after-deviation", implicitCaseKeepsConfigAfterDeviation)
}

func implicitCaseVsExplicitCase(t *testing.T) {
	const head = `module m { namespace "urn:m"; prefix m; container top { choice ch { `
	const tail = ` leaf b { type string; } } } }`
	forms := []struct {
		name, text string
	}{
		{"explicit case", head + `case a { leaf a { type string; config false; } }` + tail},
		{"shorthand", head + `leaf a { type string; config false; }` + tail},
	}
	for _, f := range forms {
		ms := NewModules()
		if err := ms.Parse(f.text, "m.yang"); err != nil {
			t.Fatalf("%s: %v", f.name, err)
		}
		if errs := ms.Process(); len(errs) > 0 {
			t.Fatalf("%s: %v", f.name, errs)
		}
		top := ToEntry(ms.Modules["m"]).Dir["top"]
		ch := top.Dir["ch"]
		cs := ch.Dir["a"]
		if cs == nil || cs.Kind != CaseEntry {
			t.Fatalf("%s: /top/ch/a is not a case: %v", f.name, cs)
		}
		leaf := cs.Dir["a"]
		if leaf == nil || !leaf.ReadOnly() {
			t.Fatalf("%s: leaf /top/ch/a/a must be read-only", f.name)
		}
		// Reference: nearest explicit config statement on the path of the
		// case: case a has none, choice ch none, container top none.
		for _, e := range []*Entry{top, ch, cs} {
			if e.ReadOnly() {
				t.Errorf("%s: %s (%v) ReadOnly() = true; no node on its path has a config statement, want false", f.name, e.Path(), e.Kind)
			}
		}
	}
}

// The copy is taken before deviations are applied, so it also survives the
// removal of the statement it was copied from: the case says read-only while
// its only member is explicitly config true.
func implicitCaseKeepsConfigAfterDeviation(t *testing.T) {
	ms := NewModules()
	for name, text := range map[string]string{
		"m.yang": `module m { namespace "urn:m"; prefix m; container top { choice ch { leaf a { type string; config false; } leaf b { type string; } } } }`,
		"d.yang": `module d { namespace "urn:d"; prefix d; import m { prefix m; } deviation "/m:top/m:ch/m:a/m:a" { deviate replace { config true; } } }`,
	} {
		if err := ms.Parse(text, name); err != nil {
			t.Fatal(err)
		}
	}
	if errs := ms.Process(); len(errs) > 0 {
		t.Fatal(errs)
	}
	cs := ToEntry(ms.Modules["m"]).Dir["top"].Dir["ch"].Dir["a"]
	leaf := cs.Dir["a"]
	if leaf.ReadOnly() {
		t.Fatalf("leaf %s: deviation replaced config by true, want read-write", leaf.Path())
	}
	if cs.ReadOnly() {
		t.Errorf("case %s ReadOnly() = true, but no config statement on its path says false (its only member %s is config true)", cs.Path(), leaf.Path())
	}
}

package yang

import (
	"testing"
)

// Submodule s belongs to module b.  Module a includes it all the same
// (RFC 7950 7.1.6: "Modules are only allowed to include submodules that belong
// to that module, as defined by the belongs-to statement").  Nothing compares
// the include with the belongs-to statement: Process is clean, the content of
// s is placed in a's tree and attributed to a -- and b, the owner, which
// includes s correctly, does not receive it at all, because the
// merged-once bookkeeping already counts s as merged into "its" module.
func TestIncludeIgnoresBelongsTo(t *testing.T) {
	t.Run("owner-loses-content", includeOfForeignSubmoduleTakesOverItsContent)
	t.Run("simplest", includeIgnoresBelongsTo)
}

func includeOfForeignSubmoduleTakesOverItsContent(t *testing.T) {
	ms := NewModules()
	for _, src := range []struct{ name, text string }{
		{"b.yang", `module b { namespace "urn:b"; prefix b; include s; container c { leaf x { type string; } } }`},
		{"a.yang", `module a { namespace "urn:a"; prefix a; include s; }`},
		{"s.yang", `submodule s { belongs-to b { prefix b; } container sc { leaf y { type string; } } }`},
	} {
		if err := ms.Parse(src.text, src.name); err != nil {
			t.Fatal(err)
		}
	}
	errs := ms.Process()
	if len(errs) > 0 {
		// Reporting the include is the right answer.
		t.Logf("Process reports: %v", errs)
		return
	}

	a, b, s := ToEntry(ms.Modules["a"]), ToEntry(ms.Modules["b"]), ToEntry(ms.SubModules["s"])

	// Reference: content written in a submodule belongs to the module the
	// submodule belongs to: /sc and /sc/y are b's, in namespace urn:b.
	if sc := b.Dir["sc"]; sc == nil {
		t.Errorf("module b includes its submodule s, but container sc of s is not in b's tree (b has %d top-level nodes)", len(b.Dir))
	}
	if sc := a.Dir["sc"]; sc != nil {
		y := sc.Dir["y"]
		im, _ := y.InstantiatingModule()
		t.Errorf("content of submodule s (belongs-to b) is in the tree of module a: %s has Namespace %q, InstantiatingModule %q; want urn:b / b (or an error from Process)",
			y.Path(), y.Namespace().Name, im)
	}
	// The very same statement is attributed to two modules, depending on
	// which of the trees Process built one looks at.
	if sc := s.Dir["sc"]; sc != nil && a.Dir["sc"] != nil {
		if got, other := sc.Namespace().Name, a.Dir["sc"].Namespace().Name; got != other {
			t.Errorf("container sc: Namespace %q in the submodule's tree, %q in the tree of module a", got, other)
		}
	}
}

// The simplest form: only the wrong includer is there besides the owner.
func includeIgnoresBelongsTo(t *testing.T) {
	ms := NewModules()
	for _, src := range []struct{ name, text string }{
		{"a.yang", `module a { namespace "urn:a"; prefix a; include s; }`},
		{"b.yang", `module b { namespace "urn:b"; prefix b; }`},
		{"s.yang", `submodule s { belongs-to b { prefix b; } leaf y { type string; } }`},
	} {
		if err := ms.Parse(src.text, src.name); err != nil {
			t.Fatal(err)
		}
	}
	if errs := ms.Process(); len(errs) > 0 {
		t.Logf("Process reports: %v", errs)
		return
	}
	if y := ToEntry(ms.Modules["a"]).Dir["y"]; y != nil {
		im, _ := y.InstantiatingModule()
		t.Errorf("leaf y, written in a submodule of b: Namespace %q, InstantiatingModule %q; want urn:b / b (or an error from Process)", y.Namespace().Name, im)
	}
}

package yang

import "testing"

// An rpc that writes no input gets its input entry from an augment: Find
// creates the entry while the augment target is resolved.  The created entry
// has no AST node (Entry.Node == nil), so an absolute prefixed path looked up
// FROM it cannot resolve its first prefix and returns nothing, although the
// same path from every other node of the tree (its own child included, and the
// written input of the sibling rpc) returns the node.
func TestFindFromImplicitInput(t *testing.T) {
	const src = `module a { yang-version 1.1; namespace "urn:a"; prefix a;
  container c { leaf l { type string; } }
  rpc r;
  rpc w { input { leaf i { type string; } } }
  augment "/a:r/a:input" { leaf x { type string; } }
  augment "/a:c" { action act; }
  augment "/a:c/a:act/a:output" { leaf y { type string; } }
}`
	ms := NewModules()
	if err := ms.Parse(src, "a.yang"); err != nil {
		t.Fatal(err)
	}
	if errs := ms.Process(); len(errs) > 0 {
		t.Fatalf("Process: %v", errs)
	}
	root := ToEntry(ms.Modules["a"])
	want := root.Dir["c"].Dir["l"]
	if want == nil {
		t.Fatal("no /a/c/l in the tree")
	}

	in := root.Dir["r"].RPC.Input              // grafted by the first augment
	out := root.Dir["c"].Dir["act"].RPC.Output // grafted by the third augment
	written := root.Dir["w"].RPC.Input         // written in the source
	if in == nil || in.Dir["x"] == nil || out == nil || out.Dir["y"] == nil || written == nil {
		t.Fatal("tree does not have the expected shape")
	}

	// Controls: the relative spelling works from the created entries (so they
	// are linked into the tree), and the absolute spelling works from their
	// neighbours.
	if got := in.Find("../../c/l"); got != want {
		t.Fatalf("control: relative path from %s = %v", in.Path(), got)
	}
	for _, s := range []*Entry{root, want, written, written.Dir["i"], in.Dir["x"], out.Dir["y"]} {
		if got := s.Find("/a:c/a:l"); got != want {
			t.Fatalf("control: Find(/a:c/a:l) from %s = %v, want %s", s.Path(), got, want.Path())
		}
	}

	for _, s := range []*Entry{in, out} {
		if got := s.Find("/a:c/a:l"); got != want {
			t.Errorf("from %s (Node == nil: %v): Find(%q) = %v, want the entry %s",
				s.Path(), s.Node == nil, "/a:c/a:l", got, want.Path())
		}
		// the node's own absolute path, from itself
		self := "/a:r/a:input"
		if s == out {
			self = "/a:c/a:act/a:output"
		}
		if got := s.Find(self); got != s {
			t.Errorf("from %s: Find(%q) = %v, want that very node", s.Path(), self, got)
		}
	}
}

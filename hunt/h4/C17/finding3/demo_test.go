package yang

import "testing"

// A node that module b grafts into the tree of module a (augment) is a start
// node "of module b": Find resolves the first prefix of an absolute path
// through b's imports, and "/b:c/b:bonly" from it reaches b's tree.  The same
// path with b's own prefix left out (RFC 7950 6.5: references to the current
// module MAY use a prefix) is not looked up in b's tree but in the tree the
// start node happens to hang in (a's): the first-step module switch is only
// made when the first step has a prefix - or when the context node was written
// in a SUBmodule (commit c84262d), so the outcome also differs between a node
// grafted by b and a node grafted by b's submodule.
func TestFindUnprefixedFromGraftedNode(t *testing.T) {
	srcs := []struct{ name, text string }{
		{"a.yang", `module a { yang-version 1.1; namespace "urn:a"; prefix a;
  container c { leaf l { type string; } }
}`},
		{"b.yang", `module b { yang-version 1.1; namespace "urn:b"; prefix b;
  import a { prefix a; }
  include bs;
  container c { leaf bonly { type string; } }
  augment "/a:c" { leaf y { type string; } }
}`},
		{"bs.yang", `submodule bs { yang-version 1.1; belongs-to b { prefix b; }
  import a { prefix a; }
  augment "/a:c" { leaf z { type string; } }
}`},
	}
	ms := NewModules()
	for _, s := range srcs {
		if err := ms.Parse(s.text, s.name); err != nil {
			t.Fatal(err)
		}
	}
	if errs := ms.Process(); len(errs) > 0 {
		t.Fatalf("Process: %v", errs)
	}
	ta, tb := ToEntry(ms.Modules["a"]), ToEntry(ms.Modules["b"])
	y, z := ta.Dir["c"].Dir["y"], ta.Dir["c"].Dir["z"] // written in b and in b's submodule
	bonly := tb.Dir["c"].Dir["bonly"]
	if y == nil || z == nil || bonly == nil {
		t.Fatal("tree does not have the expected shape")
	}

	// Controls: the prefixed spelling from both grafted nodes, and the
	// unprefixed spelling from the node the submodule wrote.
	for _, s := range []*Entry{y, z} {
		if got := s.Find("/b:c/b:bonly"); got != bonly {
			t.Fatalf("control: from %s Find(/b:c/b:bonly) = %v", s.Path(), got)
		}
	}
	if got := z.Find("/c/bonly"); got != bonly {
		t.Fatalf("control: from %s (written in submodule bs) Find(/c/bonly) = %v", z.Path(), got)
	}

	// The node written in module b itself.
	if got := y.Find("/c/bonly"); got != bonly {
		t.Errorf("from %s (written in module b): Find(%q) = %v, want b's %s as with the prefix b: and as from %s",
			y.Path(), "/c/bonly", got, bonly.Path(), z.Path())
	}
	// "/c/l": module b has no /c/l, the step l names no child of b's c.
	if got := y.Find("/c/l"); got != nil {
		t.Errorf("from %s (written in module b): Find(%q) = %s of module %s, want nothing (b's c has no child l; from %s it is %v)",
			y.Path(), "/c/l", got.Path(), RootNode(got.Node).Name, z.Path(), z.Find("/c/l"))
	}
}

package yang

import (
	"strings"
	"testing"
)

// A step "<prefix>:." names no child of any node ("." is not an identifier),
// yet Find strips the prefix, is left with "." and stays where it is, so the
// lookup returns the node reached so far.  Commit a5c75fd made augment and
// deviation paths with a bare "." or ".." step an error; the prefixed spelling
// passes that check too, and the augment / deviation is applied.
func TestFindPrefixedDotStep(t *testing.T) {
	const src = `module a { yang-version 1.1; namespace "urn:a"; prefix a;
  container c { leaf l { type string; } }
  augment "/a:c/a:." { leaf sneaked { type string; } }
  deviation "/a:c/a:./a:l/a:." { deviate add { default "dflt"; } }
}`
	ms := NewModules()
	if err := ms.Parse(src, "a.yang"); err != nil {
		t.Fatal(err)
	}
	errs := ms.Process()
	root := ToEntry(ms.Modules["a"])
	c := root.Dir["c"]

	// 1. plain lookups
	for _, p := range []string{"/a:c/a:.", "/a:c/a:l/a:.", "/a:.", "/a:c/a:./a:l", "c/a:."} {
		if got := root.Find(p); got != nil {
			t.Errorf("Find(%q) = %s, want nothing: the step %q names no child", p, got.Path(), "a:.")
		}
	}
	// controls: other non-names are refused
	for _, p := range []string{"/a:c/a:..", "/a:c/a:nonexistent", "/a:c/a:"} {
		if got := root.Find(p); got != nil {
			t.Errorf("control: Find(%q) = %s, want nothing", p, got.Path())
		}
	}

	// 2. what is built on the lookup
	var sawAug, sawDev bool
	for _, err := range errs {
		if strings.Contains(err.Error(), "augment") {
			sawAug = true
		}
		if strings.Contains(err.Error(), "deviat") {
			sawDev = true
		}
	}
	if !sawAug || c.Dir["sneaked"] != nil {
		t.Errorf(`augment "/a:c/a:." was applied (c has child "sneaked": %v) and not reported; Process errors: %v`,
			c.Dir["sneaked"] != nil, errs)
	}
	if !sawDev || len(c.Dir["l"].Default) != 0 {
		t.Errorf(`deviation "/a:c/a:./a:l/a:." was applied (default of l: %q) and not reported; Process errors: %v`,
			c.Dir["l"].Default, errs)
	}
}

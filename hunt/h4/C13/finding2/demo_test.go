package yang

import (
	"sort"
	"strings"
	"testing"
)

// TestH4C13ModuleEntryLacksSubmoduleIdentities: Entry.Identities of a module
// entry lists "the identities that are defined in this context".  The
// identities an included submodule defines belong to the module (they are
// filed as m:<name> in the identity dictionary, and another module refers to
// them as <prefix-of-m>:<name>), but ToEntry(m).Identities only lists what is
// written in the module's own file: moving an identity into a submodule
// makes it disappear from the module entry.
func TestH4C13ModuleEntryLacksSubmoduleIdentities(t *testing.T) {
	inline := `module m { namespace "urn:m"; prefix m;
	  identity base-id;
	  identity derived-a { base base-id; }
	  identity derived-b { base m:base-id; }
	  leaf l { type identityref { base base-id; } }
	}`
	mod := `module m { namespace "urn:m"; prefix m;
	  include s1;
	  identity base-id;
	  leaf l { type identityref { base base-id; } }
	}`
	s1 := `submodule s1 { belongs-to m { prefix m; }
	  include s2;
	  identity derived-a { base base-id; }
	}`
	s2 := `submodule s2 { belongs-to m { prefix m; }
	  identity derived-b { base m:base-id; }
	}`

	identities := func(srcs ...string) (listed, values string) {
		ms := NewModules()
		for i, src := range srcs {
			if err := ms.Parse(src, string(rune('a'+i))+".yang"); err != nil {
				t.Fatal(err)
			}
		}
		if errs := ms.Process(); len(errs) > 0 {
			t.Fatalf("Process: %v", errs)
		}
		e := ToEntry(ms.Modules["m"])
		var ids, vals []string
		for _, i := range e.Identities {
			ids = append(ids, i.Name)
		}
		sort.Strings(ids)
		for _, v := range e.Dir["l"].Type.IdentityBase.Values {
			vals = append(vals, v.Name)
		}
		return strings.Join(ids, " "), strings.Join(vals, " ")
	}

	wantIDs, wantVals := identities(inline)
	gotIDs, gotVals := identities(mod, s1, s2)

	// The identities are part of the module either way: the values of the
	// identityref are the same ...
	if gotVals != wantVals {
		t.Errorf("values of /m/l: split %q, inline %q", gotVals, wantVals)
	}
	// ... but the module entry does not list those its submodules define.
	if gotIDs != wantIDs {
		t.Errorf("ToEntry(m).Identities: module split into submodules lists [%s], the same module written in one piece lists [%s]", gotIDs, wantIDs)
	}
}

package yang

import (
	"io/ioutil"
	"os"
	"path/filepath"
	"testing"
)

// TestH4C13RecursiveSearchOrderDependsOnDirectoryName: the search path entry
// "root/..." stands for root and all directories below it.  root holds
// m.yang (revision 2021-01-01); one directory below root holds an old
// m@2000-01-01.yang.  Which of the two files is loaded for "m" depends on
// whether the NAME of that subdirectory sorts before or after "m.yang".
func TestH4C13RecursiveSearchOrderDependsOnDirectoryName(t *testing.T) {
	load := func(t *testing.T, files map[string]string) string {
		root, err := ioutil.TempDir("", "h4c13")
		if err != nil {
			t.Fatal(err)
		}
		defer os.RemoveAll(root)
		for rel, rev := range files {
			p := filepath.Join(root, rel)
			if err := os.MkdirAll(filepath.Dir(p), 0755); err != nil {
				t.Fatal(err)
			}
			src := `module m { namespace "urn:m"; prefix m; revision ` + rev + `; }`
			if err := ioutil.WriteFile(p, []byte(src), 0644); err != nil {
				t.Fatal(err)
			}
		}
		ms := NewModules()
		ms.AddPath(filepath.Join(root, "..."))
		if err := ms.Parse(`module u { namespace "urn:u"; prefix u; import m { prefix m; } }`, "u.yang"); err != nil {
			t.Fatal(err)
		}
		if errs := ms.Process(); len(errs) > 0 {
			t.Fatalf("Process: %v", errs)
		}
		return ms.Modules["u"].Import[0].Module.FullName()
	}

	t.Run("name.yang against a dated file one level down", func(t *testing.T) {
		a := load(t, map[string]string{"m.yang": "2021-01-01", "a/m@2000-01-01.yang": "2000-01-01"})
		z := load(t, map[string]string{"m.yang": "2021-01-01", "z/m@2000-01-01.yang": "2000-01-01"})
		if a != z {
			t.Errorf("import m is bound to %s when the subdirectory is called a, and to %s when it is called z", a, z)
		}
		// root is the first directory of root/... and holds m.yang.
		if a != "m@2021-01-01" {
			t.Errorf("subdirectory a: import m is bound to %s; root/m.yang (m@2021-01-01) exists", a)
		}
	})
	t.Run("name.yang against name.yang one level down", func(t *testing.T) {
		a := load(t, map[string]string{"m.yang": "2021-01-01", "a/m.yang": "2000-01-01"})
		z := load(t, map[string]string{"m.yang": "2021-01-01", "z/m.yang": "2000-01-01"})
		if a != z {
			t.Errorf("import m is bound to %s when the subdirectory is called a, and to %s when it is called z", a, z)
		}
	})
	t.Run("dated file against an older dated file one level down", func(t *testing.T) {
		// root holds a candidate (and the newest one of the whole tree);
		// the older file below it is chosen whatever the subdirectory is
		// called.
		for _, sub := range []string{"a", "z"} {
			got := load(t, map[string]string{"m@2021-01-01.yang": "2021-01-01", sub + "/m@2000-01-01.yang": "2000-01-01"})
			if got != "m@2021-01-01" {
				t.Errorf("subdirectory %s: import m is bound to %s; root/m@2021-01-01.yang is in the first directory of root/... and has the latest date", sub, got)
			}
		}
	})
}

package yang

import (
	"fmt"
	"sort"
	"strings"
	"testing"
)

// TestH4C13SubmoduleHeaderLeaksIntoDataNodes loads the same module twice:
// once written in one piece, once with its body moved into a submodule.
// The data nodes must be the same (RFC 7950 5.1: a submodule "contributes
// definitions to a module"; the property: "exactly as if they were written
// there").  On the unchanged library every top-level data node that comes
// from the submodule additionally carries
//   - in Entry.Exts the extension statements written at the top level of
//     the submodule (here e:version "1.0", the usual openconfig-version
//     idiom), as if the node itself had been annotated with them, and
//   - in Entry.Extra the header statements of the submodule (belongs-to,
//     revision, organization, contact, reference, feature, extension).
func TestH4C13SubmoduleHeaderLeaksIntoDataNodes(t *testing.T) {
	const ext = `module e { namespace "urn:e"; prefix e;
	  extension version { argument v; }
	  extension note { argument v; }
	}`
	const body = `
	  feature f;
	  extension loc { argument a; }
	  container c { e:note "on c"; leaf x { type string; } }
	  leaf l { type string; reference "leaf ref"; }
	  list ls { key k; leaf k { type string; } }
	  rpc r { input { leaf i { type string; } } }
	`
	const header = `
	  organization "org"; contact "me"; reference "module ref";
	  revision 2020-01-01;
	  e:version "1.0";
	`
	inline := `module m { namespace "urn:m"; prefix m; import e { prefix e; }` + header + body + `}`
	mod := `module m { namespace "urn:m"; prefix m; import e { prefix e; } include s;` + header + `}`
	sub := `submodule s { belongs-to m { prefix m; } import e { prefix e; }` + header + body + `}`

	describe := func(srcs map[string]string) map[string]string {
		ms := NewModules()
		for _, name := range []string{"e.yang", "m.yang", "s.yang"} {
			if src, ok := srcs[name]; ok {
				if err := ms.Parse(src, name); err != nil {
					t.Fatalf("%s: %v", name, err)
				}
			}
		}
		if errs := ms.Process(); len(errs) > 0 {
			t.Fatalf("Process: %v", errs)
		}
		out := map[string]string{}
		for name, e := range ToEntry(ms.Modules["m"]).Dir {
			var exts, extra []string
			for _, x := range e.Exts {
				exts = append(exts, fmt.Sprintf("%s %q", x.Keyword, x.Argument))
			}
			for k, v := range e.Extra {
				extra = append(extra, fmt.Sprintf("%s(%d)", k, len(v)))
			}
			sort.Strings(extra)
			out[name] = fmt.Sprintf("Exts=[%s] Extra=[%s]", strings.Join(exts, ", "), strings.Join(extra, " "))
		}
		return out
	}

	want := describe(map[string]string{"e.yang": ext, "m.yang": inline})
	got := describe(map[string]string{"e.yang": ext, "m.yang": mod, "s.yang": sub})

	var names []string
	for n := range want {
		names = append(names, n)
	}
	sort.Strings(names)
	if len(got) != len(want) {
		t.Errorf("split module has %d top-level nodes, inline module has %d", len(got), len(want))
	}
	for _, n := range names {
		if got[n] != want[n] {
			t.Errorf("data node /m/%s differs when it is written in an included submodule:\n   inline: %s\n   split:  %s", n, want[n], got[n])
		}
	}
}

package yang

// Demo: Modules.Process needs time cubic in the length of a chain of identity
// derivations; a valid module of 120 kB keeps it busy for minutes, one of
// 500 kB for hours. Copy this file into pkg/yang and run
//
//	go test -vet=off -count=1 -run TestIdentityChainCubic ./pkg/yang/

import (
	"bytes"
	"fmt"
	"os"
	"os/exec"
	"strconv"
	"testing"
	"time"
)

// identityChain returns a valid module with n identities, each derived from
// the next:
//
//	identity i0 { base i1; }
//	identity i1 { base i2; }
//	...
//	identity i<n-1>;
func identityChain(n int) string {
	var b bytes.Buffer
	b.WriteString("module a { namespace urn:a; prefix a;\n")
	for i := 0; i < n; i++ {
		if i == n-1 {
			fmt.Fprintf(&b, "identity i%d;\n", i)
		} else {
			fmt.Fprintf(&b, "identity i%d { base i%d; }\n", i, i+1)
		}
	}
	b.WriteString("}\n")
	return b.String()
}

// referenceClosure computes, as Process does, for every identity the list of
// all identities derived from it, from the direct derivations: the whole
// result for a chain of n has n(n-1)/2 members.
func referenceClosure(n int) int {
	children := make([][]int, n)
	for i := 0; i < n-1; i++ {
		children[i+1] = append(children[i+1], i)
	}
	total := 0
	seen := make([]int, n) // seen[j] == i+1: j was visited for identity i
	for i := 0; i < n; i++ {
		i := i
		var all []int
		var visit func(int)
		visit = func(j int) {
			if seen[j] == i+1 {
				return
			}
			seen[j] = i + 1
			all = append(all, j)
			for _, c := range children[j] {
				visit(c)
			}
		}
		for _, c := range children[i] {
			visit(c)
		}
		total += len(all)
	}
	return total
}

func TestIdentityChainCubic(t *testing.T) {
	if ns := os.Getenv("IDCHAIN_CHILD_N"); ns != "" {
		n, _ := strconv.Atoi(ns)
		ms := NewModules()
		if err := ms.Parse(identityChain(n), "a.yang"); err != nil {
			fmt.Println("parse:", err)
			os.Exit(5)
		}
		start := time.Now()
		errs := ms.Process()
		fmt.Printf("n=%d: Process returned %d error(s) after %v\n", n, len(errs), time.Since(start))
		os.Exit(0)
	}

	// How the time grows (in process; a few seconds in all).
	var prev time.Duration
	for _, n := range []int{250, 500, 1000} {
		ms := NewModules()
		src := identityChain(n)
		if err := ms.Parse(src, "a.yang"); err != nil {
			t.Fatal(err)
		}
		start := time.Now()
		if errs := ms.Process(); len(errs) != 0 {
			t.Fatalf("n=%d: the module is valid, got %v", n, errs)
		}
		d := time.Since(start)
		if got, want := len(ms.Modules["a"].Identity[n-1].Values), n-1; got != want {
			t.Fatalf("n=%d: the last identity has %d derived identities, want %d", n, got, want)
		}
		ratio := ""
		if prev > 0 {
			ratio = fmt.Sprintf(" (x%.1f for twice the input)", float64(d)/float64(prev))
		}
		t.Logf("n=%4d: %6d bytes, Process took %v%s", n, len(src), d, ratio)
		prev = d
	}

	const n = 4000
	src := identityChain(n)
	start := time.Now()
	total := referenceClosure(n)
	ref := time.Since(start)
	t.Logf("n=%d: %d bytes; a plain depth-first closure of the same derivations (%d members in all) takes %v", n, len(src), total, ref)

	// The same module in a child process with a wall-clock bound that is
	// generous for an output of 8 million list members: 20 seconds.
	const bound = 20 * time.Second
	cmd := exec.Command(os.Args[0], "-test.run", "^TestIdentityChainCubic$")
	cmd.Env = append(os.Environ(), "IDCHAIN_CHILD_N="+strconv.Itoa(n))
	done := make(chan struct{})
	var out []byte
	var err error
	go func() { out, err = cmd.CombinedOutput(); close(done) }()
	select {
	case <-done:
		if err != nil {
			t.Fatalf("child failed: %v\n%s", err, out)
		}
		t.Logf("child: %s", out)
	case <-time.After(bound):
		cmd.Process.Kill()
		<-done
		t.Errorf("Process did not return within %v for a valid module of %d bytes (%d identities in a chain); the reference closure took %v", bound, len(src), n, ref)
	}
}

package yang

// Demo: one unknown type inside k nested grouping definitions makes
// Modules.Process store 2^k instances of the one error and, for k around 30,
// exhaust memory. Copy this file into pkg/yang and run
//
//	go test -vet=off -count=1 -run TestNestedGroupingErrorBomb ./pkg/yang/

import (
	"bytes"
	"fmt"
	"os"
	"os/exec"
	"runtime"
	"strconv"
	"testing"
	"time"
)

// errorBomb returns a module with k+1 groupings, each defined inside the
// next, each of which uses the one defined inside it. The innermost has a
// leaf of an unknown type: the module has exactly one mistake.
//
//	module a { namespace urn:a; prefix a;
//	  grouping x2 {
//	    grouping x1 {
//	      grouping x0 { leaf bad { type nope; } }
//	      container c1 { uses x0; }
//	    }
//	    container c2 { uses x1; }
//	  }
//	}
func errorBomb(k int) string {
	var b bytes.Buffer
	b.WriteString("module a { namespace urn:a; prefix a;\n")
	for i := k; i >= 1; i-- {
		fmt.Fprintf(&b, "grouping x%d {\n", i)
	}
	b.WriteString("grouping x0 { leaf bad { type nope; } }\n")
	for i := 1; i <= k; i++ {
		fmt.Fprintf(&b, "container c%d { uses x%d; }\n}\n", i, i-1)
	}
	b.WriteString("}\n")
	return b.String()
}

func countErrorInstances(e *Entry) int {
	if e == nil {
		return 0
	}
	n := len(e.Errors)
	for _, c := range e.Dir {
		n += countErrorInstances(c)
	}
	return n
}

func TestNestedGroupingErrorBomb(t *testing.T) {
	if ks := os.Getenv("ERRORBOMB_CHILD_K"); ks != "" {
		// Child: process the module with a watchdog on the heap, so
		// that the machine is not actually driven out of memory.
		k, _ := strconv.Atoi(ks)
		go func() {
			var m runtime.MemStats
			for {
				runtime.ReadMemStats(&m)
				if m.HeapAlloc > 1<<30 {
					fmt.Printf("heap grew beyond 1 GiB (%d MiB) while processing a %d byte module\n", m.HeapAlloc>>20, len(errorBomb(k)))
					os.Exit(3)
				}
				time.Sleep(10 * time.Millisecond)
			}
		}()
		ms := NewModules()
		if err := ms.Parse(errorBomb(k), "a.yang"); err != nil {
			fmt.Println("parse:", err)
			os.Exit(5)
		}
		errs := ms.Process()
		fmt.Printf("Process returned %d error(s)\n", len(errs))
		os.Exit(0)
	}

	// Part 1, in process and deterministic: the number of error values the
	// entry tree holds for the one mistake doubles with every level.
	prev := 0
	for _, k := range []int{4, 8, 12, 16, 18} {
		src := errorBomb(k)
		ms := NewModules()
		if err := ms.Parse(src, "a.yang"); err != nil {
			t.Fatal(err)
		}
		errs := ms.Process()
		if len(errs) != 1 {
			t.Fatalf("k=%d: got %d errors from Process, want the 1 unknown type: %v", k, len(errs), errs)
		}
		n := countErrorInstances(ToEntry(ms.Modules["a"]))
		t.Logf("k=%2d: module of %4d bytes, 1 error reported, %7d error values stored in the module's entry tree", k, len(src), n)
		prev = n
	}
	if prev > 1000 {
		t.Errorf("a module of %d bytes with ONE mistake keeps %d error values (2^k for k nested groupings): memory and time of Process are exponential in the nesting depth", len(errorBomb(18)), prev)
	}

	// Part 2, in a child process: 34 levels (a 1.6 kB module).  The child
	// stops itself once its heap passes 1 GiB; without the watchdog it
	// ends in "fatal error: runtime: out of memory" (or the OOM killer).
	cmd := exec.Command(os.Args[0], "-test.run", "^TestNestedGroupingErrorBomb$")
	cmd.Env = append(os.Environ(), "ERRORBOMB_CHILD_K=34")
	done := make(chan struct{})
	var out []byte
	var err error
	go func() { out, err = cmd.CombinedOutput(); close(done) }()
	select {
	case <-done:
	case <-time.After(120 * time.Second):
		cmd.Process.Kill()
		<-done
		t.Errorf("Process did not return within 120s for a %d byte module", len(errorBomb(34)))
		return
	}
	if err != nil {
		t.Errorf("processing a %d byte module with one unknown type did not end in returned errors: %v\n%s", len(errorBomb(34)), err, out)
	}
}

package yang

// Demo: resolving a union compares every pair of its members with a
// reflection based deep comparison (go-cmp) of their enum tables: about 40
// microseconds per pair. A valid module of 32 kB keeps Process busy for 20
// seconds, one of 130 kB for more than 5 minutes. Copy this file into
// pkg/yang and run
//
//	go test -vet=off -count=1 -run TestUnionMembersPairwiseDeepCompare ./pkg/yang/

import (
	"bytes"
	"fmt"
	"os"
	"os/exec"
	"sort"
	"strconv"
	"strings"
	"testing"
	"time"
)

// enumUnion returns a valid module with one leaf whose type is a union of n
// enumerations that differ in the name of their one enum:
//
//	leaf x {
//	  type union {
//	    type enumeration { enum e0; }
//	    type enumeration { enum e1; }
//	    ...
//	  }
//	}
func enumUnion(n int) string {
	var b bytes.Buffer
	b.WriteString("module a { namespace urn:a; prefix a;\nleaf x { type union {\n")
	for i := 0; i < n; i++ {
		fmt.Fprintf(&b, "type enumeration { enum e%d; }\n", i)
	}
	b.WriteString("}}}\n")
	return b.String()
}

// referenceDedup removes duplicate members the way the resolver means to (a
// member equal to an earlier one is dropped), keyed by a canonical text of the
// member instead of comparing every pair.
func referenceDedup(members []*YangType) int {
	seen := map[string]bool{}
	kept := 0
	for _, m := range members {
		var parts []string
		if m.Enum != nil {
			for name, v := range m.Enum.ToInt {
				parts = append(parts, fmt.Sprintf("%s=%d", name, v))
			}
			sort.Strings(parts)
		}
		key := fmt.Sprint(m.Kind, m.Units, m.Default, m.HasDefault, m.FractionDigits, m.Length, m.Range, m.Pattern, m.POSIXPattern, m.Path, m.OptionalInstance, "|", strings.Join(parts, ","))
		if !seen[key] {
			seen[key] = true
			kept++
		}
	}
	return kept
}

func TestUnionMembersPairwiseDeepCompare(t *testing.T) {
	if ns := os.Getenv("ENUMUNION_CHILD_N"); ns != "" {
		n, _ := strconv.Atoi(ns)
		ms := NewModules()
		if err := ms.Parse(enumUnion(n), "a.yang"); err != nil {
			fmt.Println("parse:", err)
			os.Exit(5)
		}
		start := time.Now()
		errs := ms.Process()
		fmt.Printf("n=%d: Process returned %d error(s) after %v\n", n, len(errs), time.Since(start))
		os.Exit(0)
	}

	// How the time grows (in process, about 10 seconds in all).
	var prev time.Duration
	var members []*YangType
	for _, n := range []int{150, 300, 600} {
		ms := NewModules()
		src := enumUnion(n)
		if err := ms.Parse(src, "a.yang"); err != nil {
			t.Fatal(err)
		}
		start := time.Now()
		if errs := ms.Process(); len(errs) != 0 {
			t.Fatalf("n=%d: the module is valid, got %v", n, errs)
		}
		d := time.Since(start)
		members = ToEntry(ms.Modules["a"]).Dir["x"].Type.Type
		if len(members) != n {
			t.Fatalf("n=%d: the union has %d members", n, len(members))
		}
		ratio := ""
		if prev > 0 {
			ratio = fmt.Sprintf(" (x%.1f for twice the input)", float64(d)/float64(prev))
		}
		t.Logf("n=%4d: %6d bytes, Process took %v, %.0f microseconds per pair of members%s", n, len(src), d, float64(d.Microseconds())/float64(n*(n-1)/2), ratio)
		prev = d
	}
	start := time.Now()
	kept := referenceDedup(members)
	t.Logf("removing duplicates among the %d resolved members by a canonical key takes %v (%d kept)", len(members), time.Since(start), kept)

	// A union of 2000 members (65 kB) in a child process with a wall-clock
	// bound of 20 seconds.
	const n = 2000
	const bound = 20 * time.Second
	src := enumUnion(n)
	cmd := exec.Command(os.Args[0], "-test.run", "^TestUnionMembersPairwiseDeepCompare$")
	cmd.Env = append(os.Environ(), "ENUMUNION_CHILD_N="+strconv.Itoa(n))
	done := make(chan struct{})
	var out []byte
	var err error
	go func() { out, err = cmd.CombinedOutput(); close(done) }()
	select {
	case <-done:
		if err != nil {
			t.Fatalf("child failed: %v\n%s", err, out)
		}
		t.Logf("child: %s", out)
	case <-time.After(bound):
		cmd.Process.Kill()
		<-done
		t.Errorf("Process did not return within %v for a valid module of %d bytes (one leaf, a union of %d enumerations)", bound, len(src), n)
	}
}

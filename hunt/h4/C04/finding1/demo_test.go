package yang

import (
	"fmt"
	"strings"
	"testing"
)

// Two revisions of a module that carries deviations are loaded.  Process
// applies the deviations of one of them only (the newest): those of the other
// revision are neither applied nor checked.  A deviation whose target does not
// exist goes unreported and Process is clean; a valid one is silently not
// applied.
func TestDeviationsOfOlderRevisionAreSkipped(t *testing.T) {
	load := func(srcs ...string) (*Modules, []error) {
		ms := NewModules()
		for i, s := range srcs {
			if err := ms.Parse(s, fmt.Sprintf("src%d.yang", i)); err != nil {
				t.Fatalf("Parse: %v", err)
			}
		}
		return ms, ms.Process()
	}

	// Part 1: an error that only deviation application can find.
	const base = `module b { namespace "urn:b"; prefix b;
  container c { leaf x { type string; } leaf y { type string; } }
}`
	const d2019 = `module d { namespace "urn:d"; prefix d;
  import b { prefix b; }
  revision 2019-01-01;
  deviation /b:c/b:nosuch { deviate not-supported; }
}`
	const d2021 = `module d { namespace "urn:d"; prefix d;
  import b { prefix b; }
  revision 2021-01-01;
  deviation /b:c/b:y { deviate not-supported; }
}`
	// Control: d@2019-01-01 without the newer revision is reported.
	_, errs := load(base, d2019)
	if len(errs) != 1 || !strings.Contains(errs[0].Error(), "cannot find target node to deviate, /b:c/b:nosuch") {
		t.Fatalf("control: d@2019-01-01 alone: got %v, want the 'cannot find target node' error", errs)
	}
	// The same module next to a newer revision of itself: the error is gone.
	if _, errs = load(base, d2019, d2021); len(errs) == 0 {
		t.Errorf("Process() is clean although d@2019-01-01 deviates the non-existent node /b:c/b:nosuch")
	}

	// Part 2: seen from the trees.
	const m2019 = `module m { namespace "urn:m"; prefix m;
  revision 2019-01-01;
  container c { leaf x { type string; } leaf y { type string; } }
  deviation /m:c/m:x { deviate not-supported; }
}`
	const m2021 = `module m { namespace "urn:m"; prefix m;
  revision 2021-01-01;
  container c { leaf x { type string; } leaf y { type string; } }
  deviation /m:c/m:y { deviate not-supported; }
}`
	ms, errs := load(m2019, m2021)
	if len(errs) != 0 {
		t.Fatalf("Process: %v", errs)
	}
	if e := ToEntry(ms.Modules["m@2021-01-01"]).Dir["c"]; e.Dir["y"] != nil {
		t.Errorf("m@2021-01-01: /c/y still there")
	}
	if e := ToEntry(ms.Modules["m@2019-01-01"]).Dir["c"]; e.Dir["x"] != nil {
		t.Errorf("m@2019-01-01: its own 'deviate not-supported' of /m:c/m:x was not applied, and Process() reported nothing")
	}
}

package yang

import (
	"strings"
	"testing"
)

// A module-level augment whose argument is a relative path is resolved
// relative to the augment's own entry.  When the augment has a child of that
// name, it "finds" its own child, is merged into it and counts as applied:
// its nodes are in no module's tree and nothing is reported.
func TestAugmentWithRelativePathIsAppliedToItself(t *testing.T) {
	process := func(src string) (*Modules, []error) {
		ms := NewModules()
		if err := ms.Parse(src, "a.yang"); err != nil {
			t.Fatalf("Parse: %v", err)
		}
		return ms, ms.Process()
	}

	// Control: the slash is forgotten, the augment defines leaf x: reported.
	_, errs := process(`module a { namespace "urn:a"; prefix a;
  container c { }
  augment "c" { leaf x { type string; } }
}`)
	if len(errs) != 1 || !strings.Contains(errs[0].Error(), "augment c not found") {
		t.Fatalf("control: got %v, want 'augment c not found'", errs)
	}

	// The same mistake, but the augment happens to define a node named c.
	ms, errs := process(`module a { namespace "urn:a"; prefix a;
  container c { }
  augment "c" { container c { leaf x { type string; } } }
}`)
	if len(errs) != 0 {
		return // reported: fine
	}
	root := ToEntry(ms.Modules["a"])
	if root.Dir["c"].Dir["c"] == nil {
		t.Errorf("Process() is clean and module a has no unapplied augment (len(Augments)=%d), "+
			"but the nodes of augment \"c\" are nowhere in the tree of a: /c has children %v",
			len(root.Augments), keys(root.Dir["c"].Dir))
	}
}

func keys(m map[string]*Entry) []string {
	var ks []string
	for k := range m {
		ks = append(ks, k)
	}
	return ks
}

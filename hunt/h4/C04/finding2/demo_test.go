package yang

import (
	"strings"
	"testing"
)

// An error that deviation application records on a node is lost when a later
// deviation removes that node (or an ancestor): the last error sweep only
// sees what is still in the tree.
func TestErrorRecordedDuringDeviationIsLostWithTheNode(t *testing.T) {
	const head = `module a { namespace "urn:a"; prefix a;
  container c { container b { leaf x { type string; } leaf y { type string; } } }
  deviation /a:c/a:b/a:x { deviate not-supported; deviate not-supported; }
`
	const later = `  deviation /a:c/a:b { deviate not-supported; }
`
	process := func(src string) []error {
		ms := NewModules()
		if err := ms.Parse(src, "a.yang"); err != nil {
			t.Fatalf("Parse: %v", err)
		}
		return ms.Process()
	}

	// Control: the second not-supported finds nothing to remove; the
	// library records "unknown child key x" on /c/b and reports it.
	errs := process(head + "}")
	if len(errs) != 1 || !strings.Contains(errs[0].Error(), "unknown child key x") {
		t.Fatalf("control: got %v, want one 'unknown child key x' error", errs)
	}

	// The same input plus a deviation that removes /c/b afterwards: the
	// recorded error disappears together with the node it was recorded on.
	errs = process(head + later + "}")
	if len(errs) == 0 {
		t.Errorf("Process() is clean although applying the deviations recorded an error (unknown child key x on /c/b)")
	}
}

package yang

import (
	"testing"
)

// A deviation that changes "mandatory" must be reflected at its target the
// same way as the same statement written in the module.  Entry.Mandatory is
// changed, but the entry's default values (DefaultValues/SingleDefaultValue,
// which fall back to the default of the leaf's type unless the leaf is
// mandatory) keep consulting the un-deviated AST statement.
func TestDemoH4C08MandatoryDeviationAndTypeDefault(t *testing.T) {
	load := func(files ...[2]string) *Modules {
		ms := NewModules()
		for _, f := range files {
			if err := ms.Parse(f[1], f[0]); err != nil {
				t.Fatalf("Parse(%s): %v", f[0], err)
			}
		}
		if errs := ms.Process(); len(errs) != 0 {
			t.Fatalf("Process: %v", errs)
		}
		return ms
	}
	leaf := func(ms *Modules, name string) *Entry {
		return ToEntry(ms.Modules["a"]).Dir["c"].Dir[name]
	}

	// base: y optional (type default applies), z mandatory (no default)
	const base = `module a { namespace "urn:a"; prefix a;
  typedef td { type string; default "tdd"; }
  container c {
    leaf y { type td; }
    leaf z { type td; mandatory true; }
  }
}`
	// reference: the deviated properties written directly in the module
	const reference = `module a { namespace "urn:a"; prefix a;
  typedef td { type string; default "tdd"; }
  container c {
    leaf y { type td; mandatory true; }
    leaf z { type td; mandatory false; }
  }
}`
	const dev = `module d { namespace "urn:d"; prefix d; import a { prefix a; }
  deviation /a:c/a:y { deviate add { mandatory true; } }
  deviation /a:c/a:z { deviate replace { mandatory false; } }
}`
	ref := load([2]string{"a.yang", reference})
	got := load([2]string{"a.yang", base}, [2]string{"d.yang", dev})

	for _, name := range []string{"y", "z"} {
		r, g := leaf(ref, name), leaf(got, name)
		if r.Mandatory != g.Mandatory {
			t.Errorf("/a:c/a:%s: Mandatory = %v after the deviation, %v when written directly", name, g.Mandatory, r.Mandatory)
		}
		rv, rok := r.SingleDefaultValue()
		gv, gok := g.SingleDefaultValue()
		if rv != gv || rok != gok {
			t.Errorf("/a:c/a:%s (Mandatory=%v): SingleDefaultValue() = (%q, %v) after the deviation, (%q, %v) when the same mandatory statement is written in the module",
				name, g.Mandatory, gv, gok, rv, rok)
		}
	}
}

package yang

import (
	"testing"
)

// A deviation whose argument is not an absolute schema node identifier
// (the leading "/" is missing) names no node of the schema tree
// (RFC 7950 7.20.3: "The argument is a string that identifies a node in the
// schema tree ... an absolute schema node identifier").  The library resolves
// it relative to the root of the DEVIATING module, with every prefix thrown
// away, applies it to whatever it finds there and reports nothing.
func TestDemoH4C08RelativeDeviationTarget(t *testing.T) {
	const a = `module a { namespace "urn:a"; prefix a;
  container c { leaf x { type string; default "dx"; } }
}`
	// "a:c/a:x" lacks the leading slash.  Module d happens to have a
	// container c with a leaf x of its own.
	const d = `module d { namespace "urn:d"; prefix d;
  import a { prefix a; }
  container c { leaf x { type string; } leaf y { type string; } }
  deviation a:c/a:x { deviate not-supported; }
  deviation "zz:c/qq:y" { deviate add { default "oops"; } }
}`
	ms := NewModules()
	for _, f := range []struct{ name, text string }{{"a.yang", a}, {"d.yang", d}} {
		if err := ms.Parse(f.text, f.name); err != nil {
			t.Fatalf("Parse(%s): %v", f.name, err)
		}
	}
	errs := ms.Process()

	ea := ToEntry(ms.Modules["a"])
	ed := ToEntry(ms.Modules["d"])

	if ea.Dir["c"] == nil || ea.Dir["c"].Dir["x"] == nil {
		t.Fatalf("/a:c/a:x is gone")
	}
	if len(errs) == 0 {
		t.Errorf("Process reported no error for the deviation targets %q and %q, neither of which is an absolute schema node identifier", "a:c/a:x", "zz:c/qq:y")
	}
	// Nothing names /d:c/d:x or /d:c/d:y: they must be what module d yields
	// without its deviation statements.
	if ed.Dir["c"].Dir["x"] == nil {
		t.Errorf("deviation a:c/a:x { deviate not-supported; } removed /d:c/d:x, a node of another module that no deviation names (while /a:c/a:x is untouched)")
	}
	if y := ed.Dir["c"].Dir["y"]; y != nil && len(y.Default) != 0 {
		t.Errorf("deviation zz:c/qq:y (undeclared prefixes zz and qq) set default %q on /d:c/d:y", y.Default)
	}
}

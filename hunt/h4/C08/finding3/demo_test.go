package yang

import (
	"testing"
)

// default, mandatory and units are properties of particular kinds of nodes
// (RFC 7950: default - leaf, leaf-list, choice; mandatory - leaf, choice,
// anydata, anyxml; units - leaf, leaf-list).  A deviate add/replace that gives
// one of them to a node that cannot carry it cannot be applied.  The library
// reports this for type (non-leaf) and min/max-elements (non-list) but sets
// default, mandatory and units on any node and reports nothing: the result
// is an entry that no module text can yield.
func TestDemoH4C08PropertyOnWrongNodeKind(t *testing.T) {
	const a = `module a { namespace "urn:a"; prefix a;
  container c {
    list l { key k; leaf k { type string; } }
    leaf-list ll { type string; }
    anydata ad;
  }
  rpc r { input { leaf i { type string; } } }
}`
	cases := []struct {
		name, dev string
		check     func(root *Entry) (changed bool, what string)
	}{{
		name: "default on a container",
		dev:  `deviation /a:c { deviate add { default "x"; } }`,
		check: func(r *Entry) (bool, string) {
			return len(r.Dir["c"].Default) != 0, "Default of container /a:c"
		},
	}, {
		name: "default on a list",
		dev:  `deviation /a:c/a:l { deviate replace { default "x"; } }`,
		check: func(r *Entry) (bool, string) {
			return len(r.Dir["c"].Dir["l"].Default) != 0, "Default of list /a:c/a:l"
		},
	}, {
		name: "default on anydata",
		dev:  `deviation /a:c/a:ad { deviate add { default "x"; } }`,
		check: func(r *Entry) (bool, string) {
			return len(r.Dir["c"].Dir["ad"].Default) != 0, "Default of anydata /a:c/a:ad"
		},
	}, {
		name: "mandatory on a container",
		dev:  `deviation /a:c { deviate add { mandatory true; } }`,
		check: func(r *Entry) (bool, string) {
			return r.Dir["c"].Mandatory != TSUnset, "Mandatory of container /a:c"
		},
	}, {
		name: "mandatory on a leaf-list",
		dev:  `deviation /a:c/a:ll { deviate add { mandatory true; } }`,
		check: func(r *Entry) (bool, string) {
			return r.Dir["c"].Dir["ll"].Mandatory != TSUnset, "Mandatory of leaf-list /a:c/a:ll"
		},
	}, {
		name: "units on a container",
		dev:  `deviation /a:c { deviate add { units "m"; } }`,
		check: func(r *Entry) (bool, string) {
			return r.Dir["c"].Units != "", "Units of container /a:c"
		},
	}, {
		name: "default on an rpc",
		dev:  `deviation /a:r { deviate add { default "x"; } }`,
		check: func(r *Entry) (bool, string) {
			return len(r.Dir["r"].Default) != 0, "Default of rpc /a:r"
		},
	}}
	for _, tc := range cases {
		ms := NewModules()
		if err := ms.Parse(a, "a.yang"); err != nil {
			t.Fatal(err)
		}
		d := `module d { namespace "urn:d"; prefix d; import a { prefix a; } ` + tc.dev + ` }`
		if err := ms.Parse(d, "d.yang"); err != nil {
			// refusing the text is a way of reporting it
			continue
		}
		errs := ms.Process()
		if len(errs) != 0 {
			continue // reported: fine
		}
		changed, what := tc.check(ToEntry(ms.Modules["a"]))
		t.Errorf("%s: %s\n  Process reported no error; %s was set: %v", tc.name, tc.dev, what, changed)
	}
}

#!/bin/bash
# trymutid.sh <pkgdir> <id>...  applies mutgen mutation <id> in a scratch worktree and prints what every rule says.
export GOFLAGS=-mod=mod GOPROXY=off GOSUMDB=off GOTOOLCHAIN=local; unset GOWORK
PKG=$1; shift
D=/tmp/gy-try
for i in "$@"; do
  /verif/tools/scratch.sh $D >/dev/null
  if [ "${FAMILY:-1}" != 1 ]; then desc=$(/verif/bin/mutgen2 -repo $D -pkg ./$PKG -family $FAMILY -apply $i); else desc=$(/verif/bin/mutgen -dir $D/$PKG -apply $i); fi
  out=$(/verif/bin/goyang-verif -repo $D -verif /verif -all -no-evidence 2>&1 | grep -aE "^[A-Z0-9.]+ \[(violation|undecided)\]|^VACUOUS|^BROKEN" | head -2 | cut -c1-170)
  if [ -z "$out" ]; then echo "MISSED   $i $desc"; else echo "DETECTED $i $desc :: $out"; fi
done
git -C $D checkout -q -- . 2>/dev/null

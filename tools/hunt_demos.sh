#!/bin/bash
# Runs every preserved hunt demo (hunt/*/Cxx/finding*/demo_test.go) against a scratch worktree of /repo HEAD and prints
# PASS (the defect is repaired) / FAIL (still present: must be a recorded finding or examined-not-recorded) per finding.
export GOFLAGS=-mod=mod GOPROXY=off GOSUMDB=off GOTOOLCHAIN=local; unset GOWORK
D=/tmp/gy-hunt
/verif/tools/scratch.sh $D >/dev/null || exit 3
for f in /verif/hunt/h*/C*/finding*/demo_test.go; do
  id=$(echo $f | sed 's#/verif/hunt/##; s#/demo_test.go##')
  case "$1" in "") ;; *) echo "$id" | grep -q "$1" || continue;; esac
  pkg=pkg/yang; grep -q '^package indent' $f && pkg=pkg/indent
  case $id in h1/C02/finding3|h2/C03/finding1) echo "SKIP $id (needs megabytes of nesting)"; continue;; esac
  cp $f $D/$pkg/zz_demo_test.go
  if (cd $D/$pkg && timeout 600 go test -vet=off -count=1 . >/tmp/hunt_demo.log 2>&1); then echo "PASS $id"; else echo "FAIL $id: $(grep -m1 -E '^\s+\S+_test.go:[0-9]+:|panic|fatal' /tmp/hunt_demo.log | cut -c1-140)"; fi
  rm -f $D/$pkg/zz_demo_test.go
done
git -C /repo worktree remove --force $D >/dev/null 2>&1

#!/usr/bin/env python3
"""mkctl.py <name> <file> <old> <new> [<file> <old> <new> …]  (replace_all if old occurs several times and name ends with '*')
Creates /verif/selftest/controls/<name>.diff: a behaviour-preserving edit on which every rule must stay silent."""
import sys, subprocess, os
D = os.environ.get("SCRATCH", "/tmp/gy")
name = sys.argv[1]
args = sys.argv[2:]
subprocess.check_call(["/verif/tools/scratch.sh", D], stdout=subprocess.DEVNULL)
for i in range(0, len(args), 3):
    f, old, new = args[i:i+3]
    p = os.path.join(D, f)
    s = open(p).read()
    n = s.count(old)
    if n < 1:
        sys.exit("mkctl %s: %r occurs %d times in %s" % (name, old, n, f))
    open(p, "w").write(s.replace(old, new))
subprocess.check_call(["gofmt", "-w", os.path.join(D, "pkg"), os.path.join(D, "yang.go"), os.path.join(D, "types.go"), os.path.join(D, "tree.go")])
diff = subprocess.check_output(["git", "-C", D, "diff"]).decode()
open("/verif/selftest/controls/%s.diff" % name, "w").write(diff)
subprocess.check_call(["git", "-C", D, "checkout", "-q", "--", "."])
print("wrote control", name)

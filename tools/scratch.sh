#!/bin/bash
# Creates (or resets) a scratch git worktree of /repo under /tmp for trying source variants.
# Usage: scratch.sh [dir]   (default /tmp/gy)
set -e
D=${1:-/tmp/gy}
if [ -d "$D/.git" ] || [ -f "$D/.git" ]; then
  git -C "$D" checkout -q -- . && git -C "$D" clean -fdq
  git -C "$D" checkout -q --detach "$(git -C /repo rev-parse HEAD)"
else
  git -C /repo worktree prune
  git -C /repo worktree add -q --detach "$D" HEAD
fi
echo "$D at $(git -C "$D" rev-parse --short HEAD)"

#!/bin/bash
# For every recorded finding that has a repair sketch (selftest/repairs/*.diff, EXPECT: "<name> <RULE>"): apply the
# sketch to a scratch worktree, build, and run the rule: it must discharge (no finding, violation or undecided of
# that rule). A finding rule that keeps firing on repaired code would print KNOWN-FINDING lines for ever.
export GOFLAGS=-mod=mod GOPROXY=off GOSUMDB=off GOTOOLCHAIN=local; unset GOWORK
F=${1:-.}
run_rep() {
  name=$1; rule=$2
  D=/tmp/gy-rep-$name
  flock /tmp/gy-st.lock /verif/tools/scratch.sh "$D" >/dev/null 2>&1 || { echo "ERR $name scratch"; return; }
  if ! git -C "$D" apply /verif/selftest/repairs/$name.diff 2>/dev/null; then echo "SKIP $name (does not apply)"; flock /tmp/gy-st.lock git -C /repo worktree remove --force "$D"; return; fi
  if ! (cd "$D" && go build ./... >/dev/null 2>&1); then echo "NOBUILD $name"; flock /tmp/gy-st.lock git -C /repo worktree remove --force "$D" >/dev/null 2>&1; return; fi
  out=$(/verif/bin/goyang-verif -repo "$D" -verif /verif -all -rule "$rule" -dump 2>&1)
  flock /tmp/gy-st.lock git -C /repo worktree remove --force "$D" >/dev/null 2>&1
  hits=$(echo "$out" | grep -E "^$rule \[(violation|undecided|finding)\]")
  if [ -z "$hits" ]; then echo "DISCHARGED $name ($rule)"; else echo "STILL-FIRES $name: $(echo "$hits" | head -2 | cut -c1-200)"; fi
}
export -f run_rep
grep "$F" /verif/selftest/repairs/EXPECT | xargs -r -P 8 -L 1 bash -c 'run_rep $0 $1' | sort

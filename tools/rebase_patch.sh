#!/bin/bash
# Re-bases a selftest/seed patch that no longer applies to /repo HEAD (a later fix: commit touched nearby lines):
# three-way apply in a scratch worktree, then rewrite the patch as a diff against HEAD. Prints REBASED / CONFLICT.
# Usage: rebase_patch.sh <patch-file>
P=$(readlink -f "$1"); D=/tmp/gy-rebase
/verif/tools/scratch.sh $D >/dev/null 2>&1 || { echo "ERR scratch"; exit 1; }
if git -C $D apply --3way "$P" >/dev/null 2>&1 && [ -z "$(git -C $D diff --name-only --diff-filter=U)" ]; then
  git -C $D diff HEAD > "$P.new" && mv "$P.new" "$P"; echo "REBASED $P"
else
  echo "CONFLICT $P"; git -C $D diff --name-only --diff-filter=U | sed 's/^/   /'
fi
git -C $D reset -q --hard; git -C /repo worktree remove --force $D >/dev/null 2>&1

#!/bin/bash
# Applies a diff to the scratch worktree, optionally builds+tests it, runs the checker on it, reverts.
# Usage: trymut.sh [-t] <patch.diff> [checker args…]     (-t: also run go build + go test)
export GOFLAGS=-mod=mod GOPROXY=off GOSUMDB=off GOTOOLCHAIN=local; unset GOWORK
T=0; if [ "$1" = "-t" ]; then T=1; shift; fi
P=$1; shift
D=${SCRATCH:-/tmp/gy}
/verif/tools/scratch.sh "$D" >/dev/null || exit 3
git -C "$D" apply "$P" || { echo "PATCH DOES NOT APPLY: $P"; exit 3; }
if [ $T = 1 ]; then
  (cd "$D" && go build ./... && go test -vet=off -count=1 ./... 2>&1 | tail -5) || echo "BUILD/TEST FAILED"
fi
/verif/bin/goyang-verif -repo "$D" -verif /verif -no-evidence "$@"
rc=$?
git -C "$D" checkout -q -- . ; git -C "$D" clean -fdq
exit $rc

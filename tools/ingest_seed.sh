#!/bin/bash
# ingest_seed.sh <src-dir-with patch.diff,demo_test.go,README.md> <seed-id> <property> [pkgdir=pkg/yang]
# Verifies a sub-agent's mutant against the current /repo HEAD in a scratch worktree:
#   patch applies, builds, the pinned suite passes, the demo test FAILS with the patch and PASSES without.
# On success copies it to /verif/seeded/<seed-id>/ with meta.json.
export GOFLAGS=-mod=mod GOPROXY=off GOSUMDB=off GOTOOLCHAIN=local; unset GOWORK
SRC=$1; ID=$2; PROP=$3; PKG=${4:-pkg/yang}
D=/tmp/gy-ingest
/verif/tools/scratch.sh $D >/dev/null || exit 3
fail() { echo "REJECT $ID: $1"; git -C $D checkout -q -- . ; git -C $D clean -fdq; exit 1; }
TESTNAME=$(grep -oE "^func (Test[A-Za-z0-9_]+)" $SRC/demo_test.go | awk '{print $2}' | grep -v "Child$\|Helper$" | head -1)
ALLTESTS=$(grep -oE "^func (Test[A-Za-z0-9_]+)" $SRC/demo_test.go | awk '{print $2}' | paste -sd'|')
[ -n "$TESTNAME" ] || fail "no test function in demo_test.go"
# without patch: demo passes
cp $SRC/demo_test.go $D/$PKG/zz_demo_test.go
(cd $D/$PKG && timeout 300 go test -vet=off -count=1 -run "^($ALLTESTS)\$" . > /tmp/ingest.nopatch.log 2>&1) || fail "demo does not pass WITHOUT the patch: $(tail -5 /tmp/ingest.nopatch.log | tr '\n' ' ' | cut -c1-300)"
rm $D/$PKG/zz_demo_test.go
git -C $D apply $SRC/patch.diff || fail "patch does not apply to current HEAD"
(cd $D && go build ./... ) || fail "does not build"
/verif/tools/baseline.sh $D > /tmp/ingest.suite.log 2>&1 || fail "suite does not pass with patch: $(tail -3 /tmp/ingest.suite.log | tr '\n' ' ')"
cp $SRC/demo_test.go $D/$PKG/zz_demo_test.go
if (cd $D/$PKG && timeout 300 go test -vet=off -count=1 -run "^($ALLTESTS)\$" . > /tmp/ingest.patch.log 2>&1); then fail "demo PASSES with the patch"; fi
git -C $D checkout -q -- . ; git -C $D clean -fdq
mkdir -p /verif/seeded/$ID
cp $SRC/patch.diff $SRC/demo_test.go /verif/seeded/$ID/
cp $SRC/README.md /verif/seeded/$ID/README.md 2>/dev/null
python3 - "$ID" "$PROP" "$TESTNAME" "$PKG" <<'PY'
import json,sys,subprocess
i,prop,test,pkg=sys.argv[1:5]
head=subprocess.check_output(["git","-C","/repo","rev-parse","--short","HEAD"]).decode().strip()
readme=open(f"/verif/seeded/{i}/README.md").read() if __import__('os').path.exists(f"/verif/seeded/{i}/README.md") else ""
meta={"id":i,"property":prop,"origin":"independent sub-agent given only the property text and a scratch worktree","verified_against_repo_head":head,
 "demo":{"file":"demo_test.go","package_dir":pkg,"test":test},
 "needs_to_manifest":readme[:1500],
 "what_i_ran":[f"scratch worktree of /repo at {head}: demo test without patch -> PASS", "git apply patch.diff; go build ./...; pinned suite (tools/baseline.sh) -> 372 pass", "demo test with patch -> FAIL"],
 "expected_rule":".","detected_by":None}
json.dump(meta,open(f"/verif/seeded/{i}/meta.json","w"),indent=1)
PY
echo "ACCEPT $ID ($PROP) test=$TESTNAME"

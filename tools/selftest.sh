#!/bin/bash
# Runs every seeded mutant (selftest/mutants/*.diff and seeded/*/patch.diff) against the checker, 8 at a time,
# each in its own scratch worktree. A mutant listed in EXPECT must be reported by the named rule (prefix match).
# Usage: selftest.sh [name-filter]
export GOFLAGS=-mod=mod GOPROXY=off GOSUMDB=off GOTOOLCHAIN=local; unset GOWORK
F=${1:-.}
OUT=$(mktemp -d /tmp/selftest.XXXX)
run_one() {
  name=$1; patch=$2; rule=$3; OUT=$4
  D=/tmp/gy-st-$name
  flock /tmp/gy-st.lock /verif/tools/scratch.sh "$D" >/dev/null 2>&1 || { echo "MISS $name (scratch failed)"; return; }
  if ! git -C "$D" apply "$patch" 2>/dev/null; then echo "SKIP $name (patch does not apply)"; flock /tmp/gy-st.lock git -C /repo worktree remove --force "$D"; return; fi
  /verif/bin/goyang-verif -repo "$D" -verif /verif -all > "$OUT/$name.log" 2>&1
  rc=$?
  flock /tmp/gy-st.lock git -C /repo worktree remove --force "$D" >/dev/null 2>&1
  if [ $rc = 2 ]; then echo "BROKEN $name (checker exit 2: $(grep -m1 BROKEN "$OUT/$name.log"))"; return; fi
  hits=$(grep -E "^[A-Z0-9.]+ \[(violation|undecided)\]" "$OUT/$name.log")
  if echo "$hits" | grep -qE "^$rule"; then echo "DETECTED $name by $(echo "$hits" | grep -E "^$rule" | head -1 | cut -c1-150)";
  elif [ -n "$hits" ]; then echo "OTHER $name expected $rule got: $(echo "$hits" | head -2 | cut -c1-200)";
  else echo "MISS $name (expected $rule)"; fi
}
export -f run_one
{
 while read -r name rule; do
   [ -z "$name" ] && continue
   echo "$name" | grep -q "$F" || continue
   echo "$name /verif/selftest/mutants/$name.diff $rule $OUT"
 done < /verif/selftest/mutants/EXPECT
 for d in /verif/seeded/*/; do
   [ -f "$d/patch.diff" ] || continue
   n=$(basename "$d"); echo "seeded-$n" | grep -q "$F" || continue
   rule=$(python3 -c "import json,sys; print(json.load(open('${d}meta.json')).get('expected_rule') or '.')" 2>/dev/null || echo .)
   echo "seeded-$n ${d}patch.diff ${rule:-.} $OUT"
 done
} | xargs -r -P 8 -L 1 bash -c 'run_one $0 $1 $2 $3' | sort
# control: the unchanged tree must be silent
/verif/bin/goyang-verif -all > "$OUT/control.log" 2>&1; echo "CONTROL exit=$? $(tail -1 "$OUT/control.log")"
rm -rf "$OUT"

#!/bin/bash
# Mutation sweep: every simple syntactic mutation (checker/mutgen) of pkg/yang and pkg/indent is applied, one at a
# time, in a scratch worktree. Mutants that do not build or that the unit tests notice are of no interest here; for
# each SURVIVOR (builds, suite passes) every rule of the checker is run. Output lines:
#   NOBUILD | KILLED (by the tests) | TIMEOUT | DETECTED <rule> | MISSED
# followed by "<pkg> <id> <file:line> <kind> <detail>". MISSED survivors are what to read: each is either an
# equivalent/irrelevant change, or a property-breaking change the rules do not see.
# Usage: mutation_sweep.sh <pkgdir: pkg/yang|pkg/indent> [from-id] [to-id] > log
export GOFLAGS=-mod=mod GOPROXY=off GOSUMDB=off GOTOOLCHAIN=local; unset GOWORK
PKG=${1:-pkg/yang}; FROM=${2:-0}; TO=${3:-999999}
# FAMILY=2 uses the type-aware generator (checker/mutgen2: swapped sibling fields / arguments / statements, deleted switch
# cases, error results replaced by nil); ids of the two families are unrelated.
FAMILY=${FAMILY:-1}
if [ "$FAMILY" != 1 ]; then N=$(/verif/bin/mutgen2 -repo /repo -pkg ./$PKG -family $FAMILY -list | wc -l); else N=$(/verif/bin/mutgen -dir /repo/$PKG -list | wc -l); fi
[ $TO -ge $N ] && TO=$((N-1))
run_range() {
  w=$1; PKG=$2; FROM=$3; TO=$4; STEP=$5
  D=/tmp/gy-mt-$w
  flock /tmp/gy-st.lock /verif/tools/scratch.sh "$D" >/dev/null 2>&1 || exit 1
  for ((i=FROM+w; i<=TO; i+=STEP)); do
    git -C "$D" checkout -q -- . 2>/dev/null
    if [ "$FAMILY" != 1 ]; then desc=$(/verif/bin/mutgen2 -repo "$D" -pkg ./$PKG -family $FAMILY -apply $i 2>/dev/null) || { echo "ERROR $PKG $i"; continue; }
    else desc=$(/verif/bin/mutgen -dir "$D/$PKG" -apply $i 2>/dev/null) || { echo "ERROR $PKG $i"; continue; }; fi
    if ! (cd "$D" && go build ./... ) >/dev/null 2>&1; then echo "NOBUILD $PKG $i $desc"; continue; fi
    if ! (cd "$D" && timeout 120 go test -vet=off -count=1 ./... ) >/dev/null 2>&1; then
      rc=$?; if [ $rc = 124 ]; then echo "TIMEOUT $PKG $i $desc"; else echo "KILLED $PKG $i $desc"; fi; continue; fi
    out=$(timeout 120 /verif/bin/goyang-verif -repo "$D" -verif /verif -all -no-evidence 2>&1); rc=$?
    if [ $rc = 0 ]; then echo "MISSED $PKG $i $desc";
    else echo "DETECTED $(echo "$out" | grep -aoE "^[A-Z0-9.]+ \[(violation|undecided)\]|^VACUOUS [A-Z.]+|^BROKEN" | head -1 | tr ' ' '_') $PKG $i $desc"; fi
  done
  git -C "$D" checkout -q -- . 2>/dev/null
  flock /tmp/gy-st.lock git -C /repo worktree remove --force "$D" >/dev/null 2>&1
}
export -f run_range; export FAMILY
W=12
seq 0 $((W-1)) | xargs -P $W -I{} bash -c "run_range {} $PKG $FROM $TO $W"

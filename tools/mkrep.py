#!/usr/bin/env python3
"""mkrep.py <name> <rule> <file> <old> <new> [<file> <old> <new> …]  (replace_all if old occurs several times and name ends with '*')
Creates /verif/selftest/repairs/<name>.diff: a sketch of the repair of a recorded finding; <rule> must report no finding/violation on it (tools/repairs.sh)."""
import sys, subprocess, os
D = os.environ.get("SCRATCH", "/tmp/gy")
name, rule = sys.argv[1], sys.argv[2]
args = sys.argv[3:]
subprocess.check_call(["/verif/tools/scratch.sh", D], stdout=subprocess.DEVNULL)
for i in range(0, len(args), 3):
    f, old, new = args[i:i+3]
    p = os.path.join(D, f)
    s = open(p).read()
    n = s.count(old)
    if n < 1:
        sys.exit("mkctl %s: %r occurs %d times in %s" % (name, old, n, f))
    open(p, "w").write(s.replace(old, new))
subprocess.check_call(["gofmt", "-w", os.path.join(D, "pkg"), os.path.join(D, "yang.go"), os.path.join(D, "types.go"), os.path.join(D, "tree.go")])
diff = subprocess.check_output(["git", "-C", D, "diff"]).decode()
open("/verif/selftest/repairs/%s.diff" % name, "w").write(diff)
subprocess.check_call(["git", "-C", D, "checkout", "-q", "--", "."])
exp = "/verif/selftest/repairs/EXPECT"
lines = [l for l in (open(exp).read().splitlines() if os.path.exists(exp) else []) if not l.startswith(name + " ")]
lines.append("%s %s" % (name, rule))
open(exp, "w").write("\n".join(sorted(lines)) + "\n")
print("wrote repair", name)

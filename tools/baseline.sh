#!/bin/bash
# Runs the pinned test suite of a tree (default /repo) and compares the passing set with /root/.vp/BASELINE.json.
export GOFLAGS=-mod=mod GOPROXY=off GOSUMDB=off GOTOOLCHAIN=local; unset GOWORK
D=${1:-/repo}
cd "$D" && go test -json -vet=off -count=1 -timeout 25m ./... 2>/dev/null | python3 -c "
import json,sys
passed=set(); failed=set()
for l in sys.stdin:
    try: e=json.loads(l)
    except: continue
    if e.get('Test') and e.get('Action') in ('pass','fail'):
        (passed if e['Action']=='pass' else failed).add(e['Package']+'::'+e['Test'])
base=set(json.load(open('/root/.vp/BASELINE.json'))['stable_pass'])
print('passed=%d failed=%d baseline=%d missing_from_pass=%d' % (len(passed),len(failed),len(base),len(base-passed)))
for t in sorted(base-passed)[:10]: print('  MISSING',t)
for t in sorted(failed)[:10]: print('  FAILED',t)
sys.exit(0 if not (base-passed) and not failed else 1)
"

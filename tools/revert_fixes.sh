#!/bin/bash
# For every `fix:` commit of /repo: revert it (alone) on top of HEAD in a scratch worktree and run every rule.
# A repaired defect that comes back must be reported. REVERTED-DETECTED / REVERTED-MISS / CONFLICT (the revert does
# not apply cleanly to HEAD any more: later repairs touch the same lines) / NOBUILD.
# Usage: revert_fixes.sh [commit-filter]
export GOFLAGS=-mod=mod GOPROXY=off GOSUMDB=off GOTOOLCHAIN=local; unset GOWORK
F=${1:-.}
OUT=$(mktemp -d /tmp/revfix.XXXX)
run_one() {
  h=$1; OUT=$2
  D=/tmp/gy-rv-$h
  flock /tmp/gy-st.lock /verif/tools/scratch.sh "$D" >/dev/null 2>&1 || { echo "ERROR $h scratch"; return; }
  subj=$(git -C /repo log -1 --format=%s $h | cut -c1-70)
  if ! git -C "$D" revert --no-commit $h >/dev/null 2>&1; then
    git -C "$D" revert --abort >/dev/null 2>&1; git -C "$D" reset -q --hard >/dev/null 2>&1
    echo "CONFLICT $h $subj"; flock /tmp/gy-st.lock git -C /repo worktree remove --force "$D" >/dev/null 2>&1; return
  fi
  if ! (cd "$D" && go build ./... >/dev/null 2>&1); then echo "NOBUILD $h $subj"; git -C "$D" reset -q --hard; flock /tmp/gy-st.lock git -C /repo worktree remove --force "$D" >/dev/null 2>&1; return; fi
  /verif/bin/goyang-verif -repo "$D" -verif /verif -all > "$OUT/$h.log" 2>&1
  git -C "$D" reset -q --hard >/dev/null 2>&1
  flock /tmp/gy-st.lock git -C /repo worktree remove --force "$D" >/dev/null 2>&1
  hits=$(grep -E "^[A-Z0-9.]+ \[(violation|undecided)\]" "$OUT/$h.log" | head -1 | cut -c1-110)
  if [ -n "$hits" ]; then echo "REVERTED-DETECTED $h $subj :: $hits"; else echo "REVERTED-MISS $h $subj"; fi
}
export -f run_one
git -C /repo log --reverse --format='%h %s' | grep " fix:" | grep "$F" | awk -v o="$OUT" '{print $1, o}' | xargs -r -P 8 -L 1 bash -c 'run_one $0 $1' | sort
rm -rf "$OUT"

#!/usr/bin/env python3
"""mkmut.py <name> <rule> <file> <old> <new> [<file> <old> <new> …]
Creates /verif/selftest/mutants/<name>.diff by replacing exactly one occurrence of <old> by <new> in <file>
of the scratch worktree, and records the rule expected to report it in /verif/selftest/mutants/EXPECT."""
import sys, subprocess, os
D = os.environ.get("SCRATCH", "/tmp/gy")
name, rule = sys.argv[1], sys.argv[2]
args = sys.argv[3:]
subprocess.check_call(["/verif/tools/scratch.sh", D], stdout=subprocess.DEVNULL)
for i in range(0, len(args), 3):
    f, old, new = args[i:i+3]
    p = os.path.join(D, f)
    s = open(p).read()
    n = s.count(old)
    if n != 1:
        sys.exit("mkmut %s: %r occurs %d times in %s" % (name, old, n, f))
    open(p, "w").write(s.replace(old, new))
diff = subprocess.check_output(["git", "-C", D, "diff"]).decode()
out = "/verif/selftest/mutants/%s.diff" % name
open(out, "w").write(diff)
exp = "/verif/selftest/mutants/EXPECT"
lines = [l for l in (open(exp).read().splitlines() if os.path.exists(exp) else []) if not l.startswith(name + " ")]
lines.append("%s %s" % (name, rule))
open(exp, "w").write("\n".join(sorted(lines)) + "\n")
subprocess.check_call(["git", "-C", D, "checkout", "-q", "--", "."])
print("wrote", out)

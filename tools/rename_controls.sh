#!/bin/bash
# Renames, one at a time, every unexported function and field the rules name (type-aware, test files included) in a
# scratch worktree and runs every rule: a rename is behaviour-preserving, so the checker must stay silent.
# Usage: rename_controls.sh [filter]
export GOFLAGS=-mod=mod GOPROXY=off GOSUMDB=off GOTOOLCHAIN=local; unset GOWORK
F=${1:-.}
# ALL=1: every unexported function and field of the repository (lists from checker/anchors_gen.go), not only the ones the rules name
FUNCS='yang.(*Modules).resolveIdentities yang.(*Modules).add yang.build yang.(YangRange).parseChildRanges yang.(*typeDictionary).find yang.module yang.initTypes yang.findInDir yang.errorSort yang.buildASTWithTypeDict yang.(Number).addQuantum yang.(*typeDictionary).findExternal yang.(*parser).push yang.(*parser).nextStatement yang.(*parser).next yang.(*lexer).emitText yang.(*Value).asRangeInt yang.(*Entry).delete yang.(*Modules).include yang.(*Modules).process yang.addChildren yang.(*Entry).merge yang.(*Entry).dup yang.(*Entry).shallowDup yang.(*Entry).add yang.(*typeDictionary).resolveTypedefs yang.(*typeDictionary).typedefs yang.(*typeDictionary).adopt yang.(*typeDictionary).forget yang.(*lexer).next yang.(*lexer).backup yang.(*lexer).updateCursor yang.(*lexer).skipTo yang.lexGround yang.lexQString yang.lexUnquoted yang.(*Entry).importErrors yang.(*Entry).checkErrors yang.(*Entry).addError yang.(*Entry).errorf yang.newError yang.sortedModules yang.(*Module).findIdentityBase yang.(Number).frac yang.pow10 yang.decimalValueFromString yang.getPrefix yang.semCheckMaxElements yang.(*Modules).getEntryCache yang.(*Modules).setEntryCache indent.actualWrittenSize yang.trimLocalPrefix yang.newResolvedIdentity yang.(*Identity).modulePrefixedName yang.coalesce'
FIELDS='yang.Modules.includes yang.Modules.mergedSubmodule yang.Modules.byNS yang.Modules.entryCache yang.Modules.nsMu yang.Modules.entryCacheMu yang.Modules.typeDict yang.Modules.expandingGrouping yang.typeDictionary.dict yang.typeDictionary.mu yang.typeDictionary.resolving yang.typeDictionary.typeErrs yang.typeDictionary.resolvedTypes yang.typeDictionary.identities yang.identityDictionary.dict yang.identityDictionary.mu yang.lexer.col yang.lexer.line yang.lexer.tcol yang.lexer.pos yang.lexer.width yang.lexer.state yang.lexer.inPattern yang.lexer.sline yang.lexer.scol yang.parser.statementDepth yang.parser.hitBrace yang.Entry.deviatePresence yang.Entry.namespace yang.EnumType.last yang.EnumType.min yang.EnumType.max yang.EnumType.unique yang.Statement.statements yang.yangStatement.funcs yang.yangStatement.required yang.yangStatement.sRequired yang.yangStatement.addext indent.iw.partial indent.iw.prefix indent.iw.w'
TYPES='yang.lexer yang.parser yang.token yang.stateFn yang.typeDictionary yang.identityDictionary yang.yangStatement yang.meta yang.sortedErrors yang.sError yang.resolvedIdentity yang.deviationPresence yang.deviationType indent.iw yang.code yang.UsesStmt yang.DeviatedEntry yang.RPCEntry'
run_one() {
  kind=$1; name=$2
  tag=$(echo "$name" | tr -c 'A-Za-z0-9' '_')
  D=/tmp/gy-rn-$tag
  flock /tmp/gy-st.lock /verif/tools/scratch.sh "$D" >/dev/null 2>&1 || { echo "ERROR $name"; return; }
  new="zz$(echo "$name" | sed 's/.*\.//')Renamed"
  if ! /verif/bin/renametool -dir "$D" -kind $kind -name "$name" -to "$new" >/dev/null 2>&1; then echo "NOTFOUND $kind $name"; flock /tmp/gy-st.lock git -C /repo worktree remove --force "$D" >/dev/null 2>&1; return; fi
  if ! (cd "$D" && go build ./... && go vet ./... ) >/dev/null 2>&1; then echo "INVALID $kind $name (does not build/vet after rename)"; flock /tmp/gy-st.lock git -C /repo worktree remove --force "$D" >/dev/null 2>&1; return; fi
  out=$(/verif/bin/goyang-verif -repo "$D" -verif /verif -all -no-evidence 2>&1); rc=$?
  flock /tmp/gy-st.lock git -C /repo worktree remove --force "$D" >/dev/null 2>&1
  if [ $rc = 0 ]; then echo "SILENT $kind $name"; else echo "FALSE-ALARM $kind $name: $(echo "$out" | grep -aE "violation|undecided|BROKEN|VACUOUS" | head -2 | cut -c1-220 | tr '\n' ' ')"; fi
}
export -f run_one
if [ -n "$ALL" ]; then
  FUNCS=$(python3 - <<'PY'
import re
s=open('/verif/checker/anchors_gen.go').read()
for n in re.findall(r'^\t"([^"]+)":\s+\{"func', s, re.M):
    b=n[n.rfind('.')+1:]
    if b[:1].islower() and b not in ('init','main') and not b.startswith('init#'): print(n)
PY
)
  FIELDS=$(python3 - <<'PY'
import re
s=open('/verif/checker/anchors_gen.go').read()
for n in re.findall(r'^\t"([^"]+)":\s+\{"[^"]*", nil\}', s, re.M):
    b=n[n.rfind('.')+1:]
    if b[:1].islower() and b != '_': print(n)
PY
)
fi
{ for f in $FUNCS; do echo "func $f"; done; for f in $FIELDS; do echo "field $f"; done; for f in $TYPES; do echo "type $f"; done; } | grep "$F" | xargs -r -P 8 -L 1 bash -c 'run_one $0 $1' | sort

#!/usr/bin/env python3
"""Regenerates the generated regions of /verif/DESIGN.md (between <!-- BEGIN:x --> and <!-- END:x -->):
FIXES (fix commits of /repo + known findings), SEEDS (seeded/STATUS.md tables), CATALOGUE (goyang-verif -catalogue)."""
import json, re, subprocess
P = '/verif/DESIGN.md'
s = open(P).read()

def put(name, body):
    global s
    a = s.index('<!-- BEGIN:%s -->' % name) + len('<!-- BEGIN:%s -->' % name)
    b = s.index('<!-- END:%s -->' % name)
    s = s[:a] + '\n' + body.rstrip('\n') + '\n' + s[b:]

log = subprocess.check_output(['git', '-C', '/repo', 'log', '--reverse', '--format=%h|%s']).decode().splitlines()
fixes = [l.split('|', 1) for l in log if '|fix:' in l]
kf = json.load(open('/verif/known_findings.json'))['findings']
known = [k for k in kf if k['status'] == 'known']
body = '### 5.3 All fix commits and known findings (generated from /repo and known_findings.json)\n\nAll %d fix commits, oldest first:\n\n' % len(fixes)
for h, m in fixes:
    body += '* `%s` %s\n' % (h, m[5:])
body += '\nKnown findings (`known_findings.json`, status `known`; %d):\n\n' % len(known)
for k in known:
    body += "* **%s** | %s — %s *Why not repaired:* %s\n" % (k['rule'], k['construct'], k['what_fails'], k.get('note', ''))
put('FIXES', body)

st = open('/verif/seeded/STATUS.md').read()
put('SEEDS', st[st.index('| seed | property'):])

cat = subprocess.check_output(['/verif/bin/goyang-verif', '-catalogue']).decode()
put('CATALOGUE', cat)
open(P, 'w').write(s)
nrules = len([l for l in cat.splitlines() if l.startswith('| ') and not l.startswith('| rule') and not l.startswith('|---')])
print('fixes=%d known=%d rules=%d' % (len(fixes), len(known), nrules))

#!/bin/bash
# mut2own.sh <pkgdir> <mutgen-id> <name> <RULE>: keep mutgen mutation <id> as own mutant selftest/mutants/<name>.diff
export GOFLAGS=-mod=mod GOPROXY=off GOSUMDB=off GOTOOLCHAIN=local; unset GOWORK
D=/tmp/gy-try
/verif/tools/scratch.sh $D >/dev/null
if [ "${FAMILY:-1}" != 1 ]; then /verif/bin/mutgen2 -repo $D -pkg ./$1 -family $FAMILY -apply $2 >/dev/null || exit 1; else /verif/bin/mutgen -dir $D/$1 -apply $2 >/dev/null || exit 1; fi
git -C $D diff > /verif/selftest/mutants/$3.diff
git -C $D checkout -q -- .
grep -q "^$3 " /verif/selftest/mutants/EXPECT || echo "$3 $4" >> /verif/selftest/mutants/EXPECT
sort -o /verif/selftest/mutants/EXPECT /verif/selftest/mutants/EXPECT
echo "kept $3 ($4): $(grep -c '^[-+][^-+]' /verif/selftest/mutants/$3.diff) changed lines"

#!/bin/bash
# hits.sh <patch> : all violation/undecided lines of the checker on /repo + patch
export GOFLAGS=-mod=mod GOPROXY=off GOSUMDB=off GOTOOLCHAIN=local; unset GOWORK
D=/tmp/gy-hits-$$
git -C /repo worktree add -q --detach $D HEAD
git -C $D apply "$(readlink -f "$1")" || { echo "patch does not apply"; git -C /repo worktree remove --force $D; exit 1; }
/verif/bin/goyang-verif -repo $D -verif /verif -all 2>&1 | grep -E '^[A-Z0-9.]+ \[(violation|undecided)\]|BROKEN|panic|VACUOUS' | cut -c1-${2:-230}
git -C /repo worktree remove --force $D

#!/bin/bash
# Applies every behaviour-preserving control edit (selftest/controls/*.diff) to a scratch worktree, checks that it
# builds and passes the pinned suite, and runs every rule: any violation/undecided/BROKEN is a false alarm of the checker.
export GOFLAGS=-mod=mod GOPROXY=off GOSUMDB=off GOTOOLCHAIN=local; unset GOWORK
F=${1:-.}
run_ctl() {
  name=$1
  D=/tmp/gy-ctl-$name
  flock /tmp/gy-st.lock /verif/tools/scratch.sh "$D" >/dev/null 2>&1 || { echo "ERR $name scratch"; return; }
  if ! git -C "$D" apply /verif/selftest/controls/$name.diff 2>/dev/null; then echo "SKIP $name (does not apply)"; flock /tmp/gy-st.lock git -C /repo worktree remove --force "$D"; return; fi
  if ! (cd "$D" && go build ./... >/dev/null 2>&1 && go test -vet=off -count=1 ./... >/dev/null 2>&1); then echo "INVALID $name (control does not build or breaks the suite)"; flock /tmp/gy-st.lock git -C /repo worktree remove --force "$D" >/dev/null 2>&1; return; fi
  out=$(/verif/bin/goyang-verif -repo "$D" -verif /verif -all 2>&1); rc=$?
  flock /tmp/gy-st.lock git -C /repo worktree remove --force "$D" >/dev/null 2>&1
  hits=$(echo "$out" | grep -E "^[A-Z0-9.]+ \[(violation|undecided)\]|BROKEN|VACUOUS")
  if [ -z "$hits" ] && [ $rc = 0 ]; then echo "SILENT $name"; else echo "FALSE-ALARM $name: $(echo "$hits" | head -3 | cut -c1-220)"; fi
}
export -f run_ctl
ls /verif/selftest/controls/*.diff | xargs -n1 basename | sed 's/.diff$//' | grep "$F" | xargs -r -P 8 -n 1 bash -c 'run_ctl $0' | sort

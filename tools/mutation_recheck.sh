#!/bin/bash
# mutation_recheck.sh <pkgdir> <sweep-log>: re-run the checker (only) on the survivors a previous sweep listed as MISSED
# or DETECTED, and print the log again with the new verdicts. /repo must be unchanged since the sweep (mutgen ids).
export GOFLAGS=-mod=mod GOPROXY=off GOSUMDB=off GOTOOLCHAIN=local; unset GOWORK
PKG=$1; LOG=$2
recheck() {
  w=$1; PKG=$2; LOG=$3
  D=/tmp/gy-rc-$w
  flock /tmp/gy-st.lock /verif/tools/scratch.sh "$D" >/dev/null 2>&1 || exit 1
  grep -E "^(MISSED|DETECTED)" "$LOG" | awk -v w=$w 'NR%12==w' | while read -r line; do
    set -- $line
    if [ "$1" = DETECTED ]; then shift; fi
    id=$3
    git -C "$D" checkout -q -- . 2>/dev/null
    if [ "${FAMILY:-1}" != 1 ]; then desc=$(/verif/bin/mutgen2 -repo "$D" -pkg ./$PKG -family $FAMILY -apply $id 2>/dev/null) || { echo "ERROR $PKG $id"; continue; }
    else desc=$(/verif/bin/mutgen -dir "$D/$PKG" -apply $id 2>/dev/null) || { echo "ERROR $PKG $id"; continue; }; fi
    out=$(timeout 120 /verif/bin/goyang-verif -repo "$D" -verif /verif -all -no-evidence 2>&1); rc=$?
    if [ $rc = 0 ]; then echo "MISSED $PKG $id $desc";
    else echo "DETECTED $(echo "$out" | grep -aoE "^[A-Z0-9.]+ \[(violation|undecided)\]|^VACUOUS [A-Z.]+|^BROKEN" | head -1 | tr ' ' '_') $PKG $id $desc"; fi
  done
  git -C "$D" checkout -q -- . 2>/dev/null
  flock /tmp/gy-st.lock git -C /repo worktree remove --force "$D" >/dev/null 2>&1
}
export -f recheck; export FAMILY
seq 0 11 | xargs -P 12 -I{} bash -c "recheck {} $PKG $LOG"

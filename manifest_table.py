# Table behind MANIFEST.json (see gen_manifest.py). One entry per property: claimed xor not applicable.
NOTE = "Trusted: go/types, go/ssa, VTA call graph (x/tools v0.29.0); frozen RFC 7950 tables in checker/spec.go; reasoned-exception tables inside the rules; the containment/reference field classification. Not executed: goyang itself."
CLAIMED = {
}
_pending = "check not built yet in this session (static rules under construction; see DESIGN.md Appendix B build order)"
NOT_APPLICABLE = {("C%02d" % i): _pending for i in range(1, 21)}
NOT_APPLICABLE["C20"] = "value-level arithmetic over run-time split points and short-write counts; see DESIGN.md section 6"

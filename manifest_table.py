# Table behind MANIFEST.json (see gen_manifest.py). One entry per property: claimed xor not applicable.
NOTE = "Trusted: go/types, go/ssa, VTA call graph (x/tools v0.29.0); frozen RFC 7950 tables in checker/spec.go; reasoned-exception tables inside the rules; the containment/reference field classification. Not executed: goyang itself."
T = "repository-specific static analysis over go/types + go/ssa + VTA call graph: "
CLAIMED = {
 "C01": (T+"REC (guarded recursion along reference edges), NIL/NILMAP/ASSERT (nil-flow must-analysis with derived predicates and nil-tolerance), PANIC, LEX.PROGRESS/LEX.DELIMS (loop progress, delimiter sets), SCHEMA.FLOW",
         "Decides structural necessary conditions of crash- and hang-freedom on all paths of the analysed functions: no unguarded recursion along typedef/identity/uses/include references, no unguarded dereference of a recognised nil source, no failing single-result assertion, no input-reachable explicit panic, every lexer/parser loop consumes input. It does not decide slice bounds, stack depth or time; the behavioural claim (no crash for every text) needs run-time exploration.",
         NOTE, "DESIGN.md §4 C01, §3.2"),
 "C02": (T+"LEX.DELIMS, LEX.ESC (constant rune sets and substitution table extracted from SSA vs RFC 7950 6.1.3), PARSE.PUSH, PARSE.PATMODE (typestate), PARSE.RET, PARSE.DEPTH",
         "Decides the clauses of RFC 7950 section 6 conformance that are visible in the shape of the lexer and parser (token boundary set, escape table, push-back order, pattern-mode typestate, accept/reject return discipline, brace accounting). The string computation itself (indent stripping, concatenation content, comments) is value-level and not decided.",
         NOTE, "DESIGN.md §4 C02, §3.8"),
 "C03": (T+"SCHEMA.META/IFACE/SCOPE/REQ/CARDSPEC (type-level, exhaustive over ~45 node types and ~400 tagged fields, against RFC 7950 cardinality tables), SCHEMA.CARD/FLOW (builder closures and build control flow), NIL on the keyword table",
         "The AST builder is a function of a finite type-level schema; the schema rules decide it exhaustively (every node type, every tagged field, every accessor) and the flow rules decide that unknown, duplicate and missing substatements and non-module top levels leave through the error return on every path. Trusts package reflect; does not observe a built AST.",
         NOTE, "DESIGN.md §4 C03, §3.3"),
 "C16": (T+"POS.STMT (field-for-field provenance of statement and token positions, dominance order of the start-marker capture)",
         "Thin claim: decides that a statement's file/line/col are those of its keyword token and that token positions are the markers captured after whitespace and before consumption. The line/column bookkeeping (tabs, multi-byte runes, CR LF, comments) is arithmetic over the text and is not decided.",
         NOTE, "DESIGN.md §4 C16, §3.8"),
}
_pending = "check not built yet in this session (static rules under construction; see DESIGN.md Appendix B build order)"
NOT_APPLICABLE = {("C%02d" % i): _pending for i in range(1, 21)}
for k in CLAIMED: NOT_APPLICABLE.pop(k, None)
NOT_APPLICABLE["C20"] = "value-level arithmetic over run-time split points and short-write counts; see DESIGN.md section 6"

#!/usr/bin/env python3
"""Generates /verif/MANIFEST.json from the table below (kept in one place so the manifest is always valid)."""
import json, sys

CLAIMED = {
 # id: (technique, level text, level note)
}
NOT_APPLICABLE = {
}

def load_table():
    import importlib.util, os
    p = os.path.join(os.path.dirname(os.path.abspath(__file__)), "manifest_table.py")
    spec = importlib.util.spec_from_file_location("manifest_table", p)
    m = importlib.util.module_from_spec(spec); spec.loader.exec_module(m)
    return m.CLAIMED, m.NOT_APPLICABLE

def main():
    claimed, na = load_table()
    ids = ["C%02d" % i for i in range(1, 21)]
    for i in ids:
        assert (i in claimed) != (i in na), "property %s must be claimed xor not_applicable" % i
    env = "env GOFLAGS=-mod=mod GOPROXY=off GOSUMDB=off GOTOOLCHAIN=local GOWORK=off"
    import subprocess
    try:
        registry = json.loads(subprocess.check_output(["/verif/bin/goyang-verif", "-props-json"]).decode())
    except Exception:
        registry = {}
    checks = []
    for i in ids:
        if i not in claimed: continue
        tech, text, note, ref = claimed[i]
        if registry.get(i):
            tech += ". Registered rules (from the checker's registry): " + ", ".join(registry[i])
        checks.append({
            "property_id": i,
            "quick_cmd": "/verif/bin/goyang-verif -prop %s -tier quick" % i,
            "thorough_cmd": "/verif/bin/goyang-verif -prop %s -tier thorough" % i,
            "evidence_file": "/verif/evidence/%s.json" % i,
            "replay_cmd_template": "/verif/bin/goyang-verif -replay {path}",
            "engine": "goyang-verif",
            "level_claimed": {"category": "other", "text": text, "design_ref": ref},
            "level_note": note,
            "technique": tech,
        })
    m = {
        "version": 1,
        "setup_cmd": "cd /verif/checker && %s go build -o /verif/bin/goyang-verif ." % env,
        "hooks": {
            "guard": "verif",
            "enable": "none needed: static analysis reads /repo's sources as they are (the thorough tier also analyses the tree with -tags verif so tagged files cannot hide)",
            "baseline_off_cmd": "cd /repo && %s go test -vet=off -count=1 ./..." % env,
            "source_commits": [],
            "add_only": True,
        },
        "engines": [{
            "name": "goyang-verif",
            "path": "/verif/checker",
            "serves_properties": [c["property_id"] for c in checks],
            "kind_free_text": "repository-specific static analyser (go/packages + go/types + go/ssa + VTA call graph, x/tools v0.29.0): about 100 small rules over typed AST, SSA dominance/provenance and call-graph effect summaries; no execution of goyang",
        }],
        "checks": checks,
        "not_applicable": [{"property_id": i, "reason": na[i]} for i in ids if i in na],
        "notes": "Quick = every rule of the property on the default configuration (1-2 s). Thorough = the same under four build configurations, the CHA recomputation of call-graph-dependent sets, and an in-memory sensitivity sweep (own variants and independent seeds of the property applied as go/packages overlays; informational, recorded in evidence.coverage.sensitivity_sweep). All claims are at level 'other': each check decides structural clauses that are necessary conditions of its property (listed in evidence.coverage.explanation and DESIGN.md section 4), never the behavioural property itself. Known genuine defects are in /verif/known_findings.json.",
    }
    json.dump(m, open("/verif/MANIFEST.json", "w"), indent=1)
    print("wrote MANIFEST.json: %d checks, %d not_applicable" % (len(checks), len(m["not_applicable"])))

main()
